#!/venv/bin/python
"""Entry point: ``run.py Cnn [--tier quick|thorough] [--replay file] [--repo dir]``.

Exit 0: every rule instance of the property holds on the current /repo source (or fails
only at constructs listed in known_findings.json, each printed as KNOWN-FINDING).
Exit 1: a rule instance fails at an unlisted construct (VIOLATION line printed).
Exit 2: the analysis itself could not be carried out (ANALYSIS-ERROR) -- never a pass.
"""
import argparse
import importlib
import json
import os
import sys
import traceback

HERE = os.path.dirname(os.path.abspath(__file__))
sys.path.insert(0, HERE)

from engine.loader import Repo, AnalysisError  # noqa: E402
from engine.report import Report  # noqa: E402


def run_property(prop, tier='quick', seed=0, root=None, overlay=None, quiet=False, write=True):
    """Run one property's rules against a Repo; returns the finished Report."""
    rep = Report(prop, tier, seed, quiet=quiet, write=write)
    try:
        repo = Repo(root, overlay)
        rep.analysed.update(repo.stats())
        mod = importlib.import_module('checks.' + prop.lower())
        mod.run(repo, rep)
        if tier == 'thorough' and write and not overlay:
            from engine.report import load_known
            known = {(k['rule'], k['construct']) for k in load_known() if k.get('property') == prop}
            if any((i.rule, i.construct) not in known for i in rep.violations()):
                rep.note('self-validation skipped: the tree under analysis already violates the property (variants are judged '
                         'relative to a clean base)')
            else:
                selfvalidate(prop, rep)
    except AnalysisError as e:
        rep.error(str(e))
    except Exception as e:  # internal error: exit 2, never 1
        rep.error('internal error: %s: %s\n%s' % (type(e).__name__, e, traceback.format_exc()))
    rep.finish()
    return rep


def _variant_job(args):
    name, prop = args
    from selftest.variants import VARIANTS
    from selftest.harness import run_variant, Variant
    import copy
    v = [x for x in VARIANTS if x.name == name][0]
    one = copy.copy(v)
    one.prop = prop
    st, d = run_variant(one, 'quick')
    return name, v.kind, st, d[:300]


def selfvalidate(prop, rep):
    """thorough tier: every breaker variant of this property (an in-memory overlay that falsifies one
    rule instance) must make the check fire, every twin (behaviour-preserving rewrite) must leave it
    silent.  A failed self-validation means the checker is not to be believed: exit 2."""
    from selftest.variants import VARIANTS
    # the engine first: the interpreter must agree with CPython on the differential snippet suite (a wrong answer there makes
    # every model verdict unreliable)
    import subprocess
    p_ = subprocess.run([sys.executable, os.path.join(HERE, 'selftest', 'interp_selftest.py')], capture_output=True, text=True)
    last_ = (p_.stdout.strip().splitlines() or [''])[-1]
    rep.analysed['interpreter_selftest'] = last_
    if p_.returncode != 0:
        rep.error('self-validation failed: the interpreter disagrees with CPython on its snippet suite: %s' % last_)
    jobs = []
    for v in VARIANTS:
        props = v.prop if isinstance(v.prop, (tuple, list)) else (v.prop,)
        if prop in props:
            jobs.append((v.name, prop))
    if not jobs:
        rep.selfvalidation = {'variants': 0}
        return
    import multiprocessing
    with multiprocessing.get_context('fork').Pool(min(16, len(jobs))) as pool:
        results = pool.map(_variant_job, jobs)
    fired = sum(1 for _, k, st, _ in results if k == 'breaker' and st == 'ok')
    silent = sum(1 for _, k, st, _ in results if k == 'twin' and st == 'ok')
    skipped = [n for n, _, st, _ in results if st == 'SKIPPED']
    bad = [(n, k, st, d) for n, k, st, d in results if st not in ('ok', 'SKIPPED')]
    rep.selfvalidation = {
        'variants': len(results), 'breakers_fired': fired, 'twins_silent': silent,
        'skipped_anchor_text_absent': skipped, 'failures': [{'variant': n, 'kind': k, 'status': st, 'detail': d} for n, k, st, d in bad],
    }
    rep.count(len(results))
    for n, k, st, d in bad:
        rep.error('self-validation failed: %s variant %s -> %s (%s)' % (k, n, st, d))


def main():
    ap = argparse.ArgumentParser()
    ap.add_argument('prop')
    ap.add_argument('--tier', default=os.environ.get('VERIF_TIER', 'quick'),
                    choices=['quick', 'thorough'])
    ap.add_argument('--replay')
    ap.add_argument('--repo', default=None)
    args = ap.parse_args()
    try:
        seed = int(os.environ.get('VERIF_SEED', '0'))
    except ValueError:
        seed = 0
    prop = args.prop.upper()
    if args.replay:
        with open(args.replay) as f:
            r = json.load(f)
        print('replaying %s: rule %s construct %s (%s)' % (
            r['property'], r['rule'], r['construct'], r.get('where')))
        rep = run_property(prop, args.tier, seed, args.repo, quiet=True, write=False)
        hits = [i for i in rep.instances
                if i.rule == r['rule'] and i.construct == r['construct']]
        for i in hits:
            print('%s rule=%s construct=%s verdict=%s: %s' % (
                i.where, i.rule, i.construct, i.verdict, i.detail))
            _show_source(args.repo, i.where)
        if not hits:
            print('construct no longer present in the source')
            sys.exit(0)
        sys.exit(1 if any(i.verdict == 'VIOLATED' for i in hits) else 0)
    rep = run_property(prop, args.tier, seed, args.repo)
    sys.exit(rep.exit_code)


def _show_source(root, where):
    try:
        path, line = where.split(':')[:2]
        line = int(line)
        with open(os.path.join(root or os.environ.get('VERIF_REPO', '/repo'), path)) as f:
            lines = f.readlines()
        for n in range(max(0, line - 3), min(len(lines), line + 4)):
            print('  %5d %s' % (n + 1, lines[n].rstrip()))
    except Exception:
        pass


if __name__ == '__main__':
    main()
