"""Breakers and twins, grouped per property (see harness.py)."""
from .harness import Variant as V

L = 'prettyprinter/layout.py'
D = 'prettyprinter/doctypes.py'
DOC = 'prettyprinter/doc.py'
R = 'prettyprinter/render.py'
P = 'prettyprinter/prettyprinter.py'
C = 'prettyprinter/color.py'
I = 'prettyprinter/__init__.py'
S = 'prettyprinter/pretty_stdlib.py'
U = 'prettyprinter/utils.py'

VARIANTS = []


def add(*a, **k):
    VARIANTS.append(V(*a, **k))


# ----------------------------------------------------------------------------- C04
add('C04', 'breaker', 'concat-not-reversed-best', [(L, '''            triplestack.extend(
                (indent, mode, child)
                for child in reversed(doc.docs)
            )''', '''            triplestack.extend(
                (indent, mode, child)
                for child in doc.docs
            )''')], 'C04.b')
add('C04', 'breaker', 'annot-pop-above-doc', [(L, '''            triplestack.append((indent, mode, SAnnotationPop(doc.annotation)))
            triplestack.append((indent, mode, doc.doc))''', '''            triplestack.append((indent, mode, doc.doc))
            triplestack.append((indent, mode, SAnnotationPop(doc.annotation)))''')], 'C04.b')
add('C04', 'breaker', 'flatchoice-swapped-in-smart', [(L, '''            if mode is FLAT_MODE:
                triplestack.append((indent, mode, doc.when_flat))
            elif mode is BREAK_MODE:
                triplestack.append((indent, mode, doc.when_broken))''', '''            if mode is FLAT_MODE:
                triplestack.append((indent, mode, doc.when_broken))
            elif mode is BREAK_MODE:
                triplestack.append((indent, mode, doc.when_flat))''', 2)], 'C04.d')
add('C04', 'breaker', 'drop-fill-branch-fast', [(L, '''        elif isinstance(doc, Fill):
            triplestack.extend(
                (indent, mode, doc)
                for doc in reversed(doc.docs)
            )
        elif isinstance(doc, Nest):
            # Nest is a combination of an indent and a doc.
            # Increase indentation, then add the doc for processing.
            triplestack.append((indent + doc.indent, mode, doc.doc))
        elif isinstance(doc, AlwaysBreak):
            return False
            triplestack''', '''        elif isinstance(doc, Nest):
            # Nest is a combination of an indent and a doc.
            # Increase indentation, then add the doc for processing.
            triplestack.append((indent + doc.indent, mode, doc.doc))
        elif isinstance(doc, AlwaysBreak):
            return False
            triplestack''')], 'C04.a')
add('C04', 'breaker', 'text-lstripped-on-emit', [(L, '''            yield doc
            outcol += len(doc)''', '''            yield doc.lstrip()
            outcol += len(doc)''')], 'C04.c')
add('C04', 'breaker', 'column-not-advanced', [(L, '''            yield doc
            outcol += len(doc)''', '''            yield doc
            outcol += 1''')], 'C04.c')
add('C04', 'breaker', 'sline-wrong-indent', [(L, 'yield SLine(indent)', 'yield SLine(outcol)')], 'C04.c')
add('C04', 'breaker', 'nest-ignores-amount', [(L, '''            # Increase indentation and process the nested doc.
            triplestack.append((indent + doc.indent, mode, doc.doc))''', '''            # Increase indentation and process the nested doc.
            triplestack.append((indent, mode, doc.doc))''')], 'C04.c')
add('C04', 'breaker', 'alwaysbreak-inherits-mode', [(L, 'triplestack.append((indent, BREAK_MODE, doc.doc))\n        elif isinstance(doc, SAnnotationPop)', 'triplestack.append((indent, mode, doc.doc))\n        elif isinstance(doc, SAnnotationPop)')], 'C04.d')
add('C04', 'breaker', 'alwaysbreak-fits-in-smart', [(L, '''        elif isinstance(doc, AlwaysBreak):
            return False
        elif doc is HARDLINE:
            # In the fast''', '''        elif isinstance(doc, AlwaysBreak):
            triplestack.append((indent, BREAK_MODE, doc.doc))
        elif doc is HARDLINE:
            # In the fast''')], 'C04.d')
add('C04', 'breaker', 'group-modes-swapped', [(L, '''                triplestack.append((indent, FLAT_MODE, doc.doc))
            else:
                triplestack.append((indent, BREAK_MODE, doc.doc))''', '''                triplestack.append((indent, BREAK_MODE, doc.doc))
            else:
                triplestack.append((indent, FLAT_MODE, doc.doc))''')], 'C04.d')
add('C04', 'breaker', 'fill-order-swapped', [(L, '''            if fst_and_snd_content_does_fit:
                triplestack.append(remaining_triple)
                triplestack.append(flat_whitespace_triple)
                triplestack.append(flat_content_triple)''', '''            if fst_and_snd_content_does_fit:
                triplestack.append(remaining_triple)
                triplestack.append(flat_content_triple)
                triplestack.append(flat_whitespace_triple)''')], 'C04.b')
add('C04', 'breaker', 'concat-normalize-drops-str', [(D, '''            elif doc is NIL:
                continue
            else:
                normalized_docs.append(doc)

        if not normalized_docs:
            return NIL

        if len(normalized_docs) == 1:''', '''            elif doc is NIL or doc == ' ':
                continue
            else:
                normalized_docs.append(doc)

        if not normalized_docs:
            return NIL

        if len(normalized_docs) == 1:''')], 'C04.f')
add('C04', 'breaker', 'group-normalize-nil-for-str', [(D, '''        elif doc_normalized is NIL:
            return NIL
        return Group(doc_normalized)''', '''        elif doc_normalized is NIL or isinstance(doc_normalized, str):
            return NIL
        return Group(doc_normalized)''')], 'C04.f')
add('C04', 'breaker', 'flat-choice-args-swapped', [(DOC, '''    return FlatChoice(
        validate_doc(when_broken),
        validate_doc(when_flat)
    )''', '''    return FlatChoice(
        validate_doc(when_flat),
        validate_doc(when_broken)
    )''')], 'C04.f')
add('C04', 'breaker', 'softline-flat-space', [(D, 'SOFTLINE = FlatChoice(HARDLINE, NIL)', "SOFTLINE = FlatChoice(HARDLINE, ' ')")], 'C04.f')
add('C04', 'breaker', 'renderer-strip', [(R, 'sdoc_line[last_text_sdoc_idx] = last_text_sdoc.rstrip()', 'sdoc_line[last_text_sdoc_idx] = last_text_sdoc.strip()')], 'C04.i')
add('C04', 'breaker', 'renderer-indent-plus-one', [(R, 'stream.write(newline + separator * sdoc.indent)', 'stream.write(newline + separator * (sdoc.indent + 1))')], 'C04.i')
add('C04', 'breaker', 'constructor-assert-doc-only', [(D, 'assert isinstance(doc, (Doc, str))', 'assert isinstance(doc, Doc)')], 'C04.g')
add('C04', 'breaker', 'when-flat-returns-broken', [(D, '''            self._flat_normalized = True
        return self._when_flat''', '''            self._flat_normalized = True
        return self._when_broken''')], 'C04.f')
add('C04', 'twin', 'rename-loop-var-and-reformat', [(L, '''            triplestack.extend(
                (indent, mode, child)
                for child in reversed(doc.docs)
            )''', '''            triplestack.extend((indent, mode, kid) for kid in reversed(doc.docs))''')])
add('C04', 'twin', 'slice-reverse', [(L, '''            triplestack.extend(
                (indent, mode, child)
                for child in reversed(doc.docs)
            )''', '''            triplestack.extend(
                (indent, mode, child)
                for child in doc.docs[::-1]
            )''')])
add('C04', 'twin', 'flatchoice-if-else', [(L, '''            if mode is BREAK_MODE:
                triplestack.append((indent, mode, doc.when_broken))
            elif mode is FLAT_MODE:
                triplestack.append((indent, mode, doc.when_flat))
            else:
                raise ValueError''', '''            if mode == BREAK_MODE:
                triplestack.append((indent, mode, doc.when_broken))
            else:
                triplestack.append((indent, mode, doc.when_flat))''')])
add('C04', 'twin', 'temp-for-nest-indent', [(L, '''            # Increase indentation and process the nested doc.
            triplestack.append((indent + doc.indent, mode, doc.doc))''', '''            new_indent = doc.indent + indent
            triplestack.append((new_indent, mode, doc.doc))''')])
add('C04', 'twin', 'renderer-inline-temp', [(R, '''            last_text_sdoc = sdoc_line[last_text_sdoc_idx]
            sdoc_line[last_text_sdoc_idx] = last_text_sdoc.rstrip()''', '''            sdoc_line[last_text_sdoc_idx] = sdoc_line[last_text_sdoc_idx].rstrip()''')])
add('C04', 'twin', 'dead-code-removed-fast', [(L, '''            return False
            triplestack.append((indent, BREAK_MODE, doc.doc))''', '''            return False''')])
