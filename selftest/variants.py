"""Breakers and twins, grouped per property (see harness.py)."""
from .harness import Variant as V

L = 'prettyprinter/layout.py'
D = 'prettyprinter/doctypes.py'
DOC = 'prettyprinter/doc.py'
R = 'prettyprinter/render.py'
P = 'prettyprinter/prettyprinter.py'
C = 'prettyprinter/color.py'
I = 'prettyprinter/__init__.py'
S = 'prettyprinter/pretty_stdlib.py'
U = 'prettyprinter/utils.py'

VARIANTS = []


def add(*a, **k):
    VARIANTS.append(V(*a, **k))


# ----------------------------------------------------------------------------- C04
add('C04', 'breaker', 'align-nests-by-column', [(DOC, '''        return Nest(column - indent, doc)''', '''        return Nest(column, doc)''')], 'C04.n')
add('C04', 'breaker', 'align-ignores-column', [(DOC, '''        return Nest(column - indent, doc)''', '''        return Nest(0, doc)''')], 'C04.n')
add('C04', 'breaker', 'hang-without-align', [(DOC, '''    return align(
        Nest(i, validate_doc(doc))
    )''', '''    return Nest(i, validate_doc(doc))''')], 'C04.n')
add('C04', 'breaker', 'hang-drops-amount', [(DOC, '''    return align(
        Nest(i, validate_doc(doc))
    )''', '''    return align(
        Nest(0, validate_doc(doc))
    )''')], 'C04.n')
add('C04', 'breaker', 'nest-negates-amount', [(DOC, '''def nest(i, doc):
    return Nest(i, validate_doc(doc))''', '''def nest(i, doc):
    return Nest(abs(i), validate_doc(doc))''')], 'C04')
add('C04', 'twin', 'align-temporary', [(DOC, '''        return Nest(column - indent, doc)''', '''        extra = column - indent
        return Nest(extra, doc)''')])
add('C04', 'breaker', 'concat-not-reversed-best', [(L, '''            triplestack.extend(
                (indent, mode, child)
                for child in reversed(doc.docs)
            )''', '''            triplestack.extend(
                (indent, mode, child)
                for child in doc.docs
            )''')], 'C04.b')
add('C04', 'breaker', 'annot-pop-above-doc', [(L, '''            triplestack.append((indent, mode, SAnnotationPop(doc.annotation)))
            triplestack.append((indent, mode, doc.doc))''', '''            triplestack.append((indent, mode, doc.doc))
            triplestack.append((indent, mode, SAnnotationPop(doc.annotation)))''')], 'C04.b')
add('C04', 'breaker', 'flatchoice-swapped-in-smart', [(L, '''            if mode is FLAT_MODE:
                triplestack.append((indent, mode, doc.when_flat))
            elif mode is BREAK_MODE:
                triplestack.append((indent, mode, doc.when_broken))''', '''            if mode is FLAT_MODE:
                triplestack.append((indent, mode, doc.when_broken))
            elif mode is BREAK_MODE:
                triplestack.append((indent, mode, doc.when_flat))''', 2)], 'C04.d')
add('C04', 'breaker', 'drop-fill-branch-fast', [(L, '''        elif isinstance(doc, Fill):
            triplestack.extend(
                (indent, mode, doc)
                for doc in reversed(doc.docs)
            )
        elif isinstance(doc, Nest):
            # Nest is a combination of an indent and a doc.
            # Increase indentation, then add the doc for processing.
            triplestack.append((indent + doc.indent, mode, doc.doc))
        elif isinstance(doc, AlwaysBreak):
            return False
            triplestack''', '''        elif isinstance(doc, Nest):
            # Nest is a combination of an indent and a doc.
            # Increase indentation, then add the doc for processing.
            triplestack.append((indent + doc.indent, mode, doc.doc))
        elif isinstance(doc, AlwaysBreak):
            return False
            triplestack''')], 'C04.a')
add('C04', 'breaker', 'text-lstripped-on-emit', [(L, '''            yield doc
            outcol += len(doc)''', '''            yield doc.lstrip()
            outcol += len(doc)''')], 'C04.c')
add('C04', 'breaker', 'column-not-advanced', [(L, '''            yield doc
            outcol += len(doc)''', '''            yield doc
            outcol += 1''')], 'C04.c')
add('C04', 'breaker', 'sline-wrong-indent', [(L, 'yield SLine(indent)', 'yield SLine(outcol)')], 'C04.c')
add('C04', 'breaker', 'nest-ignores-amount', [(L, '''            # Increase indentation and process the nested doc.
            triplestack.append((indent + doc.indent, mode, doc.doc))''', '''            # Increase indentation and process the nested doc.
            triplestack.append((indent, mode, doc.doc))''')], 'C04.c')
# both fitting predicates refuse an AlwaysBreak, so best_layout never meets one in flat mode: inheriting the mode there changes nothing
add('C04', 'twin', 'alwaysbreak-inherits-mode-unreachable-in-flat', [(L, 'triplestack.append((indent, BREAK_MODE, doc.doc))\n        elif isinstance(doc, SAnnotationPop)', 'triplestack.append((indent, mode, doc.doc))\n        elif isinstance(doc, SAnnotationPop)')])
add('C04', 'breaker', 'alwaysbreak-fits-in-smart', [(L, '''        elif isinstance(doc, AlwaysBreak):
            return False
        elif doc is HARDLINE:
            # In the fast''', '''        elif isinstance(doc, AlwaysBreak):
            triplestack.append((indent, BREAK_MODE, doc.doc))
        elif doc is HARDLINE:
            # In the fast''')], 'C04.d')
add('C04', 'breaker', 'group-modes-swapped', [(L, '''                triplestack.append((indent, FLAT_MODE, doc.doc))
            else:
                triplestack.append((indent, BREAK_MODE, doc.doc))''', '''                triplestack.append((indent, BREAK_MODE, doc.doc))
            else:
                triplestack.append((indent, FLAT_MODE, doc.doc))''')], 'C04.d')
add('C04', 'breaker', 'fill-order-swapped', [(L, '''            if fst_and_snd_content_does_fit:
                triplestack.append(remaining_triple)
                triplestack.append(flat_whitespace_triple)
                triplestack.append(flat_content_triple)''', '''            if fst_and_snd_content_does_fit:
                triplestack.append(remaining_triple)
                triplestack.append(flat_content_triple)
                triplestack.append(flat_whitespace_triple)''')], 'C04.b')
add('C04', 'breaker', 'concat-normalize-drops-str', [(D, '''            elif doc is NIL:
                continue
            else:
                normalized_docs.append(doc)

        if not normalized_docs:
            return NIL

        if len(normalized_docs) == 1:''', '''            elif doc is NIL or doc == ' ':
                continue
            else:
                normalized_docs.append(doc)

        if not normalized_docs:
            return NIL

        if len(normalized_docs) == 1:''')], 'C04.f')
add('C04', 'breaker', 'group-normalize-nil-for-str', [(D, '''        elif doc_normalized is NIL:
            return NIL
        return Group(doc_normalized)''', '''        elif doc_normalized is NIL or isinstance(doc_normalized, str):
            return NIL
        return Group(doc_normalized)''')], 'C04.f')
add('C04', 'breaker', 'flat-choice-args-swapped', [(DOC, '''    return FlatChoice(
        validate_doc(when_broken),
        validate_doc(when_flat)
    )''', '''    return FlatChoice(
        validate_doc(when_flat),
        validate_doc(when_broken)
    )''')], 'C04.f')
add('C04', 'breaker', 'softline-flat-space', [(D, 'SOFTLINE = FlatChoice(HARDLINE, NIL)', "SOFTLINE = FlatChoice(HARDLINE, ' ')")], 'C04.f')
add('C04', 'breaker', 'renderer-strip', [(R, 'sdoc_line[last_text_sdoc_idx] = last_text_sdoc.rstrip()', 'sdoc_line[last_text_sdoc_idx] = last_text_sdoc.strip()')], 'C04.i')
add('C04', 'breaker', 'renderer-indent-plus-one', [(R, 'stream.write(newline + separator * sdoc.indent)', 'stream.write(newline + separator * (sdoc.indent + 1))')], 'C04.i')
add('C04', 'breaker', 'constructor-assert-doc-only', [(D, 'assert isinstance(doc, (Doc, str))', 'assert isinstance(doc, Doc)')], 'C04.g')
add('C04', 'breaker', 'when-flat-returns-broken', [(D, '''            self._flat_normalized = True
        return self._when_flat''', '''            self._flat_normalized = True
        return self._when_broken''')], 'C04.f')
add('C04', 'twin', 'rename-loop-var-and-reformat', [(L, '''            triplestack.extend(
                (indent, mode, child)
                for child in reversed(doc.docs)
            )''', '''            triplestack.extend((indent, mode, kid) for kid in reversed(doc.docs))''')])
add('C04', 'twin', 'slice-reverse', [(L, '''            triplestack.extend(
                (indent, mode, child)
                for child in reversed(doc.docs)
            )''', '''            triplestack.extend(
                (indent, mode, child)
                for child in doc.docs[::-1]
            )''')])
add('C04', 'twin', 'flatchoice-if-else', [(L, '''            if mode is BREAK_MODE:
                triplestack.append((indent, mode, doc.when_broken))
            elif mode is FLAT_MODE:
                triplestack.append((indent, mode, doc.when_flat))
            else:
                raise ValueError''', '''            if mode == BREAK_MODE:
                triplestack.append((indent, mode, doc.when_broken))
            else:
                triplestack.append((indent, mode, doc.when_flat))''')])
add('C04', 'twin', 'temp-for-nest-indent', [(L, '''            # Increase indentation and process the nested doc.
            triplestack.append((indent + doc.indent, mode, doc.doc))''', '''            new_indent = doc.indent + indent
            triplestack.append((new_indent, mode, doc.doc))''')])
add('C04', 'twin', 'renderer-inline-temp', [(R, '''            last_text_sdoc = sdoc_line[last_text_sdoc_idx]
            sdoc_line[last_text_sdoc_idx] = last_text_sdoc.rstrip()''', '''            sdoc_line[last_text_sdoc_idx] = sdoc_line[last_text_sdoc_idx].rstrip()''')])
add('C04', 'twin', 'dead-code-removed-fast', [(L, '''            return False
            triplestack.append((indent, BREAK_MODE, doc.doc))''', '''            return False''')])

# ----------------------------------------------------------------------------- C05 / C06
LA = ('C05', 'C06')
add(LA, 'breaker', 'guard-strict', [(L, 'while chars_left >= 0:', 'while chars_left > 0:', 1)], 'C0')
add(LA, 'breaker', 'guard-loose-smart', [(L, '''    chars_left = max_width

    while chars_left >= 0:
        if not triplestack:
            return True

        indent, mode, doc = triplestack.pop()

        if doc is NIL:''', '''    chars_left = max_width

    while chars_left >= -1:
        if not triplestack:
            return True

        indent, mode, doc = triplestack.pop()

        if doc is NIL:''')], 'C0')
add(LA, 'breaker', 'avail-min-to-max', [(L, 'available_width = min(columns_left_in_line, columns_left_in_ribbon)', 'available_width = max(columns_left_in_line, columns_left_in_ribbon)', 1)], 'C0')
add(LA, 'breaker', 'avail-width-minus-indent', [(L, 'columns_left_in_line = width - outcol', 'columns_left_in_line = width - indent', 1)], 'C0')
add(LA, 'breaker', 'ribbon-from-col0', [(L, 'columns_left_in_ribbon = indent + ribbon_width - outcol', 'columns_left_in_ribbon = ribbon_width - outcol', 1)], 'C0')
add(LA, 'breaker', 'ribbon-frac-unclamped', [(P, 'ribbon_frac = min(1.0, ribbon_width / width)', 'ribbon_frac = ribbon_width / width')], 'C0')
add(LA, 'breaker', 'ribbon-frac-default', [(P, 'return layout_smart(doc, width=width, ribbon_frac=ribbon_frac)', 'return layout_smart(doc, width=width)')], 'C0')
add(LA, 'breaker', 'predicate-on-live-stack', [(L, 'new_triplestack = copy(triplestack)', 'new_triplestack = triplestack')], 'C0')
add(LA, 'breaker', 'predicate-without-rest', [(L, 'new_triplestack = copy(triplestack)', 'new_triplestack = []')], 'C0')
add(LA, 'breaker', 'text-charged-plus-one', [(L, 'chars_left -= len(doc)', 'chars_left -= len(doc) + 1', 1)], 'C0')
add(LA, 'breaker', 'smart-reset-full-width', [(L, 'chars_left = page_width - indent', 'chars_left = page_width')], 'C0')
add(LA, 'breaker', 'smart-continue-ge', [(L, 'if indent > min_nesting_level:', 'if indent >= min_nesting_level:')], 'C0')
add(LA, 'breaker', 'min-nesting-max', [(L, 'min_nesting_level = min(outcol, indent)', 'min_nesting_level = max(outcol, indent)', 1)], 'C0')
add(LA, 'breaker', 'ribbon-round-dropped', [(L, 'ribbon_width = max(0, min(width, round(ribbon_frac * width)))', 'ribbon_width = max(0, min(width, round(ribbon_frac * width) + 1))')], 'C0')
add(LA, 'breaker', 'fallout-returns-true', [(L, '''            raise ValueError((indent, mode, doc))

    return False


def smart''', '''            raise ValueError((indent, mode, doc))

    return True


def smart''')], 'C0')
add(LA, 'breaker', 'will-break-depends-on-indent', [(P, 'will_break = force_break or minimum_output_len > MAX_PRACTICAL_RIBBON_WIDTH', 'will_break = force_break or minimum_output_len + ctx.indent > MAX_PRACTICAL_RIBBON_WIDTH')], 'C0')
add(LA, 'twin', 'guard-gt-minus-one', [(L, 'while chars_left >= 0:', 'while chars_left > -1:', 0)])
add(LA, 'twin', 'guard-not-lt', [(L, 'while chars_left >= 0:', 'while not chars_left < 0:', 0)])
add(LA, 'twin', 'avail-inline-and-commute', [(L, '''            columns_left_in_line = width - outcol
            columns_left_in_ribbon = indent + ribbon_width - outcol
            available_width = min(columns_left_in_line, columns_left_in_ribbon)

            if fitting_predicate(''', '''            available_width = min(ribbon_width + indent - outcol, width - outcol)

            if fitting_predicate(''')])
add(LA, 'twin', 'copy-via-list', [(L, 'new_triplestack = copy(triplestack)', 'new_triplestack = list(triplestack)')])
add(LA, 'twin', 'ribbon-commuted', [(L, 'ribbon_width = max(0, min(page_width, round(ribbon_frac * page_width)))', 'ribbon_width = max(min(round(page_width * ribbon_frac), page_width), 0)', 0)])
add(LA, 'twin', 'positional-predicate-args', [(L, '''            if fitting_predicate(
                page_width=width,
                ribbon_frac=ribbon_frac,
                min_nesting_level=min_nesting_level,
                max_width=available_width,
                triplestack=new_triplestack
            ):''', '''            if fitting_predicate(width, ribbon_frac, min_nesting_level, available_width, new_triplestack):''')])

# ----------------------------------------------------------------------------- C18
add('C18', 'breaker', 'pprint-drops-ribbon', [(I, '''            ribbon_width=ribbon_width,
            max_seq_len=max_seq_len,
            sort_dict_keys=sort_dict_keys,
        )
    )
    stream = (
        # This is not in _default_config in case
        # sys.stdout changes.
        sys.stdout
        if stream is _UNSET_SENTINEL
        else stream
    )

    default_render_to_stream(stream, sdocs)''', '''            ribbon_width=_UNSET_SENTINEL,
            max_seq_len=max_seq_len,
            sort_dict_keys=sort_dict_keys,
        )
    )
    stream = (
        # This is not in _default_config in case
        # sys.stdout changes.
        sys.stdout
        if stream is _UNSET_SENTINEL
        else stream
    )

    default_render_to_stream(stream, sdocs)''')], 'C18.a')
add('C18', 'breaker', 'cpprint-width-as-ribbon', [(I, '''            depth=depth,
            ribbon_width=ribbon_width,
            max_seq_len=max_seq_len,
            sort_dict_keys=sort_dict_keys,
        )
    )
    stream = (
        # This is not in _default_config in case
        # sys.stdout changes.
        sys.stdout
        if stream is _UNSET_SENTINEL
        else stream
    )
    colored_render_to_stream''', '''            depth=depth,
            ribbon_width=width,
            max_seq_len=max_seq_len,
            sort_dict_keys=sort_dict_keys,
        )
    )
    stream = (
        # This is not in _default_config in case
        # sys.stdout changes.
        sys.stdout
        if stream is _UNSET_SENTINEL
        else stream
    )
    colored_render_to_stream''')], 'C18.a')
add('C18', 'breaker', 'merge-default-wins', [(I, 'return {key: kwargs[key] if kwargs[key] is not _UNSET_SENTINEL else default', 'return {key: kwargs[key] if kwargs[key] is _UNSET_SENTINEL else default')], 'C18.b')
add('C18', 'breaker', 'merge-captures-defaults', [(I, '''    kwargs = locals()
    return {key: kwargs[key] if kwargs[key] is not _UNSET_SENTINEL else default
            for key, default in _default_config.items()}''', '''    kwargs = locals()
    return {key: kwargs[key] if kwargs[key] is not _UNSET_SENTINEL else default
            for key, default in _INITIAL_DEFAULTS}'''), (I, '''def _merge_defaults(''', '''_INITIAL_DEFAULTS = tuple(_default_config.items())


def _merge_defaults(''')], 'C18.b')
add('C18', 'breaker', 'setdefault-cross-wired', [(I, "new_defaults['ribbon_width'] = ribbon_width", "new_defaults['width'] = ribbon_width")], 'C18.c')
add('C18', 'breaker', 'setdefault-unguarded', [(I, '''    if depth is not _UNSET_SENTINEL:
        new_defaults['depth'] = depth''', '''    new_defaults['depth'] = depth''')], 'C18.c')
add('C18', 'breaker', 'setdefault-not-installed', [(I, '''    _default_config = new_defaults
    return new_defaults''', '''    return new_defaults''')], 'C18.c')
add('C18', 'breaker', 'pprint-end-before', [(I, '''    default_render_to_stream(stream, sdocs)
    if end:
        stream.write(end)''', '''    if end:
        stream.write(end)
    default_render_to_stream(stream, sdocs)''')], 'C18.a')
add('C18', 'breaker', 'pprint-stdout-captured', [(I, '''    stream = (
        # This is not in _default_config in case
        # sys.stdout changes.
        sys.stdout
        if stream is _UNSET_SENTINEL
        else stream
    )

    default_render_to_stream(stream, sdocs)''', '''    stream = (
        _STDOUT
        if stream is _UNSET_SENTINEL
        else stream
    )

    default_render_to_stream(stream, sdocs)'''), (I, '_UNSET_SENTINEL = UnsetSentinel()\n', '_UNSET_SENTINEL = UnsetSentinel()\n_STDOUT = sys.stdout\n')], 'C18.a')
add('C18', 'breaker', 'shim-drops-object', [(I, 'return pformat(object, *self._args, **self._kwargs)', 'return pformat(*self._args, **self._kwargs)')], 'C18.d')
add('C18', 'breaker', 'pretty-repr-uses-repr', [(I, '    return pformat(instance)', '    return repr(instance)')], 'C18.e')
add('C18', 'breaker', 'pformat-depth-default-none', [(I, '''    object,
    indent=_UNSET_SENTINEL,
    width=_UNSET_SENTINEL,
    depth=_UNSET_SENTINEL,
    *,
    ribbon_width=_UNSET_SENTINEL,
    max_seq_len=_UNSET_SENTINEL,
    compact=_UNSET_SENTINEL,''', '''    object,
    indent=_UNSET_SENTINEL,
    width=_UNSET_SENTINEL,
    depth=None,
    *,
    ribbon_width=_UNSET_SENTINEL,
    max_seq_len=_UNSET_SENTINEL,
    compact=_UNSET_SENTINEL,''')], 'C18.a')
add('C18', 'twin', 'merge-reversed-polarity', [(I, 'return {key: kwargs[key] if kwargs[key] is not _UNSET_SENTINEL else default', 'return {key: default if kwargs[key] is _UNSET_SENTINEL else kwargs[key]')])
add('C18', 'twin', 'stream-choice-reversed', [(I, '''        sys.stdout
        if stream is _UNSET_SENTINEL
        else stream
    )

    default_render_to_stream''', '''        stream
        if stream is not _UNSET_SENTINEL
        else sys.stdout
    )

    default_render_to_stream''')])
add('C18', 'twin', 'setdefault-dict-copy', [(I, 'new_defaults = {**_default_config}', 'new_defaults = dict(_default_config)')])

# ----------------------------------------------------------------------------- C13 / C14
add(('C13', 'C14'), 'breaker', 'end-visit-not-in-finally', [(P, '''    ctx.start_visit(value)
    try:
        return _run_pretty_visited(pretty_fn, value, ctx, trailing_comment)
    finally:
        # Whatever happens while printing value (an exception raised
        # here may be caught by an enclosing printer's handler), value
        # is no longer being visited.
        ctx.end_visit(value)
''', '''    ctx.start_visit(value)
    doc = _run_pretty_visited(pretty_fn, value, ctx, trailing_comment)
    ctx.end_visit(value)
    return doc
''')], 'C1')
add('C13', 'breaker', 'end-visit-removed', [(P, '''    finally:
        # Whatever happens while printing value (an exception raised
        # here may be caught by an enclosing printer's handler), value
        # is no longer being visited.
        ctx.end_visit(value)
''', '''    finally:
        pass
''')], 'C13.a')
add('C13', 'breaker', 'marker-test-after-start', [(P, '''    if ctx.is_visited(value):
        return _pretty_recursion(value)

    ctx.start_visit(value)
    try:''', '''    ctx.start_visit(value)
    if ctx.is_visited(value):
        return _pretty_recursion(value)
    try:''')], 'C13.a')
add('C13', 'breaker', 'visited-copied-per-level', [(P, '''    def nested_call(self):
        return self._replace(depth_left=self.depth_left - 1)''', '''    def nested_call(self):
        return self._replace(depth_left=self.depth_left - 1, visited=set(self.visited))''')], 'C13.b')
add('C13', 'breaker', 'visited-default-shared', [(P, '''        visited=None,
        multiline_strategy=MULTILINE_STRATEGY_PLAIN,''', '''        visited=set(),
        multiline_strategy=MULTILINE_STRATEGY_PLAIN,''')], 'C13.c')
add('C13', 'breaker', 'toplevel-visited-module-global', [(P, '''            visited=set(),
            max_seq_len=max_seq_len,''', '''            visited=_VISITED,
            max_seq_len=max_seq_len,'''), (P, 'UNSET_SENTINEL = object()\n', 'UNSET_SENTINEL = object()\n_VISITED = set()\n')], 'C13.c')
add('C13', 'breaker', 'register-without-wrapper', [(P, 'pretty_dispatch.register(type, partial(_run_pretty, fn))', 'pretty_dispatch.register(type, fn)')])
add('C13', 'breaker', 'visited-keyed-by-value', [(P, '''    def start_visit(self, value):
        self.visited.add(id(value))''', '''    def start_visit(self, value):
        self.visited.add(repr(value))''')], 'C13.b')
add('C13', 'breaker', 'sequence-docs-lazy', [(P, '''def sequence_of_docs(ctx, left, docs, right, dangle=False, force_break=False):
    docs = list(docs)
''', '''def sequence_of_docs(ctx, left, docs, right, dangle=False, force_break=False):
    docs = iter(docs)
''')], 'C13.e')
add('C13', 'breaker', 'dict-printer-calls-list-printer-directly', [(P, '''        vdoc = pretty_python_value(
            v,
            ctx=(
                ctx
                .nested_call()
                .use_multiline_strategy(MULTILINE_STRATEGY_INDENTED)
            ),
        )''', '''        if type(v) is list:
            vdoc = pretty_bracketable_iterable(v, ctx.nested_call())
        else:
            vdoc = pretty_python_value(
                v,
                ctx=(
                    ctx
                    .nested_call()
                    .use_multiline_strategy(MULTILINE_STRATEGY_INDENTED)
                ),
            )''')], 'C13.d')
add('C14', 'breaker', 'handler-narrowed', [(P, '''        try:
            doc = pretty_fn(value, ctx)
        except Exception as e:
            _warn_about_bad_printer(pretty_fn, value, exc=e)
            doc = repr(value)

    if not (''', '''        try:
            doc = pretty_fn(value, ctx)
        except (TypeError, ValueError, AttributeError) as e:
            _warn_about_bad_printer(pretty_fn, value, exc=e)
            doc = repr(value)

    if not (''')], 'C14.a')
add('C14', 'breaker', 'trailing-path-typeerror-only', [(P, '''        except Exception as e:
            _warn_about_bad_printer(pretty_fn, value, exc=e)
            doc = repr(value)
    else:
        try:''', '''    else:
        try:''')], 'C14.a')
add('C14', 'breaker', 'retry-unguarded', [(P, '''                try:
                    doc = pretty_fn(value, ctx)
                except Exception as retry_exc:
                    _warn_about_bad_printer(pretty_fn, value, exc=retry_exc)
                    doc = repr(value)''', '''                doc = pretty_fn(value, ctx)''')])
add('C14', 'breaker', 'fallback-str', [(P, '''        except Exception as e:
            _warn_about_bad_printer(pretty_fn, value, exc=e)
            doc = repr(value)

    if not (''', '''        except Exception as e:
            _warn_about_bad_printer(pretty_fn, value, exc=e)
            doc = str(value)

    if not (''')], 'C14.b')
add('C14', 'breaker', 'fallback-silent', [(P, '''        except Exception as e:
            _warn_about_bad_printer(pretty_fn, value, exc=e)
            doc = repr(value)

    if not (''', '''        except Exception as e:
            doc = repr(value)

    if not (''')], 'C14.b')
add('C14', 'breaker', 'warning-category', [(P, '''            ''.join(format_exception(type(exc), exc, exc.__traceback__))
        ),
        UserWarning
    )''', '''            ''.join(format_exception(type(exc), exc, exc.__traceback__))
        ),
        RuntimeWarning
    )''')], 'C14.b')
add('C14', 'breaker', 'validation-polarity', [(P, '''    if not (
        isinstance(doc, str) or
        isinstance(doc, Doc)
    ):''', '''    if not (
        isinstance(doc, str) and
        isinstance(doc, Doc)
    ):''')], 'C14.d')
add('C14', 'breaker', 'validation-only-plain-path', [(P, '''        except Exception as e:
            _warn_about_bad_printer(pretty_fn, value, exc=e)
            doc = repr(value)
    else:
        try:''', '''        except Exception as e:
            _warn_about_bad_printer(pretty_fn, value, exc=e)
            doc = repr(value)
        return doc
    else:
        try:''')], 'C14.d')
add(('C13', 'C14'), 'twin', 'validation-tuple-isinstance', [(P, '''    if not (
        isinstance(doc, str) or
        isinstance(doc, Doc)
    ):''', '''    if not isinstance(doc, (str, Doc)):''')])
add(('C13', 'C14'), 'twin', 'inline-visited-helper', [(P, '''    ctx.start_visit(value)
    try:
        return _run_pretty_visited(pretty_fn, value, ctx, trailing_comment)
    finally:''', '''    ctx.start_visit(value)
    try:
        doc = _run_pretty_visited(pretty_fn, value, ctx, trailing_comment)
        return doc
    finally:''')])
add(('C13', 'C14'), 'twin', 'bare-except-exception-tuple', [(P, '''        try:
            doc = pretty_fn(value, ctx)
        except Exception as e:
            _warn_about_bad_printer(pretty_fn, value, exc=e)
            doc = repr(value)

    if not (''', '''        try:
            doc = pretty_fn(value, ctx)
        except (Exception, ) as err:
            _warn_about_bad_printer(pretty_fn, value, exc=err)
            doc = repr(value)

    if not (''')])

# ----------------------------------------------------------------------------- C15
add('C15', 'breaker', 'query-promotes-when-readonly', [(P, '''            if register_deferred:
                # Register before removing, so that another thread printing
                # the same type at the same time finds the printer in at
                # least one of the two registries at every moment.
                register_pretty(type)(deferred_dispatch)
                _DEFERRED_DISPATCH_BY_NAME.pop(deferred_key, None)
            return True''', '''            # Register before removing, so that another thread printing
            # the same type at the same time finds the printer in at
            # least one of the two registries at every moment.
            register_pretty(type)(deferred_dispatch)
            _DEFERRED_DISPATCH_BY_NAME.pop(deferred_key, None)
            return True''')], 'C15.b')
add('C15', 'breaker', 'supertype-promoted-under-subclass', [(P, 'register_pretty(supertype)(deferred_dispatch)', 'register_pretty(type)(deferred_dispatch)')], 'C15.d')
add('C15', 'breaker', 'mro-reversed', [(P, 'for supertype in type.__mro__[1:]:', 'for supertype in reversed(type.__mro__[1:]):')], 'C15.e')
add('C15', 'breaker', 'mro-includes-self-skips-none', [(P, 'for supertype in type.__mro__[1:]:', 'for supertype in type.__bases__:')], 'C15.e')
add('C15', 'breaker', 'dispatch-before-check', [(P, '''    is_registered(
        type(value),
        check_superclasses=True,
        check_deferred=True,
        register_deferred=True
    )

    if trailing_comment:
        doc = pretty_dispatch(
            value,
            ctx,
            trailing_comment=trailing_comment
        )
    else:''', '''    if trailing_comment:
        doc = pretty_dispatch(
            value,
            ctx,
            trailing_comment=trailing_comment
        )
        is_registered(
            type(value),
            check_superclasses=True,
            check_deferred=True,
            register_deferred=True
        )
    else:
        is_registered(
            type(value),
            check_superclasses=True,
            check_deferred=True,
            register_deferred=True
        )''')], 'C15.c')
add('C15', 'breaker', 'check-without-superclasses', [(P, '''    is_registered(
        type(value),
        check_superclasses=True,
        check_deferred=True,
        register_deferred=True
    )

    if trailing_comment:''', '''    is_registered(
        type(value),
        check_superclasses=False,
        check_deferred=True,
        register_deferred=True
    )

    if trailing_comment:''')], 'C15.c')
add('C15', 'breaker', 'predicate-insert-front', [(P, '_PREDICATE_REGISTRY.append((predicate, fn))', '_PREDICATE_REGISTRY.insert(0, (predicate, fn))')], 'C15')
add('C15', 'breaker', 'predicates-last-wins', [(P, '''    for predicate, fn in _PREDICATE_REGISTRY:
        if predicate(value):
            return fn(value, ctx)
    return repr(value)''', '''    for predicate, fn in reversed(_PREDICATE_REGISTRY):
        if predicate(value):
            return fn(value, ctx)
    return repr(value)''')], 'C15.f')
# the class registration itself drops the pending entry for that class, so leaving out the second pop changes nothing
add('C15', 'twin', 'promotion-without-second-pop', [(P, '''                    register_pretty(supertype)(deferred_dispatch)
                    _DEFERRED_DISPATCH_BY_NAME.pop(deferred_key, None)''', '''                    register_pretty(supertype)(deferred_dispatch)''')])
add('C15', 'breaker', 'deferred-key-name-only', [(P, "return type.__module__ + '.' + type.__qualname__", "return type.__module__ + '.' + type.__name__")], 'C15.d')
add('C15', 'breaker', 'deferred-setdefault', [(P, '                _DEFERRED_DISPATCH_BY_NAME[type] = fn', '                _DEFERRED_DISPATCH_BY_NAME.setdefault(type, fn)')], 'C15')
add('C15', 'breaker', 'final-answer-equality-on-registry', [(P, 'return pretty_dispatch.dispatch(type) is not _BASE_DISPATCH', 'return pretty_dispatch.dispatch(type) is not _repr_pretty')], 'C15.e')
add('C15', 'breaker', 'external-writer', [(P, '''def get_deferred_key(type):
    return''', '''def forget_deferred(name):
    _DEFERRED_DISPATCH_BY_NAME.pop(name, None)


def get_deferred_key(type):
    return''')], 'C15.a')
add('C15', 'twin', 'key-format', [(P, "return type.__module__ + '.' + type.__qualname__", "return '{}.{}'.format(type.__module__, type.__qualname__)")])
add('C15', 'twin', 'flags-positional-order', [(P, '''        check_superclasses=True,
        check_deferred=True,
        register_deferred=True
    )

    if trailing_comment:''', '''        register_deferred=True,
        check_deferred=True,
        check_superclasses=True,
    )

    if trailing_comment:''')])

# ----------------------------------------------------------------------------- C19 / C20
add('C20', 'breaker', 'check-then-pop-reintroduced', [(P, '''        deferred_dispatch = _DEFERRED_DISPATCH_BY_NAME.get(deferred_key)
        if deferred_dispatch is not None:
            if register_deferred:
                # Register before removing, so that another thread printing
                # the same type at the same time finds the printer in at
                # least one of the two registries at every moment.
                register_pretty(type)(deferred_dispatch)
                _DEFERRED_DISPATCH_BY_NAME.pop(deferred_key, None)
            return True''', '''        if deferred_key in _DEFERRED_DISPATCH_BY_NAME:
            if register_deferred:
                deferred_dispatch = _DEFERRED_DISPATCH_BY_NAME.pop(
                    deferred_key
                )
                register_pretty(type)(deferred_dispatch)
            return True''')], 'C20.a')
add('C20', 'breaker', 'retract-before-publish', [(P, '''                    register_pretty(supertype)(deferred_dispatch)
                    _DEFERRED_DISPATCH_BY_NAME.pop(deferred_key, None)''', '''                    _DEFERRED_DISPATCH_BY_NAME.pop(deferred_key, None)
                    register_pretty(supertype)(deferred_dispatch)''')], 'C20.a2')
add('C20', 'breaker', 'pop-without-default', [(P, '''                register_pretty(type)(deferred_dispatch)
                _DEFERRED_DISPATCH_BY_NAME.pop(deferred_key, None)''', '''                register_pretty(type)(deferred_dispatch)
                _DEFERRED_DISPATCH_BY_NAME.pop(deferred_key)''')], 'C20.a')
add(('C19', 'C20'), 'breaker', 'doc-cache-by-id', [(P, '''def pretty_python_value(value, ctx):
    comment = None''', '''_DOC_CACHE = {}


def pretty_python_value(value, ctx):
    if id(value) in _DOC_CACHE:
        return _DOC_CACHE[id(value)]
    _DOC_CACHE[id(value)] = None
    comment = None''')])
add(('C19', 'C20'), 'breaker', 'call-counter', [(P, '''def pretty_python_value(value, ctx):
    comment = None''', '''_CALLS = []


def pretty_python_value(value, ctx):
    _CALLS.append(1)
    comment = None''')])
add(('C19', 'C20'), 'breaker', 'shared-line-self-normalising', [(D, "LINE = FlatChoice(HARDLINE, ' ')", "LINE = FlatChoice(HARDLINE, ' ', normalize_on_access=True)")])
add(('C19', 'C20'), 'breaker', 'flatchoice-normalises-in-place', [(D, '''        if self.normalize_on_access:
            return self

        return FlatChoice(
            self._when_broken,
            self._when_flat,
            normalize_on_access=True
        )''', '''        self.normalize_on_access = True
        return self''')])
add('C19', 'breaker', 'sort-by-id-again', [(P, 'return str(type(self.value))', 'return (str(type(self.value)), id(self.value))')], 'C19.c')
add('C19', 'breaker', 'counter-printer-mutates', [(S, '''        args=(dict(counter.most_common()), ),''', '''        args=(dict(counter.most_common()) if not counter.clear() else {}, ),''')], 'C19.b')
add('C19', 'breaker', 'dict-printer-pops', [(P, '''    for k in take(ctx.max_seq_len, sorted_keys):
        v = d[k]
''', '''    for k in take(ctx.max_seq_len, list(sorted_keys)):
        v = d.pop(k)
        d[k] = v
''')], 'C19.b')
add('C19', 'breaker', 'deque-printer-rotates', [(S, '''    kwargs = []
    if value.maxlen is not None:''', '''    kwargs = []
    value.reverse()
    if value.maxlen is not None:''')], 'C19.b')
add('C19', 'breaker', 'terminal-width-in-pipeline', [(P, '''    if depth is None:
        depth = float('inf')
''', '''    if depth is None:
        depth = float('inf')
    if width is None:
        import shutil
        width = shutil.get_terminal_size().columns
''')], 'C19.c')
add('C19', 'breaker', 'defaultdict-key-insert', [(P, '''    for k in take(ctx.max_seq_len, sorted_keys):
        v = d[k]
''', '''    for k in take(ctx.max_seq_len, sorted_keys):
        v = d[k]
        first = d[0]
''')])
add(('C19', 'C20'), 'twin', 'cache-rename-local', [(P, '''    cls = type(value)
    if cls not in _cnamedtuple_fieldnames_by_class:''', '''    cls = type(value)
    known = _cnamedtuple_fieldnames_by_class
    if cls not in _cnamedtuple_fieldnames_by_class:''')])

# ----------------------------------------------------------------------------- C16
add('C16', 'breaker', 'pop-unguarded-again', [(C, '''                if isinstance(sdoc.value, Token):
                    try:
                        colorstack.pop()
                    except IndexError:
                        continue

                    if colorstack:
                        stream.write(str(colorstack[-1]))
                    else:
                        stream.write(str(colorful.reset))''', '''                try:
                    colorstack.pop()
                except IndexError:
                    continue

                if colorstack:
                    stream.write(str(colorstack[-1]))
                else:
                    stream.write(str(colorful.reset))''')], 'C16.b')
add('C16', 'breaker', 'token-missing-from-table', [(C, '    Token.STRING_AFFIX: token.String.Affix,\n', '')], 'C16.a')
add('C16', 'breaker', 'new-token-without-style', [('prettyprinter/syntax.py', '    COMMENT_SINGLE = 14\n', '    COMMENT_SINGLE = 14\n    NAME_CLASS = 15\n'), (P, '''def identifier(s):
    return annotate(Token.NAME_FUNCTION, s)''', '''def identifier(s):
    return annotate(Token.NAME_CLASS, s)''')], 'C16.a')
add('C16', 'breaker', 'underline-again', [(C, 'c &= colorful.underlined', 'c &= colorful.underline')], 'C16.e')
add('C16', 'breaker', 'bg-only-accessor-again', [(C, "accessor += '_on_prettyprinterCurrBg' if accessor else 'on_prettyprinterCurrBg'", "accessor += '_on_prettyprinterCurrBg'")], 'C16.e')
add('C16', 'breaker', 'palette-name-mismatch', [(C, "accessor = 'prettyprinterCurrFg'", "accessor = 'prettyprinterFg'")], 'C16.e')
# on balanced push/pop input (everything a document lays out to) the stack is empty at the end and the last pop has
# already written reset: removing the final guard changes nothing the property speaks about -> a twin
add('C16', 'twin', 'no-final-reset-on-balanced-input', [(C, '''    if colorstack:
        stream.write(str(colorful.reset))
''', '')])
add('C16', 'breaker', 'style-not-from-reset', [(C, '    c = colorful.reset\n', '    c = colorful.bold\n')], 'C16.d')
add('C16', 'breaker', 'pop-writes-reset-always', [(C, '''                    if colorstack:
                        stream.write(str(colorstack[-1]))
                    else:
                        stream.write(str(colorful.reset))''', '''                    stream.write(str(colorful.reset))''')], 'C16.b')
add('C16', 'breaker', 'colored-renderer-strips', [(C, 'sdoc_line[last_text_sdoc_idx] = last_text_sdoc.rstrip()', 'sdoc_line[last_text_sdoc_idx] = last_text_sdoc.strip()')], 'C16.f')
add('C16', 'breaker', 'colored-renderer-text-upper', [(C, '''            if isinstance(sdoc, str):
                stream.write(sdoc)''', '''            if isinstance(sdoc, str):
                stream.write(sdoc.expandtabs())''')], 'C16.f')
add('C16', 'breaker', 'push-writes-nothing', [(C, '''                    colorstack.append(color)
                    stream.write(str(color))''', '''                    colorstack.append(color)''')], 'C16.b')
add('C16', 'breaker', 'comment-annotation-plain-string', [(P, "    return annotate(CommentAnnotation(comment_text), doc)", "    return annotate(('comment', comment_text), doc)")], 'C16.a')
add('C16', 'breaker', 'style-cache-keyed-by-colours-only', [(C, '''def styleattrs_to_colorful(attrs):
    c = colorful.reset''', '''_style_cache = {}


def styleattrs_to_colorful(attrs):
    return _style_cache.setdefault((attrs['color'], attrs['bgcolor']), _styleattrs_to_colorful(attrs))


def _styleattrs_to_colorful(attrs):
    c = colorful.reset''')], 'C16.b')
add('C16', 'breaker', 'colour-cache-global-across-styles', [(C, '''    color_cache = {}

    colorstack = []''', '''    color_cache = _GLOBAL_COLOR_CACHE

    colorstack = []'''), (C, '''def colored_render_to_stream(''', '''_GLOBAL_COLOR_CACHE = {}


def colored_render_to_stream(''')], 'C16.b')
add('C16', 'breaker', 'stack-reset-per-line', [(C, '''    colorstack = []

    sdoc_lines = as_lines(evald)

    for sdoc_line in sdoc_lines:''', '''    sdoc_lines = as_lines(evald)

    for sdoc_line in sdoc_lines:
        colorstack = []''')], 'C16.b')
add('C16', 'breaker', 'fg-and-bg-swapped', [(C, "colorful.update_palette({'prettyprinterCurrFg': attrs['color']})", "colorful.update_palette({'prettyprinterCurrFg': attrs['bgcolor']})")], 'C16.d')
add('C16', 'breaker', 'italic-dropped', [(C, '''    if attrs['italic']:
        c &= colorful.italic
''', '')], 'C16.d')
add('C16', 'breaker', 'rstrip-only-when-last-item-is-text', [(C, '''        if last_text_sdoc_idx != -1:
            last_text_sdoc = sdoc_line[last_text_sdoc_idx]
            sdoc_line[last_text_sdoc_idx] = last_text_sdoc.rstrip()''', '''        if last_text_sdoc_idx == len(sdoc_line) - 1:
            last_text_sdoc = sdoc_line[last_text_sdoc_idx]
            sdoc_line[last_text_sdoc_idx] = last_text_sdoc.rstrip()''')], 'C16.f')
add('C16', 'breaker', 'pop-restores-bottom-of-stack', [(C, 'stream.write(str(colorstack[-1]))', 'stream.write(str(colorstack[0]))')], 'C16.b')
add('C16', 'twin', 'pop-emptiness-test-instead-of-try', [(C, '''                    try:
                        colorstack.pop()
                    except IndexError:
                        continue

                    if colorstack:
                        stream.write(str(colorstack[-1]))
                    else:
                        stream.write(str(colorful.reset))''', '''                    if not colorstack:
                        continue
                    colorstack.pop()
                    restored = colorstack[-1] if colorstack else colorful.reset
                    stream.write(str(restored))''')])
add('C16', 'twin', 'reset-written-separately-before-style', [(C, '''                    colorstack.append(color)
                    stream.write(str(color))''', '''                    colorstack.append(color)
                    stream.write(str(colorful.reset))
                    stream.write(str(color))''')])
add('C16', 'twin', 'style-cache-keyed-by-all-attributes', [(C, '''def styleattrs_to_colorful(attrs):
    c = colorful.reset''', '''_style_cache = {}


def styleattrs_to_colorful(attrs):
    key = (attrs['color'], attrs['bgcolor'], attrs['bold'], attrs['italic'], attrs['underline'])
    if key not in _style_cache:
        _style_cache[key] = _styleattrs_to_colorful(attrs)
    return _style_cache[key]


def _styleattrs_to_colorful(attrs):
    c = colorful.reset''')])
add('C16', 'twin', 'accessor-through-fstrings-and-constants', [(C, '''        accessor = ''
        if attrs['color']:
            colorful.update_palette({'prettyprinterCurrFg': attrs['color']})
            accessor = 'prettyprinterCurrFg'
        if attrs['bgcolor']:
            colorful.update_palette({'prettyprinterCurrBg': attrs['bgcolor']})
            # colorful's style names are '<fg>_on_<bg>' or, without a
            # foreground color, 'on_<bg>'.
            accessor += '_on_prettyprinterCurrBg' if accessor else 'on_prettyprinterCurrBg'
        c &= getattr(colorful, accessor)''', '''        fg_name, bg_name = 'ppFg', 'ppBg'
        parts = []
        if attrs['color']:
            colorful.update_palette({fg_name: attrs['color']})
            parts.append(fg_name)
        if attrs['bgcolor']:
            colorful.update_palette({bg_name: attrs['bgcolor']})
            parts.append(f'on_{bg_name}')
        c &= getattr(colorful, '_'.join(parts))''')])
add('C16', 'twin', 'pop-guard-early-continue', [(C, '''                if isinstance(sdoc.value, Token):
                    try:
                        colorstack.pop()
                    except IndexError:
                        continue

                    if colorstack:
                        stream.write(str(colorstack[-1]))
                    else:
                        stream.write(str(colorful.reset))''', '''                if not isinstance(sdoc.value, Token):
                    continue
                try:
                    colorstack.pop()
                except IndexError:
                    continue

                if colorstack:
                    stream.write(str(colorstack[-1]))
                else:
                    stream.write(str(colorful.reset))''')])

# ----------------------------------------------------------------------------- C10
add('C10', 'breaker', 'take-plus-one', [(P, 'for el in take(ctx.max_seq_len, value)', 'for el in take(ctx.max_seq_len + 1, value)')], 'C10')
add('C10', 'breaker', 'count-off-by-one', [(P, '''            len(value) - ctx.max_seq_len
        )''', '''            len(value) - ctx.max_seq_len + 1
        )''')], 'C10.b')
add('C10', 'breaker', 'dict-count-from-pairs', [(P, 'count_truncated = len(d) - ctx.max_seq_len', 'count_truncated = len(d) - ctx.max_seq_len - 1')], 'C10.b')
add('C10', 'breaker', 'none-not-normalised', [(P, '''    if max_seq_len is None:
        # No truncation: no sequence is longer than this.
        max_seq_len = sys.maxsize
''', '')], 'C10.c')
add('C10', 'breaker', 'none-to-float-inf', [(P, '        max_seq_len = sys.maxsize\n', "        max_seq_len = float('inf')\n")], 'C10.c')
add('C10', 'breaker', 'dict-loop-untruncated', [(P, 'for k in take(ctx.max_seq_len, sorted_keys):', 'for k in sorted_keys:')], 'C10')
add('C10', 'breaker', 'take-args-swapped', [(U, 'return islice(iterable, n)', 'return islice(iterable, n, None)')], 'C10.b')
add('C10', 'breaker', 'notice-ge', [(P, '''    is_native_type = constructor in (tuple, list, set)
    if len(value) > ctx.max_seq_len:''', '''    is_native_type = constructor in (tuple, list, set)
    if len(value) >= ctx.max_seq_len:''')], 'C10')
add('C10', 'breaker', 'nested-resets-limit', [(P, '''    def nested_call(self):
        return self._replace(depth_left=self.depth_left - 1)''', '''    def nested_call(self):
        return self._replace(depth_left=self.depth_left - 1, max_seq_len=1000)''')], 'C10.d')
add('C10', 'breaker', 'truncated-keys-from-other-order', [(P, '''        sorted(d.keys(), key=_AlwaysSortable)
        if ctx.sort_dict_keys
        else d.keys()
    )''', '''        sorted(d.keys(), key=_AlwaysSortable)
        if ctx.sort_dict_keys
        else list(d.keys())[1:]
    )''')], 'C10.b')
add('C10', 'breaker', 'notice-dropped-when-user-comment', [(P, '''        trailing_comment = (
            truncation_comment + '. ' + trailing_comment
            if trailing_comment
            else truncation_comment
        )

    dangle = False''', '''        trailing_comment = (
            trailing_comment
            if trailing_comment
            else truncation_comment
        )

    dangle = False''')], 'C10.d')
add('C10', 'twin', 'lt-orientation', [(P, '''    is_native_type = constructor in (tuple, list, set)
    if len(value) > ctx.max_seq_len:''', '''    is_native_type = constructor in (tuple, list, set)
    if ctx.max_seq_len < len(value):''')])
add('C10', 'twin', 'inline-count', [(P, '''        count_truncated = len(d) - ctx.max_seq_len
        truncation_comment = '...and {} more elements'.format(
            count_truncated
        )''', '''        truncation_comment = '...and {} more elements'.format(len(d) - ctx.max_seq_len)''')])
add('C10', 'twin', 'islice-explicit-start', [(U, 'return islice(iterable, n)', 'return islice(iterable, 0, n)')])

# ----------------------------------------------------------------------------- C11
add('C11', 'breaker', 'decrement-by-two', [(P, 'return self._replace(depth_left=self.depth_left - 1)', 'return self._replace(depth_left=self.depth_left - 2)')], 'C11.b')
add('C11', 'breaker', 'elements-with-parent-ctx', [(P, '''            pretty_python_value(
                el,
                ctx=(
                    ctx
                    .nested_call()
                    .use_multiline_strategy(MULTILINE_STRATEGY_HANG)
                )
            )
            for el in take''', '''            pretty_python_value(
                el,
                ctx=(
                    ctx
                    .use_multiline_strategy(MULTILINE_STRATEGY_HANG)
                )
            )
            for el in take''')], 'C11.b')
add('C11', 'breaker', 'dict-value-double-nested', [(P, '''        vdoc = pretty_python_value(
            v,
            ctx=(
                ctx
                .nested_call()
                .use_multiline_strategy(MULTILINE_STRATEGY_INDENTED)
            ),
        )''', '''        vdoc = pretty_python_value(
            v,
            ctx=(
                ctx
                .nested_call()
                .nested_call()
                .use_multiline_strategy(MULTILINE_STRATEGY_INDENTED)
            ),
        )''')], 'C11.b')
add('C11', 'breaker', 'dict-depth-test-removed', [(P, '''    is_native_type = constructor is dict
    if ctx.depth_left == 0:
        literal = concat([LBRACE, ELLIPSIS, RBRACE])

        if is_native_type:
            return literal

        return build_fncall(
            ctx,
            general_identifier(constructor),
            argdocs=(literal, ),
            hug_sole_arg=True
        )
''', '''    is_native_type = constructor is dict
''')], 'C11.c')
add('C11', 'breaker', 'call-alt-depth-lt', [(P, '''    if ctx.depth_left <= 0:
        return concat([fndoc, LPAREN, ELLIPSIS, RPAREN])''', '''    if ctx.depth_left < 0:
        return concat([fndoc, LPAREN, ELLIPSIS, RPAREN])''')], 'C11')
add('C11', 'breaker', 'depth-used-as-width', [(P, '''    MAX_PRACTICAL_RIBBON_WIDTH = 150
''', '''    MAX_PRACTICAL_RIBBON_WIDTH = 150 if ctx.depth_left > 2 else 100
''')], 'C11.a')
add('C11', 'breaker', 'none-depth-to-zero', [(P, "        depth = float('inf')\n", "        depth = 0\n")], 'C11.a')
add('C11', 'breaker', 'placeholder-without-ellipsis', [(P, '''    if ctx.depth_left == 0:
        if isinstance(value, (list, tuple)):
            literal = concat([left, ELLIPSIS, right])''', '''    if ctx.depth_left == 0:
        if isinstance(value, (list, tuple)):
            literal = concat([left, right])''')], 'C11.c')
add('C11', 'breaker', 'kwargs-not-nested', [(P, '''            (kwarg, pretty_python_value(v, nested_ctx))
            for kwarg, v in kwargitems''', '''            (kwarg, pretty_python_value(v, ctx))
            for kwarg, v in kwargitems''')], 'C11.b')
add('C11', 'breaker', 'str-depth-test-after', [(P, '''    if ctx.depth_left == 0:
        return pretty_call_alt(ctx, constructor, args=(..., ))

    multiline_strategy = ctx.multiline_strategy''', '''    multiline_strategy = ctx.multiline_strategy''')], 'C11.c')
add('C11', 'twin', 'depth-test-le', [(P, '''    is_native_type = constructor is dict
    if ctx.depth_left == 0:''', '''    is_native_type = constructor is dict
    if ctx.depth_left <= 0:''')])
add('C11', 'twin', 'nested-ctx-temp', [(P, '''        vdoc = pretty_python_value(
            v,
            ctx=(
                ctx
                .nested_call()
                .use_multiline_strategy(MULTILINE_STRATEGY_INDENTED)
            ),
        )''', '''        value_ctx = ctx.nested_call().use_multiline_strategy(MULTILINE_STRATEGY_INDENTED)
        vdoc = pretty_python_value(v, ctx=value_ctx)''')])

# ----------------------------------------------------------------------------- C12
add('C12', 'breaker', 'list-elements-printed-twice', [(P, '''    if trailing_comment:
        els = chain(els, [commentdoc(trailing_comment)])
        dangle = False
''', '''    if trailing_comment:
        els = chain(els, [commentdoc(trailing_comment)])
        dangle = False
    elif len(value) == 1:
        sole_doc = pretty_python_value(sole_value, ctx=ctx.nested_call())
''')], 'C12.a')
add('C12', 'breaker', 'flatchoice-eager-normalize', [(D, '''        return FlatChoice(
            self._when_broken,
            self._when_flat,
            normalize_on_access=True
        )''', '''        return FlatChoice(
            normalize_doc(self._when_broken),
            normalize_doc(self._when_flat),
            normalize_on_access=True
        )''')], 'C12.a')
add('C12', 'breaker', 'concat-normalises-twice', [(D, '''        for doc in self.docs:
            doc = normalize_doc(doc)
            if isinstance(doc, Concat):
                normalized_docs.extend(doc.docs)''', '''        for doc in self.docs:
            doc = normalize_doc(doc)
            if isinstance(doc, Concat):
                normalized_docs.extend(normalize_doc(doc).docs)''')], 'C12.a')
add('C12', 'breaker', 'accessor-renormalises', [(D, '''        if self.normalize_on_access and not self._broken_normalized:
            self._when_broken = normalize_doc(self._when_broken)
            self._broken_normalized = True''', '''        if self.normalize_on_access:
            self._when_broken = normalize_doc(self._when_broken)''')], 'C12.a')
add('C12', 'breaker', 'width-floor-removed', [(P, '''        each_line_max_str_len = max(
            each_line_ends_on_col - each_line_starts_on_col - 2,
            # If we're printing the string inside a highly nested data
            # structure, we may naturally run out of available width.
            # In these cases, we need to give some space for printing
            # such that we don't get stuck in an infinite loop when
            # str_to_lines is called.
            8 + len('""')
        )''', '''        each_line_max_str_len = each_line_ends_on_col - each_line_starts_on_col - 2''')], 'C12.c')
add('C12', 'breaker', 'for-over-cycle', [(P, '''        for idx, tup in enumerate(zip(alternating_words_ws, cycle([False, True]))):''', '''        for idx, tup in enumerate(zip(cycle(alternating_words_ws), cycle([False, True]))):''')], 'C12.b')
add('C12', 'breaker', 'unwrap-loop-no-progress', [(P, '''        elif isinstance(value, _TrailingCommentedValue):
            trailing_comment = value.comment
            value = value.value''', '''        elif isinstance(value, _TrailingCommentedValue):
            trailing_comment = value.comment''')], 'C12.b')
add('C12', 'breaker', 'splitter-no-progress-branch', [(P, '''        else:
            curr_line_parts.append(next_part)
            next_part = None
            next_is_whitespace = None

    if curr_line_parts:''', '''        else:
            curr_line_parts.append(next_part)

    if curr_line_parts:''')], 'C12.b')
add('C12', 'breaker', 'shortcut-depends-on-indent', [(P, '''        len(docs)  # each element must take at least one character
    )''', '''        len(docs) * ctx.indent  # each element must take at least one character
    )''')], 'C12.d')
add('C12', 'twin', 'floor-as-constant', [(P, "            8 + len('\"\"')\n        )", "            10\n        )")])

# ----------------------------------------------------------------------------- C07
add('C07', 'breaker', 'timezone-private-attrs', [(S, '''    offset = tz.utcoffset(None)
    name = tz.tzname(None)''', '''    offset = tz._offset
    name = tz._name''')], 'C07.a')
add('C07', 'breaker', 'deque-private-maxlen', [(S, "        kwargs.append(('maxlen', value.maxlen))", "        kwargs.append(('maxlen', value._maxlen))")], 'C07')
add('C07', 'breaker', 'datetime-forgets-fold', [(S, '''    # Doesn't exist before Python 3.6
    if getattr(dt, 'fold', None):
        kwargs.append(('fold', 1))
''', '')], 'C07.b')
add('C07', 'breaker', 'time-forgets-tzinfo', [(S, '''    additional_kws = []
    if value.tzinfo is not None:
        additional_kws.append(('tzinfo', value.tzinfo))
''', '''    additional_kws = []
''')], 'C07.b')
add('C07', 'breaker', 'deque-forgets-maxlen', [(S, '''    kwargs = []
    if value.maxlen is not None:
        kwargs.append(('maxlen', value.maxlen))
''', '''    kwargs = []
''')], 'C07.b')
add('C07', 'breaker', 'defaultdict-forgets-factory', [(S, 'args=(d.default_factory, dict(d))', 'args=(None, dict(d))')], 'C07.b')
add('C07', 'breaker', 'time-crosswired-fold', [(S, "additional_kws.append(('fold', value.fold))", "additional_kws.append(('fold', value.microsecond))")], 'C07.c')
add('C07', 'breaker', 'date-args-order', [(S, 'args=(value.year, value.month, value.day)', 'args=(value.year, value.day, value.month)')], 'C07.c')
add('C07', 'breaker', 'counter-prints-dict', [(S, '''    return pretty_call_alt(
        ctx,
        type(counter),
        args=(dict(counter.most_common()), ),
    )''', '''    return pretty_call_alt(
        ctx,
        dict,
        args=(dict(counter.most_common()), ),
    )''')], 'C07.d')
add('C07', 'breaker', 'new-assert-in-printer', [(S, '''def pretty_date(value, ctx):
    return''', '''def pretty_date(value, ctx):
    assert value.year >= 1900
    return''')], 'C07.e')
add('C07', 'breaker', 'blank-comment-line-index-again', [(P, '''        if not alternating_words_ws:
            # A blank line in the comment text.
            commentlines.append('#')
            continue

''', '')], 'C07.e')
add('C07', 'breaker', 'struct-seq-no-fallback', [(P, '''            try:
                return pretty_cnamedtuple(
                    value,
                    ctx,
                    trailing_comment=trailing_comment
                )
            except Exception:
                pass  # render as a normal tuple''', '''            return pretty_cnamedtuple(
                value,
                ctx,
                trailing_comment=trailing_comment
            )''')], 'C07')
add('C07', 'breaker', 'timedelta-forgets-microseconds', [(S, '    microseconds = pos_delta.microseconds\n', '    microseconds = 0\n')], 'C07.b')
add('C07', 'twin', 'timezone-getinitargs', [(S, '''    offset = tz.utcoffset(None)
    name = tz.tzname(None)
    if name == timezone(offset).tzname(None):
        # The name is the one generated from the offset.
        return pretty_call_alt(ctx, timezone, args=(offset, ))
    return pretty_call_alt(ctx, timezone, args=(offset, name))''', '''    offset = tz.utcoffset(None)
    zone_name = tz.tzname(None)
    default_name = timezone(offset).tzname(None)
    if zone_name == default_name:
        return pretty_call_alt(ctx, timezone, args=(offset, ))
    return pretty_call_alt(ctx, timezone, args=(offset, zone_name))''')])

# ----------------------------------------------------------------------------- C09
add('C09', 'breaker', 'dangling-comma-after-comment-again', [(P, '''    if dangle and not comma_before_last_comment:
        parts.append(COMMA)''', '''    if dangle:
        parts.append(COMMA)'''), (P, 'needs_comma = not last or comma_before_last_comment', 'needs_comma = not last')], 'C09.c')
add('C09', 'breaker', 'flat-comment-no-hardline', [(P, '''                '  ',
                commentdoc(comment_str),
                HARDLINE if not last else NIL
            ])''', '''                '  ',
                commentdoc(comment_str),
                LINE if not last else NIL
            ])''')], 'C09.c')
add('C09', 'twin', 'fncall-comment-then-line-equivalent', [(P, 'part = concat([part, HARDLINE if has_comment else LINE])', 'part = concat([part, LINE])')])
add('C09', 'breaker', 'dict-trailing-comment-no-break', [(P, '''    has_comment = bool(trailing_comment)

    sorted_keys = (''', '''    has_comment = False

    sorted_keys = (''')], 'C09.c')
add('C09', 'breaker', 'dict-value-comment-flat-comma-lost', [(P, '''                    when_flat=concat([
                        vdoc,
                        NIL if last else COMMA,
                        '  ',
                        commentdoc(vcomment),''', '''                    when_flat=concat([
                        vdoc,
                        NIL,
                        '  ',
                        commentdoc(vcomment),''')], 'C09.e')
add('C09', 'breaker', 'broken-variant-drops-element', [(P, '''            broken_version = concat([
                commentdoc(comment_str),
                HARDLINE,
                doc,
                COMMA if needs_comma else NIL,''', '''            broken_version = concat([
                commentdoc(comment_str),
                HARDLINE,
                COMMA if needs_comma else NIL,''')], 'C09.e')
add('C09', 'breaker', 'comment-text-into-doc', [(P, '''                    when_flat=concat([
                        part,
                        '  ',
                        commentdoc(comment_str)
                    ]),''', '''                    when_flat=concat([
                        part,
                        '  # ',
                        comment_str
                    ]),''')], 'C09.a')
add('C09', 'breaker', 'wrapped-comment-line-no-hash', [(P, '''                        concat([
                            HARDLINE,
                            '# ',
                        ])''', '''                        concat([
                            HARDLINE,
                            '  ',
                        ])''')], 'C09.b')
add('C09', 'breaker', 'comment-line-without-hash', [(P, '''            concat([
                '# ',
                prefix,
                fill(alternating_words_ws)
            ])''', '''            concat([
                prefix,
                fill(alternating_words_ws)
            ])''')], 'C09.b')
add('C09', 'breaker', 'top-level-comment-same-line-after', [(P, '''                when_broken=concat([
                    commentdoc(doc.annotation.value),
                    HARDLINE,
                    doc
                ])''', '''                when_broken=concat([
                    commentdoc(doc.annotation.value),
                    ' ',
                    doc
                ])''')], 'C09.c')
add('C09', 'breaker', 'sequence-drops-trailing-comment', [(P, '''    if trailing_comment:
        els = chain(els, [commentdoc(trailing_comment)])
        dangle = False
''', '''    if trailing_comment:
        dangle = False
''')], 'C09.f')
add('C09', 'twin', 'comma-ifexp-reordered', [(P, 'COMMA if needs_comma else NIL,', 'NIL if not needs_comma else COMMA,', 0)])
add('C09', 'twin', 'fncall-part-temp', [(P, '''        part = concat([doc, NIL if last else COMMA])
''', '''        separator = COMMA if not last else NIL
        part = concat([doc, separator])
''')])

# ----------------------------------------------------------------------------- C08
add('C08', 'breaker', 'one-piece-bare-literal-again', [(P, '''            # there are no pieces at all): print the single literal.
            if is_native_type:
                return flat_version
            return build_fncall(ctx, constructor, argdocs=[flat_version])''', '''            # there are no pieces at all): print the single literal.
            return flat_version''')], 'C08.b')
add('C08', 'breaker', 'nativeness-isinstance-seq', [(P, 'is_native_type = constructor in (tuple, list, set)', 'is_native_type = isinstance(value, (tuple, list, set))')], 'C08')
add('C08', 'breaker', 'nativeness-isinstance-dict', [(P, 'is_native_type = constructor is dict', 'is_native_type = isinstance(d, dict)')], 'C08')
add('C08', 'breaker', 'int-repr-value-again', [(P, 'doc = annotate(Token.NUMBER_INT, _builtin_repr(int, value))', 'doc = annotate(Token.NUMBER_INT, repr(value))')], 'C08.c')
add('C08', 'breaker', 'float-str-value', [(P, 'doc = annotate(Token.NUMBER_FLOAT, _builtin_repr(float, value))', 'doc = annotate(Token.NUMBER_FLOAT, str(value))')], 'C08.c')
add('C08', 'breaker', 'escape-repr-again', [(P, '''    escaped_with_quotes = _builtin_repr(
        bytes if isinstance(s, bytes) else str,
        s
    )''', '''    escaped_with_quotes = repr(s)''')], 'C08.c')
add('C08', 'breaker', 'empty-subclass-list-literal', [(P, '''            if is_native_type:
                return concat([left, right])
            return pretty_call_alt(ctx, constructor)''', '''            return concat([left, right])''')], 'C08.b')
add('C08', 'breaker', 'dict-subclass-depth-literal', [(P, '''        literal = concat([LBRACE, ELLIPSIS, RBRACE])

        if is_native_type:
            return literal
''', '''        literal = concat([LBRACE, ELLIPSIS, RBRACE])
        return literal
''')], 'C08.b')
add('C08', 'breaker', 'hang-strategy-loses-wrapper', [(P, '''        if not is_native_type:
            multiline_strategy = MULTILINE_STRATEGY_PLAIN
''', '')], 'C08.b')
add('C08', 'breaker', 'wrapper-names-base-class', [(P, '''    if is_native_type:
        return literal

    return build_fncall(
        ctx,
        general_identifier(constructor),
        argdocs=(literal, ),
        hug_sole_arg=True
    )


@register_pretty(frozenset)''', '''    if is_native_type:
        return literal

    return build_fncall(
        ctx,
        general_identifier(constructor.__mro__[1]),
        argdocs=(literal, ),
        hug_sole_arg=True
    )


@register_pretty(frozenset)''')], 'C08.b')
add('C08', 'breaker', 'qualname-to-name', [(P, 'module, qualname = s.__module__, s.__qualname__', 'module, qualname = s.__module__, s.__name__')], 'C08.d')
add('C08', 'breaker', 'frozenset-uses-base', [(P, '''    constructor = type(value)
    if value:
        return pretty_call_alt(ctx, constructor, args=(list(value), ))
    return pretty_call_alt(ctx, constructor)''', '''    constructor = frozenset
    if value:
        return pretty_call_alt(ctx, constructor, args=(list(value), ))
    return pretty_call_alt(ctx, constructor)''')], 'C08')
add('C08', 'twin', 'nativeness-is-chain', [(P, 'is_native_type = constructor in (str, bytes)', 'is_native_type = constructor is str or constructor is bytes')])
add('C08', 'twin', 'base-repr-direct', [(P, 'doc = annotate(Token.NUMBER_INT, _builtin_repr(int, value))', 'doc = annotate(Token.NUMBER_INT, int.__repr__(value))')])

# ----------------------------------------------------------------------------- C01
add('C01', 'breaker', 'one-tuple-no-dangle', [(P, '''        if len(value) == 1:
            dangle = True''', '''        if len(value) == 1:
            dangle = False''')], 'C01.b')
add('C01', 'breaker', 'dangle-for-lists-too', [(P, '''    if isinstance(value, list):
        left, right = LBRACKET, RBRACKET
    elif''', '''    if isinstance(value, list):
        left, right = LBRACKET, RBRACKET
        dangle = len(value) == 1
    elif''')], 'C01.b')
add('C01', 'breaker', 'dangle-ignored-by-builder', [(P, '''    if dangle and not comma_before_last_comment:
        parts.append(COMMA)''', '''    if dangle and not comma_before_last_comment and len(docs) > 1:
        parts.append(COMMA)''')], 'C01.b')
add('C01', 'breaker', 'empty-set-braces', [(P, '''        else:
            # E.g. set() or SubclassOfSet()
            return pretty_call_alt(ctx, constructor)''', '''        else:
            # E.g. set() or SubclassOfSet()
            if is_native_type:
                return concat([left, right])
            return pretty_call_alt(ctx, constructor)''')], 'C01.c')
add('C01', 'breaker', 'tuple-brackets-swapped', [(P, '''    elif isinstance(value, tuple):
        left, right = LPAREN, RPAREN''', '''    elif isinstance(value, tuple):
        left, right = LBRACKET, RBRACKET''')], 'C01.a')
add('C01', 'breaker', 'inf-through-repr', [(P, '''    if value == INF_FLOAT:
        return pretty_call_alt(ctx, constructor, args=('inf', ))
    elif value == NEG_INF_FLOAT:''', '''    if value == NEG_INF_FLOAT:''')], 'C01.d')
add('C01', 'breaker', 'nan-test-dropped', [(P, '''    elif math.isnan(value):
        return pretty_call_alt(ctx, constructor, args=('nan', ))
''', '')], 'C01.d')
add('C01', 'breaker', 'neg-inf-prints-inf', [(P, "return pretty_call_alt(ctx, constructor, args=('-inf', ))", "return pretty_call_alt(ctx, constructor, args=('inf', ))")], 'C01.d')
add('C01', 'breaker', 'keys-reversed', [(P, '''        if ctx.sort_dict_keys
        else d.keys()
    )''', '''        if ctx.sort_dict_keys
        else reversed(list(d.keys()))
    )''')], 'C01.e')
add('C01', 'breaker', 'sorted-reverse', [(P, 'sorted(d.keys(), key=_AlwaysSortable)', 'sorted(d.keys(), key=_AlwaysSortable, reverse=True)')], 'C01.e')
add('C01', 'breaker', 'bool-inverted', [(P, "doc = annotate(Token.KEYWORD_CONSTANT, 'True' if value else 'False')", "doc = annotate(Token.KEYWORD_CONSTANT, 'False' if value else 'True')")], 'C01.f')
add('C01', 'breaker', 'dict-colon-missing-for-last', [(P, '''                concat([
                    kdoc,
                    concat([COLON, ' ']),
                    vdoc,
                    NIL if last else COMMA,
                    NIL if last else LINE,
                ]),''', '''                concat([
                    kdoc,
                    concat([COLON if not last else NIL, ' ']),
                    vdoc,
                    NIL if last else COMMA,
                    NIL if last else LINE,
                ]),''')], 'C01.a')
add('C01', 'breaker', 'bool-registered-as-int', [(P, '''@register_pretty(bool)
def pretty_bool(value, ctx):''', '''def pretty_bool(value, ctx):''')], 'C01.g')
add('C01', 'breaker', 'native-int-wrapped', [(P, '''    doc = annotate(Token.NUMBER_INT, _builtin_repr(int, value))
    if constructor is int:
        return doc
''', '''    doc = annotate(Token.NUMBER_INT, _builtin_repr(int, value))
''')], 'C01.c')
add('C01', 'twin', 'left-right-dict-table', [(P, '''    if isinstance(value, list):
        left, right = LBRACKET, RBRACKET
    elif isinstance(value, tuple):
        left, right = LPAREN, RPAREN
        if len(value) == 1:
            dangle = True
    elif isinstance(value, set):
        left, right = LBRACE, RBRACE''', '''    if isinstance(value, list):
        left = LBRACKET
        right = RBRACKET
    elif isinstance(value, tuple):
        left = LPAREN
        right = RPAREN
        dangle = len(value) == 1
    elif isinstance(value, set):
        left = LBRACE
        right = RBRACE''')])
add('C13', 'breaker', 'fast-path-includes-tuple', [(P, '''def _run_pretty(pretty_fn, value, ctx, trailing_comment=None):
    if ctx.is_visited(value):''', '''_ACYCLIC_TYPES = (int, float, str, bytes, tuple)


def _run_pretty(pretty_fn, value, ctx, trailing_comment=None):
    if type(value) in _ACYCLIC_TYPES:
        return _run_pretty_visited(pretty_fn, value, ctx, trailing_comment)
    if ctx.is_visited(value):''')], 'C13.a')
add(('C13', 'C14'), 'twin', 'fast-path-leaf-types-only', [(P, '''def _run_pretty(pretty_fn, value, ctx, trailing_comment=None):
    if ctx.is_visited(value):''', '''_ACYCLIC_TYPES = (int, float, str, bytes)


def _run_pretty(pretty_fn, value, ctx, trailing_comment=None):
    if type(value) in _ACYCLIC_TYPES:
        return _run_pretty_visited(pretty_fn, value, ctx, trailing_comment)
    if ctx.is_visited(value):''')])

# ----------------------------------------------------------------------------- C17
DC = 'prettyprinter/extras/dataclasses.py'
AT = 'prettyprinter/extras/attrs.py'
add('C17', 'breaker', 'kwargs-before-args', [(P, 'allarg_docs = [*argdocs, *kwargdocs]', 'allarg_docs = [*kwargdocs, *argdocs]')], 'C17.a')
add('C17', 'breaker', 'kwargs-sorted', [(P, '''    kwargitems = (
        kwargs.items()
        if isinstance(kwargs, (OrderedDict, dict))
        else kwargs
    )''', '''    kwargitems = sorted(
        kwargs.items()
        if isinstance(kwargs, (OrderedDict, dict))
        else kwargs
    )''')], 'C17.b')
add('C17', 'breaker', 'args-reversed', [(P, '''            pretty_python_value(arg, nested_ctx)
            for arg in args''', '''            pretty_python_value(arg, nested_ctx)
            for arg in reversed(args)''')], 'C17.b')
add('C17', 'breaker', 'last-arg-comma-kept', [(P, 'part = concat([doc, NIL if last else COMMA])', 'part = concat([doc, COMMA])')], 'C17.a')
add('C17', 'breaker', 'kwarg-equals-missing-when-commented', [(P, '''            comment_doc(
                concat([
                    keyword_arg(binding),
                    ASSIGN_OP,
                    doc.doc
                ]),''', '''            comment_doc(
                concat([
                    keyword_arg(binding),
                    doc.doc
                ]),''')], 'C17.a')
add('C17', 'breaker', 'hug-drops-paren', [(P, '''            concat([
                fndoc,
                LPAREN,
                argdocs[0],
                RPAREN
            ])''', '''            concat([
                fndoc,
                LPAREN,
                argdocs[0],
            ])''')], 'C17.a')
add('C17', 'breaker', 'pretty-call-drops-kwargs', [(P, '    return pretty_call_alt(ctx, fn, args, kwargs)', '    return pretty_call_alt(ctx, fn, args)')], 'C17.b')
add('C17', 'breaker', 'dataclass-ignores-repr-flag', [(DC, '''        if not field_def.repr:
            continue
''', '')], 'C17.c')
add('C17', 'breaker', 'dataclass-eq-for-ne', [(DC, '''            if field_def.default != getattr(value, field_def.name):
                display_attr = True''', '''            if field_def.default == getattr(value, field_def.name):
                display_attr = True''')], 'C17.c')
add('C17', 'breaker', 'dataclass-name-value-crosswired', [(DC, 'kwargs.append((field_def.name, getattr(value, field_def.name)))', 'kwargs.append((field_def.name, getattr(value, field_defs[0].name)))')], 'C17.c')
add('C17', 'breaker', 'attrs-shows-defaults', [(AT, '''        else:
            if attribute.default != getattr(value, attribute.name):
                display_attr = True''', '''        else:
            display_attr = True''')], 'C17.c')
add('C17', 'breaker', 'attrs-reversed-order', [(AT, '    for attribute in attributes:', '    for attribute in reversed(attributes):')], 'C17.c')
add('C17', 'breaker', 'dataclass-prints-base-class', [(DC, 'return pretty_call(ctx, cls, **OrderedDict(kwargs))', 'return pretty_call(ctx, cls.__mro__[0].__base__, **OrderedDict(kwargs))')], 'C17.c')
add('C17', 'twin', 'allargs-chain', [(P, 'allarg_docs = [*argdocs, *kwargdocs]', 'allarg_docs = list(chain(argdocs, kwargdocs))')])
add('C17', 'twin', 'dataclass-flag-inline', [(DC, '''        if display_attr:
            kwargs.append((field_def.name, getattr(value, field_def.name)))''', '''        if not display_attr:
            continue
        kwargs.append((field_def.name, getattr(value, field_def.name)))''')])

# ----------------------------------------------------------------------------- C02
add('C02', 'breaker', 'empty-string-vanishes-again', [(P, '        if len(lines) <= 1:', '        if len(lines) == 1:')], 'C02.a')
add('C02', 'breaker', 'splitter-drops-piece', [(P, '''            else:
                yield empty.join(chain(curr_line_parts, [next_part]))
                curr_line_parts = []''', '''            else:
                yield empty.join(curr_line_parts)
                curr_line_parts = []''')], 'C02.b')
add('C02', 'breaker', 'splitter-reset-without-yield', [(P, '''            if not next_is_whitespace and curr_line_parts:
                yield empty.join(curr_line_parts)
                curr_line_parts = []
                curr_line_len = 0
                # Leave next_part and next_is_whitespace as is
                # to be processed on next iteration
                continue''', '''            if not next_is_whitespace and curr_line_parts:
                curr_line_parts = []
                curr_line_len = 0
                # Leave next_part and next_is_whitespace as is
                # to be processed on next iteration
                continue''')], 'C02.b')
add('C02', 'breaker', 'splitter-duplicates-piece', [(P, '''        else:
            curr_line_parts.append(next_part)
            next_part = None
            next_is_whitespace = None

    if curr_line_parts:''', '''        else:
            curr_line_parts.append(next_part)
            curr_line_parts.append(next_part)
            next_part = None
            next_is_whitespace = None

    if curr_line_parts:''')], 'C02.b')
add('C02', 'breaker', 'splitter-loses-tail', [(P, '''    if curr_line_parts:
        yield empty.join(curr_line_parts)


@register_pretty(str)''', '''    if len(curr_line_parts) > 1:
        yield empty.join(curr_line_parts)


@register_pretty(str)''')], 'C02.b')
add('C02', 'breaker', 'splitter-right-half-dropped', [(P, '''            if next_line_part:
                next_part = next_line_part
            else:
                next_part = None''', '''            next_part = None''')], 'C02.b')
add('C02', 'breaker', 'pattern-non-capturing', [(P, "WHITESPACE_PATTERN_TEXT = re.compile(r'(\\s+)')", "WHITESPACE_PATTERN_TEXT = re.compile(r'(?:\\s+)')")], 'C02.b')
add('C02', 'breaker', 'pattern-can-be-empty', [(P, "NONWORD_PATTERN_TEXT = re.compile(r'(\\W+)')", "NONWORD_PATTERN_TEXT = re.compile(r'(\\W*)')")], 'C02.b')
add('C02', 'breaker', 'yield-possibly-empty', [(P, '''    if len(s) <= max_len:
        if s:
            yield s
        return''', '''    if len(s) <= max_len:
        yield s
        return''')], 'C02.c')
add('C02', 'breaker', 'continuation-quote-auto', [(P, '''                pretty_single_line_str(
                    line,
                    indent=prettyprinter_indent,
                    use_quote=use_quote,
                )''', '''                pretty_single_line_str(
                    line,
                    indent=prettyprinter_indent,
                )''')], 'C02.d')
add('C02', 'breaker', 'bytes-prefix-only-when-short', [(P, '''        annotate(Token.STRING_AFFIX, 'b')
        if isinstance(s, bytes)
        else \'\'''', '''        annotate(Token.STRING_AFFIX, 'b')
        if isinstance(s, bytes) and use_quote is None
        else \'\'''')], 'C02.g')
add('C02', 'breaker', 'escape-one-sided', [(P, '''            .replace("\\\\'", SINGLE_QUOTE_TEXT)
            .replace(DOUBLE_QUOTE_TEXT, '\\\\"')''', '''            .replace(DOUBLE_QUOTE_TEXT, '\\\\"')''')], 'C02.e')
add('C02', 'breaker', 'escape-replace-count', [(P, '''            .replace('\\\\"', DOUBLE_QUOTE_TEXT)
            .replace(SINGLE_QUOTE_TEXT, "\\\\'")''', '''            .replace('\\\\"', DOUBLE_QUOTE_TEXT)
            .replace(SINGLE_QUOTE_TEXT, "\\\\'", 1)''')], 'C02.e')
add('C02', 'breaker', 'closing-quote-missing', [(P, '''            concat([
                use_quote,
                escapes_highlighted,
                use_quote
            ])''', '''            concat([
                use_quote,
                escapes_highlighted,
            ])''')], 'C02.g')
add('C02', 'breaker', 'width-floor-zero', [(P, "            8 + len('\"\"')\n        )", "            0\n        )")], 'C02.f')
add('C02', 'breaker', 'pieces-reversed', [(P, '''                for line in lines
            )
        )''', '''                for line in reversed(lines)
            )
        )''')], 'C02.d')
add('C02', 'breaker', 'quote-strategy-prefers-escapes', [(P, '''    if not contains_single:
        return SINGLE_QUOTE_TEXT

    if not contains_double:
        return DOUBLE_QUOTE_TEXT''', '''    if not contains_single:
        return DOUBLE_QUOTE_TEXT

    if not contains_double:
        return SINGLE_QUOTE_TEXT''')], 'C02.e')
add('C02', 'twin', 'tail-flush-len', [(P, '''    if curr_line_parts:
        yield empty.join(curr_line_parts)


@register_pretty(str)''', '''    if len(curr_line_parts) > 0:
        yield empty.join(curr_line_parts)


@register_pretty(str)''')])

# ----------------------------------------------------------------------------- C03
add('C03', 'breaker', 'nest-indent-plus-one', [(P, '''        nest(ctx.indent, concat([SOFTLINE, child])),''', '''        nest(ctx.indent + 1, concat([SOFTLINE, child])),''')], 'C03.c')
add('C03', 'breaker', 'nest-literal-four', [(P, '''            nest(
                ctx.indent,
                concat([
                    SOFTLINE,
                    concat(parts),
                ])
            ),''', '''            nest(
                4,
                concat([
                    SOFTLINE,
                    concat(parts),
                ])
            ),''')], 'C03.c')
add('C03', 'breaker', 'width-leaks-into-text', [(P, '''        if singleline_str_chars <= available_width:
            if is_native_type:
                return flat_version''', '''        if singleline_str_chars <= available_width:
            if is_native_type:
                return concat([flat_version, ' ' * (page_width % 2)])''')], 'C03.a')
add('C03', 'breaker', 'broken-variant-drops-comma', [(P, '''                                COMMA if not last else NIL,
                            ])
                        ),
                        HARDLINE if not last else NIL''', '''                                NIL,
                            ])
                        ),
                        HARDLINE if not last else NIL''')], 'C03.b')
add('C03', 'breaker', 'flat-variant-different-element', [(P, '''            flat_version = concat([
                doc,
                COMMA if needs_comma else NIL,''', '''            flat_version = concat([
                doc.doc,
                doc.doc,
                COMMA if needs_comma else NIL,''')], 'C03.b')
add('C03', 'breaker', 'hang-strategy-drops-piece', [(P, '''        elif multiline_strategy == MULTILINE_STRATEGY_HANG:
            return always_break(
                nest(
                    prettyprinter_indent,
                    concat(parts)
                )
            )''', '''        elif multiline_strategy == MULTILINE_STRATEGY_HANG:
            parts = list(parts)
            return always_break(
                nest(
                    prettyprinter_indent,
                    concat(parts[:-3] + parts[-1:])
                )
            )''')], 'C03.b')
add('C03', 'breaker', 'indented-strategy-adds-parens', [(P, "                left_paren, right_paren = '', ''", "                left_paren, right_paren = LPAREN, ''")], 'C03.b')
add('C03', 'breaker', 'printer-uses-align', [(P, '''def bracket(ctx, left, child, right):
    return concat([
        left,
        nest(ctx.indent, concat([SOFTLINE, child])),''', '''def bracket(ctx, left, child, right):
    from .doc import align
    return concat([
        left,
        align(concat([SOFTLINE, child])),''')], 'C03.c')
add('C06', 'breaker', 'indent-decides-forced-break', [(P, '''    if len(pairs) > 2 or has_comment:
        doc = always_break(doc)''', '''    if len(pairs) > 2 or has_comment or ctx.indent > 6:
        doc = always_break(doc)''')])
add('C03', 'twin', 'indent-alias', [(P, '''def bracket(ctx, left, child, right):
    return concat([
        left,
        nest(ctx.indent, concat([SOFTLINE, child])),''', '''def bracket(ctx, left, child, right):
    step = ctx.indent
    return concat([
        left,
        nest(step, concat([SOFTLINE, child])),''')])

# ----------------------------------------------------------------------------- added wiring rules
add('C02', 'breaker', 'highlight-drops-escapes', [(P, '''        if not part:
            continue

        docs.append(''', '''        if not part or (is_escaped and len(part) > 4):
            continue

        docs.append(''')], 'C02.h')
add('C02', 'breaker', 'escape-pattern-noncapturing', [(P, "    r'''((?:\\\\[\\\\abfnrtv\"'])|'''", "    r'''(?:(?:\\\\[\\\\abfnrtv\"'])|'''")], 'C02.h')
add(('C02', 'C09'), 'breaker', 'intersperse-drops-last', [(U, '''    for y in it:
        yield x
        yield y''', '''    prev = None
    for y in it:
        if prev is not None:
            yield x
            yield prev
        prev = y''')])
add('C09', 'breaker', 'unwrap-swaps-comment-kinds', [(P, '''        if isinstance(value, _CommentedValue):
            comment = value.comment
            value = value.value''', '''        if isinstance(value, _CommentedValue):
            trailing_comment = value.comment
            value = value.value''')], 'C09.g')
add('C09', 'breaker', 'comment-not-attached', [(P, '''    if comment:
        return comment_doc(
            doc,
            comment
        )
    return doc''', '''    return doc''')], 'C09')
add('C13', 'breaker', 'marker-without-id', [(P, '''    return '<Recursion on {} with id={}>'.format(
        type(value).__name__,
        id(value)
    )''', '''    return '<Recursion on {}>'.format(
        type(value).__name__
    )''')], 'C13.f')
# both renderers share rfind_idx, so coloured == plain still holds: C04's concern only
add('C04', 'breaker', 'rfind-returns-first', [(U, '''    for i, el in enumerate(reversed(seq)):
        if predicate(el):
            return length - i - 1''', '''    for i, el in enumerate(seq):
        if predicate(el):
            return i''')])
add(('C05', 'C06'), 'breaker', 'smart-uses-fast-predicate', [(L, '''        fitting_predicate=smart_fitting_predicate,''', '''        fitting_predicate=fast_fitting_predicate,''')], 'C0')
add('C07', 'breaker', 'enum-member-without-class', [(P, '''    return concat([
        general_identifier(cls),
        identifier('.{}'.format(attrname))
    ])''', '''    return identifier('{}'.format(attrname))''')], 'C07')

# ----------------------------------------------------------------------------- C07.h
add('C07', 'breaker', 'timedelta-days-split-before-filter', [(S, '''    attrs = [
        ('days', days),''', '''    years, days = divmod(days, 365)
    attrs = [
        ('days', days),''')], 'C07.h')
add('C07', 'breaker', 'timedelta-minutes-from-seconds', [(S, "        ('minutes', minutes),", "        ('minutes', seconds),")], 'C07.h')
add('C07', 'breaker', 'timedelta-sign-lost', [(S, '''    if negative:
        doc = concat([NEG_OP, doc])
''', '')], 'C07.h')
add('C07', 'breaker', 'chainmap-default-test-simplified', [(S, '''        not value.maps or
        len(value.maps) == 1 and
        not value.maps[0]''', '''        not value.maps or
        not value.maps[0]''')], 'C07.h')
add('C07', 'breaker', 'datetime-drops-zero-minute-between', [(S, '''            lambda k__v: k__v[1] == 0,
            dt_kwargs''', '''            lambda k__v: k__v[1] == 0,
            [kv for kv in dt_kwargs if kv[0] != 'minute' or kv[1]]''')], 'C07.h')
add('C07', 'breaker', 'time-fold-always', [(S, '''    if getattr(value, 'fold', 0) != 0:
        additional_kws.append(('fold', value.fold))''', '''    additional_kws.append(('fold', value.fold))''')], 'C07.h')
add('C07', 'breaker', 'deque-maxlen-when-falsy', [(S, '    if value.maxlen is not None:', '    if value.maxlen:')], 'C07.h')
add('C07', 'breaker', 'ordereddict-loses-order', [(S, 'args=(list(d.items()), ))', 'args=(sorted(d.items()), ))')], 'C07.h')
add('C07', 'twin', 'chainmap-test-rewritten', [(S, '''    if (
        not value.maps or
        len(value.maps) == 1 and
        not value.maps[0]
    ):
        return pretty_call_alt(ctx, constructor)''', '''    maps = value.maps
    only_default = len(maps) == 1 and not maps[0]
    if not maps or only_default:
        return pretty_call_alt(ctx, constructor)''')])


# ----------------------------------------------------------------------------- corpora kept as patches
# behaviour-preserving refactorings written by independent agents (selftest/refactors/R*.diff): every property must stay
# silent on each of them; seeded property-breaking changes (seeded/<prop>-<k>/patch.diff): the property must fire
import glob as _glob
import os as _os
from selftest.harness import PatchVariant as _PatchVariant

_HERE = _os.path.dirname(_os.path.abspath(__file__))
ALL_PROPS = tuple('C%02d' % i for i in range(1, 21))
# refactorings that add assert statements whose truth C07.e cannot establish (it discharges assertions implied by the dominating tests,
# unreachable ones and a few trivial forms): C07 answers "undecided" (exit 2) on them - never VIOLATION
_C07_UNDECIDED_OK = {'R27-2', 'R27-3', 'R27-4', 'R27-5', 'R31-3'}
for _p in sorted(_glob.glob(_os.path.join(_HERE, 'refactors', 'R*.diff'))):
    _v = _PatchVariant(ALL_PROPS, 'twin', 'refactor-' + _os.path.basename(_p)[:-5], _p)
    if _os.path.basename(_p)[:-5] in _C07_UNDECIDED_OK:
        _v.undecided_ok = {'C07'}
    VARIANTS.append(_v)
for _p in sorted(_glob.glob(_os.path.join(_os.path.dirname(_HERE), 'seeded', 'C[0-9][0-9]-[0-9]*', 'patch.diff'))):
    _n = _os.path.basename(_os.path.dirname(_p))
    _v = _PatchVariant(_n.split('-')[0], 'breaker', 'seeded-' + _n, _p)
    # one change of the fifth round ends in "undecided" (exit 2, no verdict): the warning text capped by its length (the length of a
    # formatted traceback is unknown to the wrapper model)
    if _n in ('C14-14',):
        _v.accept_exit2 = True
    VARIANTS.append(_v)
# the repairs made to the library, reverted one by one (selftest/regressions/<prop>-<commit>.diff = git diff <commit> <commit>~1):
# "a fixed entry suppresses nothing" - the property must report the defect again if it ever returns.  A reversal that no longer
# applies to the current tree is skipped; one that removes an anchor altogether may end in exit 2 (never in a silent pass).
for _p in sorted(_glob.glob(_os.path.join(_HERE, 'regressions', 'C[0-9][0-9]-*.diff'))):
    _n = _os.path.basename(_p)[:-5]
    _v = _PatchVariant(_n.split('-')[0], 'breaker', 'reverted-fix-' + _n, _p)
    _v.accept_exit2 = True
    VARIANTS.append(_v)

