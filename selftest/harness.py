"""Self-validation harness (DESIGN section 8).

A *variant* is an in-memory overlay of one or more package files (nothing is written to
disk).  ``breaker`` variants falsify one rule instance while the module still parses: the
named property must report a VIOLATION whose rule id matches.  ``twin`` variants are
behaviour-preserving rewrites: the property must stay silent (exit 0, no new violation).
"""
import os
import sys

HERE = os.path.dirname(os.path.abspath(__file__))
sys.path.insert(0, os.path.dirname(HERE))

from engine.loader import Repo, REPO_ROOT  # noqa: E402


class Variant:
    def __init__(self, prop, kind, name, edits, expect_rule=None, note=''):
        self.prop = prop            # property id, or tuple of ids that must all behave
        self.kind = kind            # 'breaker' | 'twin'
        self.name = name
        self.edits = edits          # list of (relpath, old, new[, count])
        self.expect_rule = expect_rule
        self.note = note

    def overlay(self, root=None):
        root = root or REPO_ROOT
        ov = {}
        for e in self.edits:
            rel, old, new = e[0], e[1], e[2]
            cnt = e[3] if len(e) > 3 else 1
            text = ov.get(rel)
            if text is None:
                with open(os.path.join(root, rel), encoding='utf-8') as f:
                    text = f.read()
            if text.count(old) < 1:
                return None     # anchor text of the variant not present in this tree
            if cnt == 0:
                text = text.replace(old, new)
            else:
                text = text.replace(old, new, cnt)
            ov[rel] = text
        return ov


def apply_unified_diff(diff_text, read):
    """{relpath: new text} for a git-style unified diff, or None when a hunk does not match; ``read(relpath)`` gives the
    current text (pure python, nothing touches the disk)"""
    import re
    files = {}
    cur = None
    hunks = []
    for line in diff_text.splitlines():
        if line.startswith('+++ '):
            path = line[4:].strip()
            cur = path[2:] if path.startswith('b/') else path
            files[cur] = []
        elif line.startswith('@@') and cur is not None:
            m = re.match(r'@@ -(\d+)(?:,(\d+))? \+(\d+)(?:,(\d+))? @@', line)
            files[cur].append([int(m.group(1)), []])
        elif cur is not None and files[cur] and (line[:1] in (' ', '+', '-') or line == '') and not line.startswith('--- '):
            files[cur][-1][1].append(line if line else ' ')
    out = {}
    for rel, hs in files.items():
        try:
            src_lines = read(rel).split('\n')
        except OSError:
            return None
        res = []
        pos = 0
        for start, body in hs:
            old = [b[1:] for b in body if b[0] in (' ', '-')]
            new = [b[1:] for b in body if b[0] in (' ', '+')]
            # locate the old block at or after pos (exact position first, then search: fix commits may have shifted it)
            at = None
            cand = start - 1
            if src_lines[cand:cand + len(old)] == old and cand >= pos:
                at = cand
            else:
                for i in range(pos, len(src_lines) - len(old) + 1):
                    if src_lines[i:i + len(old)] == old:
                        at = i
                        break
            if at is None:
                return None
            res.extend(src_lines[pos:at])
            res.extend(new)
            pos = at + len(old)
        res.extend(src_lines[pos:])
        out[rel] = '\n'.join(res)
    return out


class PatchVariant(Variant):
    """a behaviour-preserving patch (twin) or a seeded change (breaker) kept as a unified diff"""

    def __init__(self, prop, kind, name, diff_path, expect_rule=None, note=''):
        Variant.__init__(self, prop, kind, name, [], expect_rule, note)
        self.diff_path = diff_path

    def overlay(self, root=None):
        root = root or REPO_ROOT
        with open(self.diff_path, encoding='utf-8') as f:
            diff = f.read()

        def read(rel):
            with open(os.path.join(root, rel), encoding='utf-8') as fh:
                return fh.read()
        return apply_unified_diff(diff, read)


def run_variant(v, tier='quick'):
    """returns (status, detail): status in ok / MISSED / FALSE-ALARM / UNDECIDED / SKIPPED"""
    from run import run_property
    ov = v.overlay()
    if ov is None:
        return 'SKIPPED', 'variant anchor text not present in the current tree'
    import ast
    for rel, text in ov.items():
        try:
            ast.parse(text)
        except SyntaxError as e:
            return 'SKIPPED', 'variant does not parse: %s' % e
    props = v.prop if isinstance(v.prop, (tuple, list)) else (v.prop,)
    outs = []
    for p in props:
        rep = run_property(p, tier, 0, None, ov, quiet=True, write=False)
        from engine.report import load_known
        known = {(k['rule'], k['construct']) for k in load_known() if k.get('property') == p}
        new = [i for i in rep.violations() if (i.rule, i.construct) not in known]
        if v.kind == 'breaker':
            if rep.exit_code == 2 and not new and getattr(v, 'accept_exit2', False):
                outs.append(('ok', '%s refuses the tree (exit 2: %s)' % (p, '; '.join(rep.lines)[:120])))
            elif rep.exit_code == 2 and not new:
                outs.append(('UNDECIDED', '%s: %s' % (p, '; '.join(rep.lines)[:300])))
            elif not new:
                outs.append(('MISSED', '%s stayed silent' % p))
            elif v.expect_rule and not any(i.rule.startswith(v.expect_rule) for i in new):
                outs.append(('ok', '%s fired %s (expected %s)' % (
                    p, sorted({i.rule for i in new}), v.expect_rule)))
            else:
                outs.append(('ok', '%s fired %s' % (p, sorted({i.rule for i in new}))))
        else:
            if new:
                outs.append(('FALSE-ALARM', '%s fired %s' % (
                    p, [(i.rule, i.construct, i.detail[:120]) for i in new][:3])))
            elif rep.exit_code == 2 and p in getattr(v, 'undecided_ok', ()):
                outs.append(('ok', '%s undecided (accepted for this twin: %s)' % (p, '; '.join(rep.lines)[:100])))
            elif rep.exit_code == 2:
                outs.append(('UNDECIDED', '%s: %s' % (p, '; '.join(rep.lines)[:300])))
            else:
                outs.append(('ok', '%s silent' % p))
    worst = 'ok'
    for s, _ in outs:
        if s != 'ok':
            worst = s
    return worst, ' | '.join(d for _, d in outs)


def _one(args):
    name, props = args
    import copy
    from selftest.variants import VARIANTS
    v = copy.copy([x for x in VARIANTS if x.name == name][0])
    v.prop = props
    st, d = run_variant(v)
    return name, v.kind, props, st, d


def main():
    """harness.py [props...] [-k substr] [-j N]: runs the variants (restricted to the named properties) in N processes"""
    import argparse
    import multiprocessing as mp
    from selftest.variants import VARIANTS
    ap = argparse.ArgumentParser()
    ap.add_argument('props', nargs='*')
    ap.add_argument('-k', default=None)
    ap.add_argument('-j', type=int, default=12)
    args = ap.parse_args()
    want = {p.upper() for p in args.props}
    jobs = []
    for v in VARIANTS:
        props = tuple(v.prop) if isinstance(v.prop, (tuple, list)) else (v.prop,)
        if want:
            props = tuple(p for p in props if p in want)
        if not props:
            continue
        if args.k and args.k not in v.name:
            continue
        jobs.append((v.name, props))
    if args.j > 1 and len(jobs) > 1:
        with mp.get_context('fork').Pool(args.j) as pool:
            results = pool.map(_one, jobs, chunksize=1)
    else:
        results = [_one(j) for j in jobs]
    bad = 0
    for name, kind, props, st, d in results:
        if st not in ('ok', 'SKIPPED'):
            bad += 1
        print('%-11s %-7s %-8s %-45s %s' % (st, kind, '/'.join(props) if len(props) < 4 else '%d props' % len(props), name, d[:400]))
    print('%d variants not ok' % bad)
    sys.exit(1 if bad else 0)


if __name__ == '__main__':
    main()
