"""Differential self-test of the abstract interpreter (engine/interp.py) in its concrete mode.

Each snippet is a small pure function over constants.  It is executed by CPython (this validates the *tool*, not the repository:
nothing of /repo is run) and interpreted by the engine from its source; the two results must be equal.  An ``Undecided`` answer is
allowed (the engine declines what it does not model); a *different* answer is a soundness bug of the engine and fails the test.

usage: interp_selftest.py [-v]"""
import os
import sys
import textwrap

HERE = os.path.dirname(os.path.abspath(__file__))
sys.path.insert(0, os.path.dirname(HERE))

from engine.loader import Repo  # noqa: E402
from engine.interp import (Interp, Const, ListV, TupleV, DictV, SetV, IterV, Undecided, Raised, PathLimit)  # noqa: E402

SNIPPETS = r'''
def t_or_returns_operand():
    a = None or {}
    b = [] or [1]
    c = 0 or ''
    d = 5 or 7
    return (a, b, c, d)

def t_and_returns_operand():
    return ([] and 5, 3 and [4], 0 and 1, 'x' and 'y', None and 2)

def t_not_chain():
    return (not [], not [0], not '', not 'a', not 0, not None)

def t_chained_compare():
    x = 5
    return (1 < x < 10, 1 < x < 3, 1 <= 1 < 2, 3 > 2 > 1 > 0, 1 == 1 != 2)

def t_ifexp_nested():
    out = []
    for i in range(5):
        out.append('a' if i < 2 else 'b' if i < 4 else 'c')
    return out

def t_closure_counter():
    def make():
        count = [0]
        def inc():
            count[0] += 1
            return count[0]
        return inc
    f = make()
    return (f(), f(), f())

def t_nonlocal():
    def outer():
        x = 1
        def inner():
            nonlocal x
            x += 10
            return x
        inner()
        return x
    return outer()

def t_default_args():
    def f(a, b=2, *, c=3):
        return (a, b, c)
    return (f(1), f(1, 5), f(1, c=9), f(a=4, b=5, c=6))

def t_star_args():
    def f(*args, **kwargs):
        return (args, sorted(kwargs.items()))
    return f(1, 2, *[3, 4], x=1, **{'y': 2})

def t_unpacking():
    a, (b, c), *d = 1, (2, 3), 4, 5
    first, *rest = [1, 2, 3]
    *init, last = 'abc'
    return (a, b, c, d, first, rest, init, last)

def t_listcomp_filter():
    return [x * x for x in range(10) if x % 2 if x > 2]

def t_nested_comp():
    return [(i, j) for i in range(3) for j in range(i)]

def t_dictcomp_setcomp():
    d = {k: v for k, v in zip('abc', range(3)) if v}
    s = {x % 3 for x in range(10)}
    return (d, sorted(s))

def t_genexp_any_all():
    return (any(x > 3 for x in [1, 2, 5]), all(x > 0 for x in [1, 2]), any(x for x in []), all(x for x in []), sum(x for x in range(4)))

def t_try_finally_return():
    log = []
    def f():
        try:
            log.append('try')
            return 1
        finally:
            log.append('finally')
    r = f()
    return (r, log)

def t_try_except_else():
    log = []
    for v in (0, 1):
        try:
            1 // v
        except ZeroDivisionError:
            log.append('zde')
        else:
            log.append('else')
        finally:
            log.append('fin')
    return log

def t_except_hierarchy():
    out = []
    for exc in (KeyError, IndexError, ValueError, TypeError):
        try:
            raise exc('x')
        except LookupError:
            out.append('lookup')
        except (ValueError, TypeError):
            out.append('other')
    return out

def t_reraise_nested():
    out = []
    try:
        try:
            raise ValueError('inner')
        except ValueError:
            out.append('caught')
            raise
    except ValueError:
        out.append('outer')
    return out

def t_while_break_else():
    out = []
    i = 0
    while i < 5:
        i += 1
        if i == 3:
            continue
        if i == 5:
            break
        out.append(i)
    else:
        out.append('else')
    for j in range(2):
        pass
    else:
        out.append('for-else')
    return out

def t_string_methods():
    s = '  Hello, World  '
    return (s.strip(), s.lstrip(), s.rstrip(), s.lower(), s.upper(), s.strip().split(', '), 'a,b,,c'.split(','), '-'.join(['a', 'b']),
            s.find('o'), s.rfind('o'), s.count('l'), s.replace('l', 'L', 1), 'abc'.startswith(('x', 'a')), 'abc'.endswith('bc'),
            'x'.center(5, '*'), 'ab'.ljust(4) + '|', '%s-%d' % ('a', 3), '{}-{!r}'.format('a', 'b'), f'{1+1}:{"q"!r}:{3.14159:.2f}')

def t_slicing():
    s = 'abcdefgh'
    l = list(range(10))
    return (s[1:3], s[-3:], s[::-1], s[::2], l[2:8:3], l[-1], l[:-7], l[8:20], s[5:2], l[::-2])

def t_list_methods():
    l = [3, 1, 2]
    l.append(5)
    l.extend([7, 6])
    l.insert(0, 9)
    p = l.pop()
    q = l.pop(0)
    l.sort()
    l.reverse()
    m = l.copy()
    m.remove(5)
    return (l, p, q, m, l.index(3), l.count(1), len(l))

def t_sorted_variants():
    data = ['bb', 'a', 'ccc', 'dd']
    return (sorted(data), sorted(data, key=len), sorted(data, key=len, reverse=True), sorted(data, reverse=True), min(data), max(data, key=len),
            sorted([(2, 'b'), (1, 'z'), (2, 'a')]), list(reversed(data)))

def t_dict_methods():
    d = {'a': 1}
    d['b'] = 2
    x = d.setdefault('c', 3)
    y = d.setdefault('a', 9)
    g = d.get('zz')
    g2 = d.get('zz', 5)
    p = d.pop('b')
    d.update({'k': 1}, z=2)
    d.update([('q', 7)])
    return (list(d.items()), x, y, g, g2, p, list(d), 'a' in d, 'b' in d, len(d), list(d.values()))

def t_dict_order_and_del():
    d = dict(b=1, a=2)
    d['c'] = 3
    del d['b']
    d['b'] = 4
    return list(d.keys())

def t_set_ops():
    a, b = {1, 2, 3}, {2, 3, 4}
    return (sorted(a | b), sorted(a & b), sorted(a - b), sorted(a ^ b), a <= b, {1} <= a, a.issubset(b), 2 in a, sorted(a.union([9])), len(a))

def t_tuple_ops():
    t = (1, 2) + (3,)
    return (t, t * 2, t[1:], len(t), 2 in t, t.index(3), t.count(1), tuple([1, 2]), (1,) < (1, 2))

def t_int_float_ops():
    return (7 // 2, -7 // 2, 7 % 3, -7 % 3, divmod(7, 2), divmod(-7, 2), 2 ** 10, 7 / 2, round(2.5), round(3.5), round(2.675, 2), abs(-3), int('12'), int(3.9), float('1.5'),
            min(3, 1, 2), max([1, 5, 2]), 1 if 0.0 else 2, 10 >> 1, 1 << 4, 6 & 3, 6 | 3, 6 ^ 3)

def t_bool_int():
    return (True + True, int(True), bool(0), bool('0'), True == 1, isinstance(True, int), type(True) is bool, type(1) is int, True is True)

def t_isinstance_types():
    vals = [1, 1.0, 'a', b'a', None, [], (), {}, set(), True]
    return [(isinstance(v, int), isinstance(v, (str, bytes)), isinstance(v, (list, tuple)), type(v).__name__) for v in vals]

def t_enumerate_zip():
    return (list(enumerate('ab', 1)), list(zip([1, 2, 3], 'ab')), list(zip()), dict(zip('ab', [1, 2])), list(map(str, [1, 2])), list(filter(None, [0, 1, '', 'a'])))

def t_iter_next():
    it = iter([1, 2, 3])
    a = next(it)
    rest = list(it)
    b = next(it, 'done')
    try:
        next(iter([]))
        c = 'no'
    except StopIteration:
        c = 'stop'
    return (a, rest, b, c)

def t_generator_function():
    def gen(n):
        for i in range(n):
            if i == 2:
                continue
            yield i
        yield 'end'
    def chain2(a, b):
        yield from a
        yield from b
    return (list(gen(4)), list(chain2([1], gen(1))))

def t_lambda_and_key():
    fs = [lambda x, i=i: x + i for i in range(3)]
    return ([f(10) for f in fs], (lambda *a: a)(1, 2), sorted([3, 1, 2], key=lambda v: -v))

class _P_cb:
    kind = 'p'
    def __init__(self, x):
        self.x = x
    def double(self):
        return self.x * 2
    @property
    def prop(self):
        return self.x + 1
    @classmethod
    def make(cls, v):
        return cls(v * 10)
    @staticmethod
    def helper(v):
        return v - 1

def t_class_basic():
    p = _P_cb(3)
    q = _P_cb.make(2)
    return (p.x, p.double(), p.prop, q.x, _P_cb.helper(5), p.helper(6), p.kind)

class _A_ci:
    def who(self):
        return '_A_ci'
    def call(self):
        return self.who()
class _B_ci(_A_ci):
    def who(self):
        return '_B_ci'

def t_class_inherit():
    return (_A_ci().call(), _B_ci().call(), isinstance(_B_ci(), _A_ci), isinstance(_A_ci(), _B_ci))

class _C_gh:
    def __init__(self):
        self.a = 1

def t_getattr_hasattr():
    c = _C_gh()
    return (getattr(c, 'a'), getattr(c, 'b', 'dflt'), hasattr(c, 'a'), hasattr(c, 'b'))

class _O_aa:
    pass

def t_augassign_targets():
    d = {'a': 1}
    d['a'] += 5
    l = [1, 2]
    l[0] *= 3
    l += [9]
    s = 'a'
    s += 'b'
    o = _O_aa()
    o.v = 1
    o.v += 2
    return (d, l, s, o.v)

def t_global_rebind():
    return _G_helper()

_G = 1

def _G_helper():
    global _G
    old = _G
    _G = old + 1
    return (old, _G)

def t_str_repr():
    return (repr('a\'b'), repr("q\"r"), str(3), repr(3.0), repr(None), str([1, 'a']), repr((1,)), repr({'k': 1}), repr(b'x\n'), repr('\n\t'), str(True))

def t_bytes_ops():
    b = b'ab\x00c'
    return (b[0], b[1:3], len(b), b + b'd', b.decode('latin-1'), 'é'.encode('utf-8'), bytes([65, 66]), b.find(b'c'), b'a' in b, list(b'ab'))

def t_in_operators():
    return ('a' in 'abc', 'd' not in 'abc', 1 in [1, 2], (1, 2) in [(1, 2)], 'k' in {'k': 1}, None in [None], [] in [[]], 1 in (), '' in 'abc')

def t_is_identity():
    a = []
    b = a
    c = []
    return (a is b, a is c, a == c, None is None, a is not c)

def t_walrus_and_starred_call():
    data = [1, 2, 3, 4]
    out = []
    if (n := len(data)) > 3:
        out.append(n)
    def f(a, b, c, d):
        return a + b + c + d
    out.append(f(*data))
    out.append([*data, *'ab'])
    out.append({**{'a': 1}, 'b': 2, **{'a': 3}})
    return out

class _CM_ws:
    def __init__(self, log):
        self.log = log
    def __enter__(self):
        self.log.append('enter')
        return 5
    def __exit__(self, *a):
        self.log.append('exit')
        return False

def t_with_statement():
    log = []
    with _CM_ws(log) as v:
        log.append(v)
    return log

def t_recursion():
    def fact(n):
        return 1 if n <= 1 else n * fact(n - 1)
    def flat(x):
        out = []
        for e in x:
            if isinstance(e, list):
                out.extend(flat(e))
            else:
                out.append(e)
        return out
    return (fact(6), flat([1, [2, [3, 4]], 5]))

def t_mutable_default():
    def f(x, acc=[]):
        acc.append(x)
        return list(acc)
    return (f(1), f(2), f(3, []))

def t_early_return_in_loop():
    def find(xs, pred):
        for i, x in enumerate(xs):
            if pred(x):
                return i
        return -1
    return (find([1, 2, 3], lambda v: v == 2), find([], lambda v: True), find([1], lambda v: False))

def t_str_iteration_and_join():
    return (''.join(reversed('abc')), ','.join(str(i) for i in range(3)), list('ab'), [c.upper() for c in 'ab'], 'a b  c'.split(), 'a\nb\r\nc'.splitlines(), 'x'.join([]))

def t_nested_data_mutation_aliasing():
    a = [[0] * 2] * 2
    a[0][0] = 1
    b = [[0] * 2 for _ in range(2)]
    b[0][0] = 1
    c = {'k': []}
    d = dict(c)
    d['k'].append(1)
    import copy
    e = copy.copy(c)
    return (a, b, c, d, e)

def t_exception_values():
    try:
        raise ValueError('bad', 3)
    except ValueError as e:
        r = (type(e).__name__, e.args, str(e))
    try:
        {}['k']
    except KeyError as e:
        r2 = (type(e).__name__, e.args)
    try:
        [][1]
    except IndexError as e:
        r3 = type(e).__name__
    try:
        None.x
    except AttributeError:
        r4 = 'attr'
    try:
        1 + 'a'
    except TypeError:
        r5 = 'type'
    return (r, r2, r3, r4, r5)

def t_divmod_and_format():
    return ('{:>5}|{:<5}|{:^5}'.format('a', 'b', 'c'), '{0}{1}{0}'.format('x', 'y'), '{a}-{b}'.format(a=1, b=2), '%05.1f' % 3.14159, '%r' % ('q',), '{:03d}'.format(7), '{:,}'.format(1234567))

def t_cycle_islice():
    from itertools import cycle, islice, chain, dropwhile, takewhile
    return (list(islice(cycle([1, 2]), 5)), list(chain([1], (2, 3))), list(dropwhile(lambda v: v < 2, [1, 2, 1])), list(takewhile(lambda v: v < 2, [1, 2, 1])), list(islice(range(10), 2, 8, 3)))

def t_partial():
    from functools import partial
    def f(a, b, c=0):
        return (a, b, c)
    p = partial(f, 1, c=5)
    return (p(2), p(2, c=7), partial(p, 9)())

class _Acc:
    total = 0
    def __init__(self, start=0):
        self.items = []
        self.start = start
    def add(self, x):
        self.items.append(x)
        return self
    @property
    def size(self):
        return len(self.items) + self.start
    def __repr__(self):
        return '_Acc(%r)' % (self.items,)

class _Sub(_Acc):
    def add(self, x):
        self.items.append(x * 2)
        return self

def t_module_class():
    a = _Acc(1).add(2).add(3)
    b = _Sub().add(2)
    return (a.items, a.size, b.items, b.size, isinstance(b, _Acc), type(b).__name__, _Acc.total)

def t_late_binding():
    fs = []
    for i in range(3):
        fs.append(lambda: i)
    return [f() for f in fs]

def t_closure_over_loop_var_default():
    fs = [(lambda j=j: j * 2) for j in range(3)]
    return [f() for f in fs]

def t_finally_continue_break():
    log = []
    for i in range(4):
        try:
            if i == 1:
                continue
            if i == 3:
                break
            log.append(i)
        finally:
            log.append('f%d' % i)
    return log

def t_generator_return_and_state():
    def g():
        yield 1
        return
        yield 2
    def countdown(n):
        while n:
            yield n
            n -= 1
    return (list(g()), list(countdown(3)), sum(countdown(4)))

def t_zip_star():
    pairs = [(1, 'a'), (2, 'b')]
    nums, letters = zip(*pairs)
    return (nums, letters, list(zip(*[[1, 2], [3, 4]])))

def t_del_and_slices():
    l = list(range(6))
    del l[0]
    del l[1:3]
    l[1:2] = [9, 9]
    m = l[:]
    m.append(0)
    return (l, m, l[::-1], l[-2:])

def t_list_concat_inplace():
    l = [1]
    alias = l
    l += (2, 3)
    m = l + [4]
    l = l + [5]
    return (alias, l, m)

def t_str_partition_etc():
    s = 'key=value=x'
    return (s.partition('='), s.rpartition('='), s.split('=', 1), s.rsplit('=', 1), s.title(), s.isidentifier(), 'a1'.isalnum(), ' '.isspace(), s.zfill(13), s.index('v'))

def t_short_circuit_side_effects():
    log = []
    def t(x):
        log.append(x)
        return x
    r = (t(0) or t(2) or t(3), t(1) and t(0) and t(5), any(t(v) for v in [0, 7, 8]))
    return (r, log)

def t_tuple_compare_sort():
    data = [(2, 'a'), (1, 'b'), (1, 'a'), (2,)]
    return (sorted(data), (1, 2) < (1, 3), (1, 2) == (1, 2), (1,) < (1, 0), max(data), [1, 2] < [1, 3])

def t_dict_iteration_mutating_copy():
    d = {'a': 1, 'b': 2}
    for k in list(d):
        if d[k] == 1:
            del d[k]
        else:
            d[k + 'x'] = 0
    return (list(d.items()), {**d}, dict(d, z=1), sorted(d, key=lambda k: -d[k]))

def t_nested_functions_and_args():
    def outer(a, *rest, key=None, **opts):
        def inner(b):
            return (a, b, rest, key, sorted(opts))
        return inner
    return outer(1, 2, 3, key='k', z=1, y=2)('b')

def t_string_building():
    parts = []
    for i, w in enumerate(['a', 'bb', 'ccc']):
        parts.append('%d:%s' % (i, w.upper()))
    out = ', '.join(parts)
    return (out, len(out), out[::-1][:3], out.replace(':', '='), '{:>6}|'.format('ab'), '[' + ']['.join(map(str, range(3))) + ']')

def t_none_checks():
    vals = [None, 0, '', [], {}, 'x']
    return ([v is None for v in vals], [v if v is not None else 'dflt' for v in vals], [bool(v) for v in vals], [v or 'alt' for v in vals])

def t_try_in_function_returns():
    def f(d, k):
        try:
            return d[k]
        except KeyError:
            return 'missing'
        finally:
            pass
    def g(x):
        try:
            return int(x)
        except (TypeError, ValueError) as e:
            return type(e).__name__
    return (f({'a': 1}, 'a'), f({}, 'a'), g('12'), g('x'), g(None))

def t_min_max_key_default():
    return (min([3, 1, 2]), max('abc'), min([], default='d'), max([(1, 'a'), (1, 'b')]), min(['bb', 'a'], key=len), max(1, 2, 3), min('b', 'a'))

def t_int_str_conversions():
    return (int('  7 '), str(12) + 'a', float('2.50'), int(-2.7), bool([]), list('ab'), tuple([1]), str(None), int(True), '%d' % 3.9, round(7.5), round(-0.5))

def t_augmented_string_in_loop():
    s = ''
    n = 0
    for ch in 'a-b-c':
        if ch == '-':
            n += 1
            continue
        s += ch * n
    return (s, n)

def t_while_with_else_and_state_machine():
    tokens = list('aab,bc,,d')
    out, cur = [], ''
    i = 0
    while i < len(tokens):
        t = tokens[i]
        i += 1
        if t == ',':
            if cur:
                out.append(cur)
            cur = ''
            continue
        cur += t
    else:
        if cur:
            out.append(cur)
    return out

def t_one_shot_iterators():
    g = (x * 2 for x in [1, 2, 3])
    a = list(g)
    b = list(g)
    def gen():
        yield 1
        yield 2
    h = gen()
    c = [*h]
    d = [*h]
    z = zip([1, 2], 'ab')
    e = list(z)
    f = list(z)
    m = map(str, [1, 2])
    first = next(m)
    rest = list(m)
    from itertools import chain
    ch = chain([1], [2])
    i = tuple(ch)
    j = tuple(ch)
    lst = [1, 2]
    k = (list(lst), list(lst))
    return (a, b, c, d, e, f, first, rest, i, j, k)

def t_iterator_truthiness_and_len():
    g = (x for x in [])
    z = zip([], [])
    m = map(str, [])
    out = [bool(g), bool(z), bool(m), bool(iter([])), bool([]), bool(())]
    try:
        len(x for x in [1])
        out.append('len ok')
    except TypeError:
        out.append('no len')
    def f(kw=()):
        return 'has' if kw else 'empty'
    out.append((f(), f([]), f(iter([])), f(zip([], []))))
    return out

from collections import namedtuple
_Pt = namedtuple('_Pt', ['x', 'y'])
_Opt = namedtuple('_Opt', 'a b c', defaults=(2, 3))

def t_namedtuples():
    p = _Pt(1, y=2)
    x, y = p
    q = p._replace(x=9)
    o = _Opt(1)
    try:
        _Pt(1)
        err = 'no'
    except TypeError:
        err = 'TypeError'
    return (p.x, p[1], x + y, tuple(q), q == _Pt(9, 2), isinstance(p, tuple), len(p), list(o), o.c, _Pt._fields, p._asdict() == {'x': 1, 'y': 2},
            [a for a, b in [_Pt(1, 2), _Pt(3, 4)]], err, type(p).__name__, _Pt._make([5, 6]).y, p == (1, 2))

def t_ordereddict_counter():
    from collections import OrderedDict
    od = OrderedDict([('b', 1), ('a', 2)])
    od['c'] = 3
    return (list(od.items()), list(od), od['a'])
def t_islice_batches():
    from itertools import islice
    it = iter(range(10))
    out = []
    while True:
        b = list(islice(it, 4))
        if not b:
            return out
        out.append(b)

def t_islice_batches_list_source():
    from itertools import islice
    src = ['a', 'b', 'c', 'd', 'e']
    it = iter(src)
    first = list(islice(it, 2))
    second = list(islice(it, 2))
    rest = list(it)
    return (first, second, rest, list(islice(src, 2)), list(islice(src, 2)))

def t_stepped_slice_store():
    parts = ['a', '1', 'b', '22', '']
    parts[1::2] = map(int, parts[1::2])
    xs = list(range(6))
    del xs[:2]
    xs[0:1] = [9, 9]
    return (parts, xs)

def t_type_identity():
    return (type(1) is int, type('a') is str, type(1) is str, type(b'') is bytes, type(1.0) in (int, float), type(True) is int)
def t_stringio_buffer():
    from io import StringIO
    buf = StringIO()
    write = buf.write
    n = write('abc')
    write('de')
    first = buf.getvalue()
    pos = buf.tell()
    old = buf
    buf = StringIO()
    write('lost?')
    return (n, first, pos, buf.getvalue(), old.getvalue(), buf is old, bool(buf))
def t_bytes_from_ints_and_translate():
    plain = bytes(b for b in range(0x20, 0x7f) if b not in b'\\\'"')
    return (len(plain), plain[:3], b'abc"d'.translate(None, plain), not b'abc'.translate(None, plain), 'abc'.isprintable(), 'a\nb'.isprintable(), bytes([65, 66]))

def t_take_from_generator_then_rest():
    from itertools import islice, chain
    def gen():
        for i in range(5):
            yield i
    g = gen()
    head = list(islice(g, 2))
    return (head, list(chain(head, g)))

def t_function_identity():
    def f():
        return 1
    table = {int: f}
    g = table[int]
    return (g is f, table.get(int) is f, table.get(str) is f)
def t_sets_of_types():
    ORDERABLE = frozenset([str, bytes, int])
    d = {'a': 1, 'b': 2}
    e = {'a': 1, 2: 2}
    kd = set(map(type, d.keys()))
    ke = set(map(type, e.keys()))
    return (len(kd), len(ke), kd <= ORDERABLE, ke <= ORDERABLE, len(kd) == 1 and kd <= ORDERABLE, set(map(type, [1j, 2j])) <= ORDERABLE, type(1) in ORDERABLE)
def t_chainmap():
    from collections import ChainMap
    base = {'a': 1, 'b': 2}
    cm = ChainMap(base)
    cm = cm.new_child({'b': 20})
    cm = cm.new_child({'c': 3})
    folded = {}
    for layer in cm.maps:
        folded.update(layer)
    right = {}
    for layer in reversed(cm.maps):
        right.update(layer)
    cm['z'] = 9
    return (cm['a'], cm['b'], cm.get('c'), cm.get('q', 0), len(cm.maps), dict(cm) == {'a': 1, 'b': 20, 'c': 3, 'z': 9}, sorted(cm), folded, right, 'z' in cm.maps[0], len(cm), {**cm} == dict(cm))
'''


def to_py(v):
    if isinstance(v, Const):
        return v.v
    if isinstance(v, (ListV, IterV)):
        return [to_py(x) for x in v.items]
    if isinstance(v, TupleV):
        return tuple(to_py(x) for x in v.items)
    if isinstance(v, DictV):
        return {to_py(k): to_py(x) for k, x in v.items}
    if isinstance(v, SetV):
        return {to_py(x) for x in v.items}
    raise Undecided('result %r is not a plain value' % (v,))


def norm(x):
    """OrderedDict / dict / set order-insensitive where Python is; tuples and lists by position"""
    if isinstance(x, dict):
        return ('dict', [(norm(k), norm(v)) for k, v in x.items()])
    if isinstance(x, (set, frozenset)):
        return ('set', sorted(map(repr, x)))
    if isinstance(x, (list, tuple)):
        return (type(x).__name__, [norm(y) for y in x])
    return (type(x).__name__, x)


def main():
    verbose = '-v' in sys.argv
    src = textwrap.dedent(SNIPPETS)
    glob = {}
    exec(compile(src, '<snippets>', 'exec'), glob)
    names = [n for n in glob if n.startswith('t_')]
    repo = Repo(overlay={'prettyprinter/_snip.py': src})
    mod = repo.modules['prettyprinter._snip']
    ok = und = bad = 0
    for name in names:
        glob2 = {}
        exec(compile(src, '<snippets>', 'exec'), glob2)
        want = glob2[name]()
        it = Interp(repo, {}, max_paths=4, max_depth=80)
        it.concrete_context = True
        it.concrete_partial = True
        it.concrete_classes = set(mod.classes)
        it.max_while = 1000
        try:
            prs = it.explore(mod.funcs[name], [], {})
            if len(prs) != 1:
                raise Undecided('%d paths' % len(prs))
            if prs[0].raised is not None:
                got = ('raised', prs[0].raised.what)
            else:
                got = to_py(prs[0].value)
        except (Undecided, PathLimit) as e:
            und += 1
            if verbose:
                print('undecided  %-34s %s' % (name, str(e)[:110]))
            continue
        except Exception as e:       # a crash of the engine is a bug of the engine
            bad += 1
            print('CRASH      %-34s %s: %s' % (name, type(e).__name__, str(e)[:160]))
            continue
        if norm(got) == norm(want):
            ok += 1
            if verbose:
                print('ok         %s' % name)
        else:
            bad += 1
            print('WRONG      %-34s engine %r\n%46s python %r' % (name, got, '', want))
    print('%d snippets: %d agree, %d declined (Undecided), %d WRONG' % (len(names), ok, und, bad))
    sys.exit(1 if bad else 0)


if __name__ == '__main__':
    main()
