"""C09 -- comments are inert and preserved."""
import ast

from engine import docterm as D
from engine import facts
from engine.astutil import src, call_name, dotted, Guards, enclosing_map, names_in
from engine.interp import (Const, Sym, SymStr, ListV, TupleV, ValueV, CtxV, DocV, TypeV, NONE, TRUE, FALSE,
                           Undecided, prov)
from engine.loader import AnalysisError
from . import shape as S

META = {
    'text': 'Decided on interpreted code: (b,d) commentdoc on seventeen small concrete comment texts (one word, several, le'
            'ading / trailing / wide blanks, tabs, several lines, blank lines, whitespace only): in every layout of the ret'
            'urned document, before and after normalisation, with every blank of the fill flat or broken, every line starts'
            ' with "#", shows exactly the words of the text in order, and separate lines stay separate; the empty text is r'
            'ejected and every call site hands over a text known to be non-empty; (g) comment() / trailing_comment() wrappe'
            'rs in every small nesting are peeled off by unwrap_comments into their own slots, a comment is attached to the'
            ' printed document as a comment annotation, a trailing comment reaches the printer; (c,e) abstract interpretati'
            'on of the sequence, call and dict builders over all element patterns up to 3: in every layout a comment is fol'
            'lowed by a line break before any code, and the separators are where the uncommented rendering has them; normal'
            'isation preserves forced breaks (document model); (f) every printer that declares trailing_comment shows it fo'
            'r every kind of input (findings keyed by printer and kind of input); (a) comment text reaches the output only '
            'through the comment builders (def-use taint).',
    'note': 'small-scope abstraction of element lists (0..3) is representative because the loop bodies look at the index on'
            'ly through "last" (checked); trailing comments dropped by six printers/paths are listed known findings',
    'technique': 'static analysis: abstract interpretation (doc-shape domain; concrete small-scope interpretation of commentdoc '
                 'and the wrappers), def-use taint',
}
META['text'] += ' Round 5: the builder scenarios include sequences one longer than every size constant of the builder with a comment on the first / a middle / the last element; comment texts with more words than every size constant of the comment builder.'

TC = 'trailing_comment'


def run(repo, rep):
    rep.explanation = ('R-TAINT comment text (C09.a), comment line shape (C09.b), R-SHAPE comment followed by a line break in '
                       'every layout (C09.c), R-GUARD indexing of comment words (C09.d), equal content/separators (C09.e), '
                       'accepted trailing comment used on every path (C09.f).')
    rep.not_decided = 'word order inside fill (delegated to C04.b); tokenizer-level validity of the output.'
    rep.assumptions = ['element lists of length 0..3 are representative (uniform loop bodies, checked)']
    m = repo.module('prettyprinter')

    terms = builder_terms(repo, rep)

    # ---------------------------------------------------------------- C09.c
    n = 0
    for label, where, pr in terms:
        if pr.raised is not None or pr.value is None or not isinstance(pr.value, DocV):
            continue
        t = pr.value.t
        bad = []
        for i, c, nxt, seq in S.comment_followers(t):
            if nxt is None or nxt is D.HL:
                continue
            bad.append((c, nxt, seq))
        n += 1
        rep.count(1)
        if not bad:
            rep.ok('C09.c', label, where, 'every comment is followed by a line break / end of document', nontrivial=True)
        else:
            c, nxt, seq = bad[0]
            rep.fail('C09.c', label, where,
                     'in scenario [%s] a layout exists in which the comment %s is followed on the same line by %s: "%s" - the text '
                     'after it becomes part of the comment' % (pr.fact_text()[:160], D.show(c), D.show(nxt), S.show_seq(seq)[:300]))
    rep.floor('C09.c', n, 60)
    # the forced break that follows a comment survives normalisation: normalisation preserves what a document denotes (document model)
    from . import docmodel
    rep.floor('C09.c:normalisation', docmodel.run(repo, rep, {'normalisation': 'C09.c'}), 1)

    # ---------------------------------------------------------------- C09.e (and C03.b): flat/broken agreement
    n = 0
    seen = set()
    for label, where, pr in terms:
        if pr.raised is not None or not isinstance(pr.value, DocV):
            continue
        for fc in S.flat_choices(pr.value.t):
            k = fc.key()
            if k in seen:
                continue
            seen.add(k)
            ok, fl, br = S.fc_agreement(fc)
            n += 1
            rep.check(ok, 'C09.e', '%s:flat=broken:%s' % (label.split('[')[0], _fc_label(fc)), where,
                      'flat and broken alternatives carry the same content',
                      'a flat_choice built in scenario %s carries different content when flat %s than when broken %s'
                      % (label, sorted(fl)[:2], sorted(br)[:2]), nontrivial=True)
    rep.floor('C09.e', n, 8)
    # separators: in every layout the content atoms between two elements are exactly one ','
    n2 = 0
    for label, where, pr in terms:
        if pr.raised is not None or not isinstance(pr.value, DocV) or not label.startswith(('sequence_of_docs', 'build_fncall')):
            continue
        for seq in D.all_layouts(pr.value.t):
            sig = [a for a in S.content_sig(seq)]
            subs = [i for i, a in enumerate(sig) if a[0] == 'Sub']
            okp = True
            for a, b in zip(subs, subs[1:]):
                between = sig[a + 1:b]
                commas = [x for x in between if x == ('Text', ',')]
                others = [x for x in between if x[0] == 'Text' and x[1] in ('(', ')', '[', ']', '{', '}', ':')]
                if len(commas) != 1 or others:
                    okp = False
            n2 += 1
            if not okp:
                rep.fail('C09.e', '%s:separators' % label, where,
                         'between two elements the content is not exactly one comma: %s' % (sig,))
                break
        else:
            rep.ok('C09.e', '%s:separators' % label, where, 'exactly one comma between consecutive elements in every layout')
    rep.count(n2)

    _taint(repo, rep)
    _commentdoc_shape(repo, rep)
    _trailing_comment_used(repo, rep)
    _wrapper_wiring(repo, rep)


def _fc_label(fc):
    fl = S.content_sig(D.linearise(fc.flat, 'flat', lambda g: 'flat'))
    return '/'.join('%s' % (a[1] if isinstance(a, tuple) and len(a) > 1 else a,) for a in fl)[:60]


# --------------------------------------------------------------------------------------
def builder_terms(repo, rep):
    """abstract results of the comment-placing builders over all small scenarios:
    list of (label, where, PathResult)"""
    m = repo.module('prettyprinter')
    out = []
    it = S.interp(repo, 'builder')
    ctx = CtxV()
    # uniformity side conditions
    for fname in ('sequence_of_docs', 'build_fncall', 'pretty_dict'):
        f = m.funcs.get(fname)
        if f is None:
            raise AnalysisError('%s vanished' % fname)
        for lp in ast.walk(f.node):
            if isinstance(lp, ast.For):
                ok, why = S.uniform_in_index(f.node, lp)
                if not ok:
                    rep.undecided('C09.c', '%s:uniform-loop' % fname, '%s:%d' % (m.relpath, lp.lineno),
                                  'small-scope abstraction not representative: ' + why)
    # sequence_of_docs
    f = m.funcs['sequence_of_docs']
    where = f.where
    for pat in S.seq_scenarios(S.bound(rep, 3, 4)):
        docs = [S.sub('e%d' % i, c) for i, c in enumerate(pat)]
        for dangle in ((True, False) if len(pat) == 1 else (False,)):
            for tc in (False, True):
                items = list(docs)
                if tc:
                    items.append(DocV(D.Cmt('trailing')))
                lab = 'sequence_of_docs[%s%s%s]' % (''.join('c' if c else 'p' for c in pat) or '-',
                                                     ',dangle' if dangle else '', ',trailing' if tc else '')
                for pr in it.explore(f, [ctx, S.punct('('), ListV(items), S.punct(')')],
                                     {'dangle': Const(dangle and not tc), 'force_break': Const(tc)}):
                    out.append((lab, where, pr))
    # the same builder on sequences longer than every size constant it compares against (and than a fixed small count), with a comment on
    # the first, on a middle and on the last element
    counts, mined = S.scaled_counts(repo, f)
    rep.note('sequence builder: size constants %s; element counts %s' % ({k: v[:1] for k, v in mined.items()} or 'none', counts))
    for nel in counts:
        for at in ((), (0,), (nel // 2,), (nel - 1,), (1, nel - 2)):
            docs = [S.sub('e%d' % i, i in at) for i in range(nel)]
            lab = 'sequence_of_docs[n=%d,commented=%s]' % (nel, list(at))
            for pr in it.explore(f, [ctx, S.punct('('), ListV(docs), S.punct(')')], {'dangle': Const(False), 'force_break': Const(False)}):
                out.append((lab, where, pr))
    # build_fncall
    f = m.funcs['build_fncall']
    where = f.where
    fnd = DocV(D.Ann('name', D.Lit('fn', role='identifier')))
    for na in range(0, S.bound(rep, 3, 4)):
        for nk in range(0, S.bound(rep, 3, 4)):
            if na + nk > S.bound(rep, 3, 4):
                continue
            for bits in range(1 << (na + nk)):
                cm = [bool((bits >> i) & 1) for i in range(na + nk)]
                args = [S.sub('a%d' % i, cm[i]) for i in range(na)]
                kws = [TupleV([Const('k%d' % i), S.sub('v%d' % i, cm[na + i])]) for i in range(nk)]
                for tc in (NONE, SymStr('trailing', nonempty=True)):
                    for hug in ((False, True) if (na == 1 and nk == 0) else (False,)):
                        lab = 'build_fncall[%s|%s%s%s]' % (''.join('c' if c else 'p' for c in cm[:na]) or '-',
                                                           ''.join('c' if c else 'p' for c in cm[na:]) or '-',
                                                           ',trailing' if tc is not NONE else '', ',hug' if hug else '')
                        for pr in it.explore(f, [ctx, fnd], {'argdocs': ListV(args), 'kwargdocs': ListV(kws),
                                                             'hug_sole_arg': Const(hug), 'trailing_comment': tc}):
                            out.append((lab, where, pr))
    # dict printer (its own loops): keys/values possibly commented
    f = None
    for r in facts.registry(repo):
        if r.key == 'dict' and r.fn is not None:
            f = r.fn
    if f is None:
        raise AnalysisError('dict printer not found')
    itd = S.interp(repo, 'builder', {'pretty_str': S.p_pretty_str_as_sub,
                                      'build_fncall': S.p_build_fncall, 'pretty_call_alt': S.p_pretty_call_alt})
    for nkeys in range(0, 3):
        keys = [Sym('k%d' % i) for i in range(nkeys)]
        d = ValueV('d', TypeV('dict'), keys)
        for tc in (NONE, SymStr('trailing', nonempty=True)):
            lab0 = 'pretty_dict[n=%d%s]' % (nkeys, ',trailing' if tc is not NONE else '')
            try:
                prs = itd.explore(f, [d, ctx], {TC: tc} if TC in f.params else {})
            except Undecided as e:
                rep.undecided('C09.c', lab0, f.where, str(e))
                continue
            for pr in prs:
                if pr.assumed('ctx.depth_left-0', True) or pr.assumed("ctx.max_seq_len", True):
                    pass
                out.append(('%s{%s}' % (lab0, _short_facts(pr)), f.where, pr))
    # top level: python_to_sdocs builds doc; interpret up to the layout call
    pts = m.funcs.get('python_to_sdocs')
    if pts is None:
        raise AnalysisError('python_to_sdocs vanished')

    def p_layout(it_, a, k, n):
        return a[0]
    itt = S.interp(repo, 'builder', {'layout_smart': p_layout, 'layout_fast': p_layout})
    params = pts.params
    args = [Sym('value')] + [Sym(p, 'int') for p in params[1:]]
    for pr in itt.explore(pts, args, {}):
        out.append(('python_to_sdocs{%s}' % _short_facts(pr), pts.where, pr))
    rep.analysed['builder_scenarios'] = len(out)
    rep.analysed['interpreter_paths'] = it.paths_run + itd.paths_run + itt.paths_run
    rep._commentdoc_calls = list(getattr(it, 'commentdoc_calls', [])) + list(getattr(itd, 'commentdoc_calls', [])) + \
        list(getattr(itt, 'commentdoc_calls', []))
    return out


def _short_facts(pr):
    keep = []
    for k, v in pr.facts:
        if k.startswith('commented(') or 'trailing' in k or 'depth' in k or 'isinstance' in k:
            keep.append(('' if v else '!') + k.replace('commented', 'c')[:40])
    return ','.join(keep)[:120]


# -------------------------------------------------------------------------------------- C09.a
_REPO = None
_ALIASES = {}
COMMENT_SINKS = {'commentdoc', 'comment_doc', 'comment', 'comment_value', 'CommentAnnotation', 'trailing_comment',
                 '_CommentedValue', '_TrailingCommentedValue'}


def _sinks(repo):
    from engine import roles
    r = roles.roles(repo)
    return COMMENT_SINKS | ({r.get('commented_cls'), r.get('trailing_cls')} - {None})


def _taint(repo, rep):
    global _REPO
    _REPO = repo
    n = 0
    for mod in repo.modules.values():
        if '.extras' in mod.name:
            continue
        for f in mod.funcs.values():
            tainted = set()
            if TC in f.params:
                tainted.add(TC)
            if f.name in ('comment_doc', 'comment', 'comment_value', 'trailing_comment'):
                tainted.add(f.params[1])
            for _ in range(5):
                before = set(tainted)
                for s in ast.walk(f.node):
                    if isinstance(s, ast.Assign):
                        if _comment_expr(s.value, tainted):
                            for t in s.targets:
                                if isinstance(t, ast.Name):
                                    tainted.add(t.id)
                        # tuple unpacking from unwrap_comments
                        if isinstance(s.value, ast.Call) and call_name(s.value) == 'unwrap_comments' and isinstance(s.targets[0], ast.Tuple):
                            for e in s.targets[0].elts[1:]:
                                if isinstance(e, ast.Name):
                                    tainted.add(e.id)
                        # pairs tuple (k, v, kdoc, vdoc, kcomment, vcomment) unpacked later
                        if isinstance(s.targets[0], ast.Tuple) and isinstance(s.value, ast.Name):
                            for e in s.targets[0].elts:
                                if isinstance(e, ast.Name) and e.id in tainted:
                                    tainted.add(e.id)
                if tainted == before:
                    break
            if not tainted:
                continue
            par = enclosing_map(f.node)
            # local names that stand for one of several functions: ``annotator = comment_doc if ... else comment_value``
            global _ALIASES
            _ALIASES = {}
            for s_ in ast.walk(f.node):
                if isinstance(s_, ast.Assign) and len(s_.targets) == 1 and isinstance(s_.targets[0], ast.Name):
                    vals = [s_.value.body, s_.value.orelse] if isinstance(s_.value, ast.IfExp) else [s_.value]
                    if all(isinstance(v_, ast.Name) for v_ in vals):
                        _ALIASES.setdefault(s_.targets[0].id, set()).update(v_.id for v_ in vals)
            for nm in ast.walk(f.node):
                if not (isinstance(nm, ast.Name) and nm.id in tainted and isinstance(nm.ctx, ast.Load)):
                    continue
                ok, why = _taint_use_ok(nm, par, tainted)
                n += 1
                rep.check(ok, 'C09.a', '%s:use-of-%s:%s' % (f.qualname, nm.id, why[:50]), '%s:%d' % (mod.relpath, nm.lineno),
                          'comment text used as: %s' % why,
                          '%s lets comment text (%s) flow into %s: comment text must reach the output only inside a "#" comment'
                          % (f.key, nm.id, why), nontrivial=True)
    rep.floor('C09.a', n, 30)


def _comment_expr(v, tainted):
    if isinstance(v, ast.Name):
        return v.id in tainted
    if isinstance(v, ast.Attribute):
        t = src(v)
        return t.endswith('.annotation.value') or t.endswith('.comment') or t.endswith('.trailing_comment')
    if isinstance(v, ast.IfExp):
        return _comment_expr(v.body, tainted) or _comment_expr(v.orelse, tainted)
    if isinstance(v, ast.BinOp) and isinstance(v.op, ast.Add):
        return _comment_expr(v.left, tainted) or _comment_expr(v.right, tainted)
    return False


def _param_taint_ok(fi, pname, depth):
    """comment text handed to a package helper as parameter ``pname`` is used there only in the sanctioned ways"""
    if depth > 3:
        return False, 'passed on too deep to follow'
    tainted = {pname}
    for _ in range(5):
        before = set(tainted)
        for s in ast.walk(fi.node):
            if isinstance(s, ast.Assign) and _comment_expr(s.value, tainted):
                for t in s.targets:
                    if isinstance(t, ast.Name):
                        tainted.add(t.id)
        if tainted == before:
            break
    par = enclosing_map(fi.node)
    whys = set()
    for nm in ast.walk(fi.node):
        if isinstance(nm, ast.Name) and nm.id in tainted and isinstance(nm.ctx, ast.Load):
            ok, why = _taint_use_ok(nm, par, tainted, depth + 1)
            if not ok:
                return False, '%s in %s' % (why, fi.name)
            whys.add(why.split(' (')[0])
    return True, ', '.join(sorted(whys)) or 'never read'


def _taint_use_ok(nm, par, tainted, depth=0):
    p = par.get(id(nm))
    child = nm
    # climb through string concatenation / conditional expressions (still comment text)
    while isinstance(p, (ast.BinOp, ast.IfExp)):
        if isinstance(p, ast.IfExp) and p.test is child:
            return True, 'truthiness test'
        child = p
        p = par.get(id(p))
    if isinstance(p, ast.Call):
        cn = call_name(p)
        if cn in (_sinks(_REPO) if _REPO is not None else COMMENT_SINKS) and (child in p.args):
            return True, 'argument of %s' % cn
        if cn in _ALIASES and _ALIASES[cn] and _ALIASES[cn] <= (_sinks(_REPO) if _REPO is not None else COMMENT_SINKS) and child in p.args:
            return True, 'argument of %s' % '/'.join(sorted(_ALIASES[cn]))
        if cn == 'bool' or cn == 'isinstance':
            return True, 'test'
        # a namedtuple class of the module: building one is storing the text in a tuple (what is done with the field is checked where
        # it is read)
        if _REPO is not None and isinstance(p.func, ast.Name):
            for mod in _REPO.modules.values():
                vals_ = mod.assigns.get(p.func.id)
                if vals_ and isinstance(vals_[-1], ast.Call) and src(vals_[-1].func).split('.')[-1] == 'namedtuple':
                    pp_ = par.get(id(p))
                    return True, 'field of a %s tuple%s' % (p.func.id, ' (returned)' if isinstance(pp_, ast.Return) else ' (propagated)')
        if child in p.args and _REPO is not None:
            for mod in _REPO.modules.values():
                fi = mod.funcs.get(cn)
                if fi is not None:
                    i = p.args.index(child)
                    if i < len(fi.params) and fi.params[i] in (TC, 'comment_text', 'comment'):
                        return True, 'argument %s of %s' % (fi.params[i], cn)
                    if i < len(fi.params) and fi.parent is None:
                        ok_, why_ = _param_taint_ok(fi, fi.params[i], depth)
                        if ok_:
                            return True, 'parameter %s of %s (%s)' % (fi.params[i], cn, why_)
                        return False, 'argument of %s(...): %s' % (cn, why_)
        return False, 'argument of %s(...)' % cn
    if isinstance(p, ast.keyword):
        if p.arg in (TC, 'comment_text', 'comment'):
            return True, '%s= keyword' % p.arg
        pp_ = par.get(id(p))
        if isinstance(pp_, ast.Call) and _REPO is not None and p.value is child:
            for mod in _REPO.modules.values():
                fi = mod.funcs.get(call_name(pp_))
                if fi is not None and fi.parent is None and p.arg in fi.params:
                    ok_, why_ = _param_taint_ok(fi, p.arg, depth)
                    if ok_:
                        return True, 'parameter %s of %s (%s)' % (p.arg, fi.name, why_)
                    return False, 'keyword %s= of %s: %s' % (p.arg, fi.name, why_)
        return False, 'keyword %s=' % p.arg
    if isinstance(p, (ast.If, ast.While, ast.BoolOp, ast.UnaryOp, ast.Compare, ast.Assert)):
        return True, 'test'
    if isinstance(p, ast.Assign):
        return True, 'assignment (propagated)'
    if isinstance(p, (ast.Tuple,)):
        pp = par.get(id(p))
        if isinstance(pp, ast.Call) and call_name(pp).endswith('.append'):
            return True, 'stored in the pairs tuple (propagated)'
        if isinstance(pp, ast.Return):
            return True, 'returned in a tuple'
        return False, 'element of a tuple in %s' % type(pp).__name__
    if isinstance(p, ast.Return):
        return True, 'returned'
    if isinstance(p, (ast.List,)):
        return False, 'element of a list (document position)'
    return False, type(p).__name__


# -------------------------------------------------------------------------------------- C09.b / C09.d
def _commentdoc_shape(repo, rep):
    """C09.b / C09.d: commentdoc interpreted on small concrete comment texts (one word, several words, leading / trailing / wide
    blanks, tabs, several lines, blank lines, a trailing newline, whitespace-only text): in every layout of the returned document -
    before and after normalisation, every blank inside the fill flat or broken - every line starts with "#", shows exactly the words
    of the text in order, and separate lines of the text stay separate; the empty text is rejected with ValueError"""
    m = repo.module('prettyprinter')
    f = m.funcs.get('commentdoc')
    if f is None:
        raise AnalysisError('commentdoc vanished')
    from . import docmodel
    rep.floor('C09.b', docmodel.comments(repo, rep, 'C09.b'), 1)
    n = 0
    # the explicit ValueError for empty text: in every interpreted scenario (builders with comment annotations, printers with a
    # trailing comment whose emptiness is unknown) the text handed to commentdoc is known to be non-empty at the call
    calls = list(getattr(rep, '_commentdoc_calls', []))
    itp = S.interp(repo, 'printer', {'pretty_str': S.p_pretty_str_as_sub})
    from engine.interp import ValueV, TypeV, Sym, SymStr, CtxV, Undecided
    for key, base in (('list', 'list'), ('dict', 'dict')):
        fnp = S.printer_for(repo, key)
        for nel in (0, 1, 2):
            v = ValueV('value', TypeV(base), [Sym('x%d' % i) for i in range(nel)])
            try:
                S.run_printer(repo, itp, fnp, v, trailing_comment=SymStr('maybe-empty-comment', nonempty=None))
            except Undecided as e:
                rep.undecided('C09.d', '%s:commentdoc-guard' % fnp.name, fnp.where, str(e))
    calls += list(getattr(itp, 'commentdoc_calls', []))
    seen_calls = {}
    for pv, known, ln in calls:
        kk = (ln, pv[:40])
        seen_calls[kk] = seen_calls.get(kk, True) and known
    for (ln, pv), known in sorted(seen_calls.items()):
        n += 1
        rep.check(known, 'C09.d', 'commentdoc-text-nonempty@%s' % pv, '%s:%d' % (m.relpath, ln),
                  'comment text known to be non-empty when commentdoc is called',
                  'commentdoc(%s) is reached at line %d on a path where the text may be empty: commentdoc raises ValueError for an empty text '
                  '(the caller must test the comment for truthiness first)' % (pv, ln), nontrivial=True)
    rep.floor('C09.d', n, 4)


# -------------------------------------------------------------------------------------- C09.f
def _trailing_comment_used(repo, rep):
    """a printer that declares the trailing_comment parameter (which suppresses the "does not support trailing comments" warning)
    must show the comment.  Decided on the interpreted printer (E6): with a non-empty trailing comment, on every path the comment text
    is inside a comment of the returned document.  Findings are keyed by printer and kind of input (empty container / depth exhausted
    / with elements), not by source position.  A printer that never reads the parameter at all is one finding of its own."""
    from engine import docterm as D
    from engine.interp import ValueV, Sym, SymStr, Undecided
    from . import shape as S
    from .c11 import depth_feasible
    n = 0
    printers = {}
    keys_of = {}
    for r in facts.registry(repo):
        if r.fn is not None and '.extras' not in r.module.name and TC in r.fn.params:
            printers[r.fn.key] = r.fn
            keys_of.setdefault(r.fn.key, []).append(r.key)
    m = repo.module('prettyprinter')
    for f in m.funcs.values():
        if TC in f.params and f.key not in printers and f.params[:2] == ['value', 'ctx']:
            printers[f.key] = f
    itp = S.interp(repo, 'printer')
    for f in sorted(printers.values(), key=lambda x: x.key):
        reads = [x for x in ast.walk(f.node) if isinstance(x, ast.Name) and x.id == TC and isinstance(x.ctx, ast.Load)]
        if not reads:
            n += 1
            rep.fail('C09.f', '%s:trailing-comment-never-used' % f.qualname, f.where,
                     '%s accepts trailing_comment (which suppresses the "does not support trailing comments" warning) but never looks at it: the '
                     'comment silently disappears from the output' % f.name)
            continue
        outcome = {}        # kind of input -> [ok count, [failing scenario descriptions]]
        for key in sorted(set(keys_of.get(f.key, []))):
            base = key.strip("'")
            if base not in ('list', 'tuple', 'set', 'dict', 'frozenset'):
                continue
            for native in (True, False):
                for k in (0, 1, 2):
                    try:
                        v = ValueV('value', S.type_scenario(base, native), [Sym('x%d' % i) for i in range(k)])
                        res = S.run_printer(repo, itp, f, v, trailing_comment=SymStr('TRAILING-TEXT', nonempty=True))
                    except (Undecided, AnalysisError) as e:
                        n += 1
                        rep.undecided('C09.f', '%s[%s,n=%d]' % (f.qualname, base, k), f.where, str(e))
                        continue
                    for pr, t, ph in res:
                        if pr.raised is not None or t is None:
                            continue
                        if isinstance(t, D.Call) and t.via != 'build_fncall' and any('namedtuple' in key_ for key_, val_ in pr.facts if val_):
                            continue        # handed on to the named-tuple printers (judged on their own)
                        cut = depth_feasible(pr.facts, 0) and not depth_feasible(pr.facts, 1)
                        kind = 'depth-exhausted' if cut else 'empty' if k == 0 else 'with-elements'
                        shown = D.show(t)
                        ok = 'TRAILING-TEXT' in shown
                        o = outcome.setdefault(kind, [0, []])
                        if ok:
                            o[0] += 1
                        else:
                            o[1].append('%s %s, %d element(s) (%s) -> %s' % ('native' if native else 'subclass of', base, k, pr.fact_text()[:60], shown[:60]))
        for kind, (okc, bad) in sorted(outcome.items()):
            n += 1
            rep.check(not bad, 'C09.f', '%s:drops-trailing-comment[%s]' % (f.qualname, kind), f.where,
                      'the trailing comment is shown (%d interpreted paths)' % okc,
                      '%s accepts trailing_comment but for %s input the comment is not in the returned document (no comment in the output, no '
                      'warning): %s' % (f.name, kind, '; '.join(bad[:3])), nontrivial=True)
    rep.floor('C09.f', n, 6)


def _ret_ctx(r, g):
    fs = g.of(r)
    sig = '&'.join(sorted({('' if f.pol else '!') + f.text[:30] for f in fs}))
    return sig[:90] or 'unconditional'


# -------------------------------------------------------------------------------------- C09.g
def _wrapper_wiring(repo, rep):
    """comment() / trailing_comment() wrappers are unwrapped into the right slots and routed to the right place: decided by
    interpreting the public functions, unwrap_comments and pretty_python_value on wrappers in every small nesting"""
    from . import wrapper_model
    n = wrapper_model.comment_wiring(repo, rep, 'C09.g')
    from .c02 import intersperse_rule
    n += intersperse_rule(repo, rep, 'C09.g')
    rep.floor('C09.g', n, 20)
