"""Shared engine for C05 / C06: the width arithmetic of layout.py (DESIGN 4, L.a - L.f).

Both properties define the admissible width by a formula; the code computes it in several
places.  Equality of canonical linear forms with the formula of the property statement is
decidable and is a necessary condition of C05 (a larger budget overflows) and of C06 (a
smaller budget breaks although it fits).
"""
import ast

from engine import facts
from engine.astutil import src, call_name, names_in
from engine.linear import form, compare_form, NotLinear, atom, const, mk
from engine.loader import AnalysisError
from engine.switch import inline


def _parse(text):
    return ast.parse(text, mode='eval').body


def _pred_params(repo):
    f = repo.func('layout', 'fast_fitting_predicate')
    s = repo.func('layout', 'smart_fitting_predicate')
    if f.params != s.params:
        raise AnalysisError('the two fitting predicates have different signatures: %s vs %s'
                            % (f.params, s.params))
    if len(f.params) != 5:
        raise AnalysisError('fitting predicate signature changed: %s' % f.params)
    return f.params   # page_width, ribbon_frac, min_nesting_level, max_width, triplestack


def _bind(call_event, params):
    """keyword view of a recorded call event"""
    _, name, args, kws, ln = call_event
    out = dict(kws)
    for i, a in enumerate(args):
        if i < len(params):
            out.setdefault(params[i], a)
    return out


def _ribbon_form(W, F):
    # max(0, min(W, round(F * W)))
    prod = '(%s * %s)' % tuple(sorted([F, W]))
    return mk('max', [const(0), mk('min', [atom(W), atom('round(%s)' % prod)])])


def run_arith(repo, rep, prop):
    from engine.switch import NullMachine
    ms = facts.machines(repo)
    # structural facts are read only off loops in the recognised dispatch form; a restructured loop is decided by the interpreted
    # layout model (L.m) alone
    ms = {k: (m if m.exact else NullMachine(m.fn, m.reason)) for k, m in ms.items()}
    all_exact = all(m.exact and not any(b.opaque for b in m.branches) for m in ms.values())
    rep.analysed['machines_shape'] = {k: ('recognised' if m.exact else 'not recognised (%s): decided by the layout model only' % m.reason)
                                      for k, m in ms.items()}
    params = _pred_params(repo)
    P_W, P_F, P_MIN, P_MAXW, P_STACK = params
    bl = ms['best_layout']
    blf = bl.fn
    if len(blf.params) < 4:
        raise AnalysisError('best_layout signature changed: %s' % blf.params)
    WIDTH, FRAC = blf.params[1], blf.params[2]
    iv, mv, dv = bl.indent_var, bl.mode_var, bl.doc_var
    # column variable: the one reset at HARDLINE
    outcol = None
    hb = bl.branch('HARDLINE')
    for p in (hb.paths if hb else []):
        for e in p.events:
            if e[0] == 'set' and e[2] == '=' and e[3] == iv:
                outcol = e[1]
    if outcol is None and bl.exact and hb is not None and not hb.opaque:
        raise AnalysisError('best_layout: cannot identify the output column variable')
    if outcol is None:
        outcol = 'outcol'
    # function-level single assignments before the loop (ribbon_width = ...)
    top_env = {}
    for st in blf.node.body:
        if st is bl.loop:
            break
        if isinstance(st, ast.Assign) and len(st.targets) == 1 and isinstance(st.targets[0], ast.Name):
            top_env[st.targets[0].id] = inline(st.value, top_env)
    ribbon_name = None
    for k, v in top_env.items():
        try:
            if form(v, None, {WIDTH: 'W', FRAC: 'F'}) == _ribbon_form('W', 'F'):
                ribbon_name = k
        except NotLinear:
            pass
    W = lambda rule, c, w, d, fd, nt=True: rep.check(c, rule, w[0], w[1], d, fd, nontrivial=nt)  # noqa

    # ---------------------------------------------------------------- L.b ribbon width
    n = 0
    n += 1
    rep.check(ribbon_name is not None or not bl.exact, prop + '.L.b', 'best_layout:ribbon-width', blf.where,
              'ribbon_width = max(0, min(width, round(ribbon_frac * width)))',
              'best_layout no longer computes the ribbon width as max(0, min(width, round(ribbon_frac * '
              'width))) before the loop; assignments found: %s' % {k: src(v) for k, v in top_env.items()},
              nontrivial=True)
    ribbon_name = ribbon_name or 'ribbon_width'
    for name in ('fast_fitting_predicate', 'smart_fitting_predicate'):
        m = ms[name]
        b = m.branch('Contextual')
        if b is None:
            continue
        for p in b.paths:
            calls = [e for e in p.events if e[0] == 'call' and e[1] == m.doc_var + '.fn']
            for c in calls:
                n += 1
                kw = c[3]
                try:
                    ok = form(_parse(kw.get('ribbon_width', 'None')), None, {P_W: 'W', P_F: 'F'}) == _ribbon_form('W', 'F')
                except (NotLinear, SyntaxError):
                    ok = False
                rep.check(ok, prop + '.L.b', '%s:Contextual:ribbon-width' % name, '%s:%d' % (m.fn.module.relpath, c[4]),
                          'same ribbon formula as best_layout',
                          '%s passes ribbon_width=%s to contextual documents; best_layout uses max(0, '
                          'min(width, round(ribbon_frac * width)))' % (name, kw.get('ribbon_width')), nontrivial=True)
                ok2 = kw.get('page_width') == P_W and kw.get('indent') == m.indent_var
                rep.check(ok2, prop + '.L.b', '%s:Contextual:page-width-indent' % name,
                          '%s:%d' % (m.fn.module.relpath, c[4]), 'page width / indent forwarded',
                          '%s passes page_width=%s indent=%s' % (name, kw.get('page_width'), kw.get('indent')))
    b = bl.branch('Contextual')
    for p in (b.paths if b else []):
        for c in [e for e in p.events if e[0] == 'call' and e[1] == dv + '.fn']:
            n += 1
            kw = dict(c[3])
            rw = kw.get('ribbon_width')
            okr = rw == ribbon_name
            ok = (kw.get('indent') == iv and kw.get('column') == outcol and kw.get('page_width') == WIDTH and okr)
            if not okr and rw:
                try:
                    ok = ok or (kw.get('indent') == iv and kw.get('column') == outcol and kw.get('page_width') == WIDTH
                                and form(inline(_parse(rw), top_env), None, {WIDTH: 'W', FRAC: 'F'}) == _ribbon_form('W', 'F'))
                except (NotLinear, SyntaxError):
                    pass
            rep.check(ok, prop + '.L.b', 'best_layout:Contextual:arguments', '%s:%d' % (blf.module.relpath, c[4]),
                      'contextual documents see (indent, column, page width, ribbon width)',
                      'best_layout evaluates contextual documents with %s' % kw, nontrivial=True)
    # python_to_sdocs hands the layout the page width it was given and ribbon_frac = min(1.0, ribbon_width / width): read off the
    # interpreted entry point (ribbon narrower and wider than the page)
    from . import entrymodel
    n += entrymodel.report(repo, rep, prop + '.L.b', lambda k: k.startswith('layout:') or k.endswith(':single-path'),
                           'the width / ribbon the caller asked for does not reach the layout')
    if all_exact:
        rep.floor(prop + '.L.b', n, 6)

    # ---------------------------------------------------------------- L.a available width
    n = 0
    avail = mk('min', [atom('W').add(atom('C').scale(-1)),
                       atom('I').add(atom('R')).add(atom('C').scale(-1))])
    ren = {WIDTH: 'W', outcol: 'C', iv: 'I', ribbon_name: 'R'}

    def check_pred_call(c, where_kind, is_group):
        kw = _bind(c, params)
        ln = c[4]
        w = '%s:%d' % (blf.module.relpath, ln)
        try:
            mw = form(inline(_parse(kw[P_MAXW]), top_env) if False else _parse(kw[P_MAXW]), None, ren)
            ok = mw == avail
        except (NotLinear, KeyError, SyntaxError):
            ok = False
            mw = kw.get(P_MAXW)
        rep.check(ok, prop + '.L.a', 'best_layout:%s:available-width' % where_kind, w,
                  'max_width = min(width - column, indent + ribbon_width - column)',
                  'the width given to the fitting predicate at the %s decision is %s; the property fixes it as '
                  'min(width - column, indent + ribbon - column)' % (where_kind, mw), nontrivial=True)
        try:
            mn = form(_parse(kw[P_MIN]), None, ren) == mk('min', [atom('C'), atom('I')])
        except (NotLinear, KeyError, SyntaxError):
            mn = False
        rep.check(mn, prop + '.L.c', 'best_layout:%s:min-nesting-level' % where_kind, w,
                  'min_nesting_level = min(column, indent)',
                  'min_nesting_level passed at the %s decision is %s' % (where_kind, kw.get(P_MIN)), nontrivial=True)
        rep.check(kw.get(P_W) == WIDTH and kw.get(P_F) == FRAC, prop + '.L.a',
                  'best_layout:%s:page-width-forwarded' % where_kind, w, 'page width and ribbon fraction forwarded',
                  'predicate called with page_width=%s ribbon_frac=%s' % (kw.get(P_W), kw.get(P_F)))
        return kw

    gb = bl.branch('Group')
    if gb is None and bl.exact:
        raise AnalysisError('best_layout has no Group branch')
    seen_group_call = False
    predname = blf.params[3]
    for p in (gb.paths if gb is not None else []):
        calls = [e for e in p.events if e[0] == 'call' and e[1] in (predname, 'smart_fitting_predicate', 'fast_fitting_predicate')]
        for c in calls:
            if seen_group_call:
                continue
            seen_group_call = True
            n += 1
            kw = check_pred_call(c, 'group', True)
            # ------------------------------------------------------------ L.d
            st = kw.get(P_STACK, '')
            copies = ('copy(%s)' % bl.stack, 'list(%s)' % bl.stack, '%s[:]' % bl.stack,
                      '%s.copy()' % bl.stack, 'copy.copy(%s)' % bl.stack)
            triple = '(%s, FLAT_MODE, %s.doc)' % (iv, dv)
            ok = False
            if st in copies:
                # find the append of the flat triple on the copy variable before the call
                idx = p.events.index(c)
                for e in p.events[:idx]:
                    if e[0] == 'call' and e[1].endswith('.append') and e[2] == [triple]:
                        ok = True
            else:
                st_ns = st.replace(' ', '')
                ok = st_ns in (('%s+[%s]' % (bl.stack, triple)).replace(' ', ''),
                               ('[*%s,%s]' % (bl.stack, triple)).replace(' ', ''))
            rep.check(ok, prop + '.L.d', 'best_layout:group:predicate-sees-copy-plus-flat-group',
                      '%s:%d' % (blf.module.relpath, c[4]),
                      'predicate runs on a copy of the live stack plus the group in flat mode',
                      'the stack given to the predicate at the group decision is %s; it must be a copy of the '
                      'live stack (rest of the line) with (indent, FLAT_MODE, doc.doc) pushed' % st, nontrivial=True)
    if gb is not None and not gb.opaque:
        rep.check(seen_group_call, prop + '.L.a', 'best_layout:group:predicate-called', '%s:%d' % (blf.module.relpath, gb.lineno),
                  'group decision consults the predicate', 'the Group branch does not call the fitting predicate')
    fb = bl.branch('Fill')
    fill_calls = 0
    seen = set()
    for p in (fb.paths if fb else []):
        for c in p.events:
            if c[0] == 'call' and c[1] in ('fast_fitting_predicate', 'smart_fitting_predicate', predname) and c[4] not in seen:
                seen.add(c[4])
                fill_calls += 1
                n += 1
                check_pred_call(c, 'fill@%d' % fill_calls, False)
    if all_exact:
        rep.floor(prop + '.L.a', n, 2)

    # ---------------------------------------------------------------- L.c budget discipline
    n = 0
    lc_skipped = False
    for name in ('fast_fitting_predicate', 'smart_fitting_predicate'):
        m = ms[name]
        if not m.exact:
            continue
        fn = m.fn
        rel = fn.module.relpath
        # budget initialised from max_width before the loop
        budget = None
        for st in fn.node.body:
            if st is m.loop:
                break
            if isinstance(st, ast.Assign) and isinstance(st.targets[0], ast.Name) and src(st.value) == P_MAXW:
                budget = st.targets[0].id
        if budget is None:
            # the parameter itself may be the budget
            budget = P_MAXW
        if budget not in names_in(m.loop.test):
            # the loop is not guarded by the budget (it runs while the stack has entries and leaves through explicit tests): the budget
            # discipline has another shape here and is decided on what the predicate computes (interpreted layouts, %s.L.m)
            rep.note('%s: the look-ahead loop is guarded by %s, not by the budget %s; its budget discipline is decided by the interpreted '
                     'layouts' % (name, src(m.loop.test), budget))
            lc_skipped = True
            continue
        n += 1
        try:
            guard = compare_form(m.loop.test)
            okg = guard == ('ge0', atom(budget))
        except NotLinear:
            okg = False
            guard = src(m.loop.test)
        rep.check(okg, prop + '.L.c', '%s:loop-guard' % name, '%s:%d' % (rel, m.loop.lineno),
                  'loop continues while budget >= 0',
                  'the look-ahead loop of %s runs while %s; the admissible-width rule needs budget >= 0 '
                  '(text that exactly fills the width fits; one more character does not)' % (name, src(m.loop.test)),
                  nontrivial=True)
        # updates
        for br in m.branches:
            for p in br.paths:
                for e in p.events:
                    if e[0] == 'set' and e[1] == budget:
                        n += 1
                        kinds = set(br.kinds)
                        if 'str' in kinds:
                            ok = e[2] == '-=' and e[3] == 'len(%s)' % m.doc_var
                            why = 'text must cost exactly len(text)'
                        elif 'HARDLINE' in kinds and name == 'smart_fitting_predicate':
                            try:
                                ok = e[2] == '=' and form(_parse(e[3]), None, {P_W: 'W', m.indent_var: 'I'}) == \
                                    atom('W').add(atom('I').scale(-1))
                            except NotLinear:
                                ok = False
                            conds = []
                            for t, pol in p.conds:
                                try:
                                    conds.append(compare_form(_parse(t), pol))
                                except NotLinear:
                                    pass
                            want = ('ge0', atom(m.indent_var).add(atom(P_MIN).scale(-1)).add(const(-1)))
                            ok = ok and want in conds
                            why = ('after a hard break the smart predicate may continue only when indent > '
                                   'min_nesting_level, with budget page_width - indent')
                        else:
                            ok = False
                            why = 'only text and (smart) hard breaks may change the budget'
                        rep.check(ok, prop + '.L.c', '%s:%s:budget-update' % (name, '/'.join(br.kinds)),
                                  '%s:%d' % (rel, e[4]), why,
                                  '%s: branch %s updates the budget as %s %s %s under (%s)' % (
                                      why, '/'.join(br.kinds), e[1], e[2], e[3], p.cond_text()), nontrivial=True)
        sb = m.branch('str')
        n += 1
        rep.check(sb is not None and all(any(e[0] == 'set' and e[1] == budget for e in p.events) for p in sb.paths),
                  prop + '.L.c', '%s:str:costs' % name, '%s:%d' % (rel, sb.lineno if sb else m.loop.lineno),
                  'text is charged to the budget', 'text is not charged to the budget in %s' % name)
        # return True only for empty stack / hard break; fall-out returns False
        for br in m.branches:
            for p in br.paths:
                for e in p.events:
                    if e[0] == 'return' and e[1] == 'True':
                        n += 1
                        rep.check('HARDLINE' in br.kinds, prop + '.L.c', '%s:%s:returns-true' % (name, '/'.join(br.kinds)),
                                  '%s:%d' % (rel, e[2]), 'success only at end of line / end of input',
                                  'branch %s of %s answers "fits" before the line has ended' % ('/'.join(br.kinds), name),
                                  nontrivial=True)
        tail = fn.node.body[fn.node.body.index(m.loop) + 1:]
        n += 1
        rep.check(len(tail) >= 1 and isinstance(tail[0], ast.Return) and src(tail[0].value) == 'False' and not m.loop.orelse,
                  prop + '.L.c', '%s:exhausted-budget-fails' % name, '%s:%d' % (rel, m.loop.lineno),
                  'leaving the loop (budget < 0) means does-not-fit',
                  'after the look-ahead loop %s returns %s' % (name, src(tail[0].value) if tail and isinstance(tail[0], ast.Return) else '?'),
                  nontrivial=True)
        # the emptiness exit
        n += 1
        ok = False
        for st in m.pre_events if False else m.loop.body:
            if isinstance(st, ast.If) and src(st.test) in ('not %s' % m.stack, 'len(%s) == 0' % m.stack) \
                    and len(st.body) == 1 and isinstance(st.body[0], ast.Return) and src(st.body[0].value) == 'True':
                ok = True
        rep.check(ok, prop + '.L.c', '%s:empty-stack-fits' % name, '%s:%d' % (rel, m.loop.lineno),
                  'nothing left to place fits', '%s lost the "stack empty -> fits" exit' % name)
    if all_exact and not lc_skipped:
        rep.floor(prop + '.L.c', n, 12)

    # ---------------------------------------------------------------- L.e forced breaks
    n = 0
    for name in ('fast_fitting_predicate', 'smart_fitting_predicate'):
        m = ms[name]
        if not m.exact:
            continue
        b = m.branch('AlwaysBreak')
        n += 1
        ok = b is not None and all(p.end == 'return' and p.events and p.events[0][0] == 'return'
                                   and p.events[0][1] == 'False' for p in b.paths)
        rep.check(ok, prop + '.L.e', '%s:AlwaysBreak:fails' % name,
                  '%s:%d' % (m.fn.module.relpath, b.lineno if b else m.loop.lineno),
                  'forced break fails the predicate', '%s does not fail on AlwaysBreak' % name, nontrivial=True)
    # the printers' own forced breaks do not depend on layout configuration
    pp = repo.module('prettyprinter')
    for fname in ('sequence_of_docs', 'pretty_dict', 'build_fncall'):
        f = pp.funcs.get(fname)
        if f is None:
            raise AnalysisError('prettyprinter.%s vanished' % fname)
        defs = {}
        for s in ast.walk(f.node):
            if isinstance(s, ast.Assign):
                for t in s.targets:
                    for nm in names_in(t):
                        defs.setdefault(nm, []).append(s.value)
        for s in ast.walk(f.node):
            test = None
            if isinstance(s, ast.IfExp) and {src(s.body), src(s.orelse)} == {'always_break', 'group'}:
                test = s.test
            elif isinstance(s, ast.If) and any(isinstance(c, ast.Call) and call_name(c) == 'always_break' for c in ast.walk(s)) \
                    and any(isinstance(c, ast.Call) and call_name(c) == 'group' for st in s.orelse for c in ast.walk(st)):
                test = s.test
            if test is None:
                continue
            n += 1
            closure, work = set(), list(names_in(test))
            for nn in ast.walk(test):
                if isinstance(nn, ast.Attribute) and src(nn) in ('ctx.indent',):
                    closure.add('ctx.indent')
            while work:
                x = work.pop()
                if x in closure:
                    continue
                closure.add(x)
                for v in defs.get(x, []):
                    for nn in ast.walk(v):
                        if isinstance(nn, ast.Attribute) and src(nn) in ('ctx.indent',):
                            closure.add('ctx.indent')
                    work.extend(names_in(v))
            bad = closure & {'ctx.indent', 'width', 'page_width', 'ribbon_width', 'indent'}
            rep.check(not bad, prop + '.L.e', '%s:forced-break-config-independent' % fname,
                      '%s:%d' % (pp.relpath, s.lineno), 'forced break does not depend on the layout configuration',
                      'the always_break/group choice in %s depends on %s' % (fname, sorted(bad)), nontrivial=True)
    if all_exact:
        rep.floor(prop + '.L.e', n, 4)

    # ---------------------------------------------------------------- L.g strategy wiring
    n = 0
    lay = repo.module('layout')
    for fname, pred in (('layout_smart', 'smart_fitting_predicate'), ('layout_fast', 'fast_fitting_predicate')):
        f = lay.funcs.get(fname)
        n += 1
        if f is None:
            rep.fail(prop + '.L.g', fname + ':exists', lay.relpath, fname + ' vanished')
            continue
        calls = [c for c in ast.walk(f.node) if isinstance(c, ast.Call) and call_name(c) == 'best_layout']
        ok = len(calls) == 1
        if ok:
            c = calls[0]
            bound = dict(zip(blf.params, [src(a) for a in c.args]))
            bound.update({k.arg: src(k.value) for k in c.keywords})
            ok = bound.get(blf.params[0]) == f.params[0] and bound.get(WIDTH) == f.params[1] and bound.get(FRAC) == f.params[2] \
                and bound.get(predname) == pred and 'outcol' not in bound and 'mode' not in bound
        rep.check(ok, prop + '.L.g', fname + ':wiring', f.where, '%s = best_layout(doc, width, ribbon_frac, %s)' % (fname, pred),
                  '%s no longer forwards (doc, width, ribbon_frac) to best_layout with %s' % (fname, pred), nontrivial=True)
    a = blf.node.args
    defaults = dict(zip([x.arg for x in a.args[len(a.args) - len(a.defaults):]], [src(d) for d in a.defaults]))
    n += 1
    rep.check(defaults.get('outcol') == '0' and defaults.get('mode') == 'BREAK_MODE', prop + '.L.g', 'best_layout:starts-at-column-0-in-break-mode', blf.where,
              'layout starts at column 0 in break mode', 'best_layout defaults are %s' % defaults, nontrivial=True)
    # the pipeline uses one of the two strategies
    rep.floor(prop + '.L.g', n, 3)

    # ---------------------------------------------------------------- L.f note
    for name in ('fast_fitting_predicate', 'smart_fitting_predicate'):
        m = ms[name]
        b = m.branch('Contextual')
        for p in (b.paths if b else []):
            for c in p.events:
                if c[0] == 'call' and c[1] == m.doc_var + '.fn':
                    rep.note('%s passes column=%s to contextual documents (relative to the group start; best_layout '
                             'passes the absolute column) -- recorded as a note, not a finding (DESIGN L.f)' % (
                                 name, c[3].get('column')))
    rep.count(sum(len(b.paths) for m in ms.values() for b in m.branches))

    # ---------------------------------------------------------------- L.w the requested width / ribbon reach the layout
    # (the pformat-level sentences of C05/C06 speak about the width the caller asked for, through any entry point and
    # through the configured defaults): reuse the wiring rules of C18 for these two settings
    from engine.report import Report
    from . import c18
    sub = Report('C18', rep.tier, rep.seed, quiet=True, write=False)
    c18.run(repo, sub)
    n = 0
    for i in sub.instances:
        if 'width' in i.construct or i.construct in ('name-sets-agree', 'merge:explicit-overrides-default',
                                                      'merge:defaults-read-at-call-time', 'set_default_config:rebinds-global',
                                                      'merge:iterates-default-items'):
            n += 1
            if i.verdict == 'holds':
                rep.ok(prop + '.L.w', i.construct, i.where, i.detail)
            elif i.verdict == 'VIOLATED':
                rep.fail(prop + '.L.w', i.construct, i.where, 'the width / ribbon_width the caller configured does not reach the '
                         'layout unchanged: ' + i.detail)
            else:
                rep.undecided(prop + '.L.w', i.construct, i.where, i.detail)
    rep.floor(prop + '.L.w', n, 12)
    # L.n: normalisation does not move a group to another indentation (the ribbon is measured from the indentation of the line the
    # group starts on) and keeps every forced break (document model: denotation includes where each flat group is measured from)
    from . import docmodel
    rep.floor(prop + '.L.n', docmodel.run(repo, rep, {'normalisation': prop + '.L.n', 'constructors': prop + '.L.n'}), 2)
    # L.m: the engine interpreted on small concrete documents (both strategies, small widths, ribbon fractions 1 and 0.5)
    from . import layoutmodel
    rep.floor(prop + '.L.m', layoutmodel.run(repo, rep, {'C04': prop + '.L.m', prop: prop + '.L.m'}), 2)
    if prop == 'C06':
        # the corollary for strings: a str / bytes value whose one-line literal fits is printed as that literal (string printer's
        # layout-time evaluator interpreted on the string corpus)
        from . import strmodel
        rep.floor('C06.L.s', strmodel.one_line_when_it_fits(repo, rep, 'C06.L.s'), 1)
