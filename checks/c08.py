"""C08 -- instances of subclasses of built-in types keep their class."""
import ast

from engine import docterm as D
from engine import facts
from engine.astutil import src, call_name, dotted, Guards, names_in, enclosing_map
from engine.interp import (Const, Sym, SymStr, ListV, TupleV, ValueV, CtxV, DocV, TypeV, FuncV, NONE, Undecided, prov)
from engine.loader import AnalysisError
from . import shape as S

META = {
    'text': 'Subclass instances keep their class, decided on interpreted printers (E6, native and subclass scenarios for ev'
            'ery built-in container and leaf type): (a,b) a subclass instance is printed as Sub(<literal of the built-in va'
            'lue>) on every path, the literal equals the native rendering, children are dispatched normally, string subclas'
            "ses through every multiline strategy; (c) the inner literal comes from the base type's own __repr__ (never fro"
            'm an overridden __repr__/__str__); (d) the class is named by general_identifier, interpreted on model callable'
            's: module.qualname, with builtins and __main__ elided and nothing else changed; (e) an instance of a subclass '
            'of an atomic type occurring several times in a value is printed by its printer every time (wrapper model); (f)'
            ' nothing printed is remembered between values: no write to module-lifetime state from the printing pipeline be'
            'sides the reasoned allow-list, no mutable default argument written (a cache keyed by == hands a subclass insta'
            'nce the text of the equal built-in value).',
    'note': 'the interpreter implements the Python subset used by the printers; unknown constructs end in ANALYSIS-ERROR',
    'technique': 'static analysis: abstract interpretation of the printers (type scenarios), of general_identifier and of the wr'
                 'apper; effect inventory',
}
META['text'] += ' Round 5: (b) in containers longer than every size constant of the sequence printer, elements that are instances of an int subclass are handed to the recursive print entry, never written as a literal.'

STRATEGIES = ['MULTILINE_STRATEGY_PLAIN', 'MULTILINE_STRATEGY_HANG', 'MULTILINE_STRATEGY_INDENTED', 'MULTILINE_STRATEGY_PARENS']


def is_call_of(t, tname):
    return isinstance(t, D.Call) and t.fn == 'ident(%s)' % tname


def str_prims(nlines, one_shot=False):
    def p_str_to_lines(it, a, k, n):
        s = k.get('s', a[2] if len(a) > 2 else None)
        q = k.get('use_quote', a[1] if len(a) > 1 else None)
        it.last_split_quote = prov(q)
        # the splitter is a generator function: what it returns can be read once
        return ListV([SymStr('piece%d(%s)' % (i, prov(s)), nonempty=True) for i in range(nlines)], lazy=one_shot)
    return {'str_to_lines': p_str_to_lines}


def string_printer_paths(repo, base, native, strategy_names=STRATEGIES, lines=(0, 1, 2, 3)):
    """yields (label, PathResult of the evaluator, term) for the string printer incl. its
    layout-time evaluator"""
    fn = S.printer_for(repo, base)
    m = repo.module('prettyprinter')
    out = []
    for sname in strategy_names:
        sval = m.assigns.get(sname)
        strat = Const(sval[-1].value) if sval and isinstance(sval[-1], ast.Constant) else Const(sname)
        for nl in lines:
            stl_ = m.funcs.get('str_to_lines')
            gen_ = stl_ is not None and any(isinstance(x, (ast.Yield, ast.YieldFrom)) for x in ast.walk(stl_.node))
            it = S.interp(repo, 'printer', str_prims(nl, one_shot=gen_))
            v = ValueV('s', S.type_scenario(base, native), None)
            ctx = CtxV('ctx', 0, strat)
            for pr in it.explore(fn, [v, ctx], {}):
                lab = '%s[%s,%s,pieces=%d]' % (fn.name, 'native' if native else 'subclass', sname.replace('MULTILINE_STRATEGY_', ''), nl)
                if pr.raised is not None or not isinstance(pr.value, DocV):
                    out.append((lab + '{direct}', pr, None, fn))
                    continue
                t = pr.value.t
                if isinstance(t, D.Ctx):
                    clos = t.closure
                    if not isinstance(clos, FuncV):
                        out.append((lab, pr, D.Opaque('contextual of non-function'), fn))
                        continue
                    for pr2 in S.eval_contextual(repo, it, clos):
                        t2 = it.as_term(pr2.value) if pr2.raised is None and pr2.value is not None and not (
                            isinstance(pr2.value, Const) and pr2.value.v is None) else None
                        out.append((lab + '{%s}' % _short(pr2), pr2, t2, clos.fn))
                else:
                    out.append((lab + '{%s}' % _short(pr), pr, t, fn))
    return out


def _short(pr):
    return ','.join(('' if v else '!') + k[:34] for k, v in pr.facts)[:110]


def container_scenarios(repo, nmax=2):
    """(label, fn, value, kwargs) for the container printers"""
    out = []
    fseq = S.printer_for(repo, 'list')
    for base in ('list', 'tuple', 'set'):
        for n in range(0, nmax + 1):
            out.append((base, n, fseq))
    fd = S.printer_for(repo, 'dict')
    for n in (0, 1, 2):
        out.append(('dict', n, fd))
    ff = S.printer_for(repo, 'frozenset')
    for n in (0, 1):
        out.append(('frozenset', n, ff))
    return out


def run(repo, rep):
    rep.explanation = ('C08.a identity-based nativeness, C08.b wrapper on every return path (R-SHAPE over type scenarios), C08.c '
                       'non-virtual inner literal, C08.d qualified name of the subclass.')
    rep.not_decided = 'that the subclass constructor accepts the base literal; subclasses overriding __len__/__iter__.'
    rep.assumptions = ['isinstance follows the subclass relation, "is"/"in (types)" are identity tests']
    m = repo.module('prettyprinter')

    # ---------------------------------------------------------------- C08.b containers
    n = 0
    itb = S.interp(repo, 'printer', {'pretty_str': S.p_pretty_str_as_sub})
    for base, nel, fn in container_scenarios(repo, S.bound(rep, 2, 3)):
        tname = 'Sub_' + base
        v = ValueV('value', S.type_scenario(base, False), [Sym('x%d' % i) for i in range(nel)])
        vn = ValueV('value', S.type_scenario(base, True), [Sym('x%d' % i) for i in range(nel)])
        kws = [{}]
        if 'trailing_comment' in fn.params:
            kws = [{'trailing_comment': NONE}, {'trailing_comment': SymStr('tc', nonempty=True)}]
        for kw in kws:
            try:
                res = S.run_printer(repo, itb, fn, v, **kw)
                native = {}
                for prn, tn, _ in S.run_printer(repo, itb, fn, vn, **kw):
                    if prn.raised is None and tn is not None:
                        native[tuple(prn.facts)] = tn
            except Undecided as e:
                rep.undecided('C08.b', '%s[%s,n=%d]' % (fn.name, base, nel), fn.where, str(e))
                continue
            for pr, t, ph in res:
                n += 1
                rep.count(1)
                lab = '%s[%s subclass,n=%d%s]{%s}' % (fn.name, base, nel, ',tc' if kw.get('trailing_comment') not in (None, NONE) else '', _short(pr))
                if pr.raised is not None:
                    rep.fail('C08.b', lab, fn.where, 'printer raises %s for a %s subclass instance' % (pr.raised.what, base))
                    continue
                rep.check(is_call_of(t, tname), 'C08.b', lab, fn.where, 'printed as %s(<literal>)' % tname,
                          'for an instance of a %s subclass with %d elements the path (%s) returns %s: the subclass is not '
                          'reconstructed (expected a call of type(value))' % (base, nel, pr.fact_text()[:150], D.show(t)[:120] if t is not None else None),
                          nontrivial=True)
                if is_call_of(t, tname) and nel > 0 and not pr.assumed('depth_left', True):
                    inner = [a for a in t.args if isinstance(a, (D.Seq, D.Cat, D.AB, D.Grp, D.T))] or t.args
                    rep.check(len(t.args) == 1 and not t.kwargs, 'C08.b', lab + ':literal-arg', fn.where, 'one literal argument',
                              'subclass call has arguments %s %s' % (t.args, t.kwargs))
                    tn = native.get(tuple(pr.facts))
                    if tn is not None and len(t.args) == 1 and isinstance(t.args[0], D.T) and not isinstance(tn, D.Call) and base != 'frozenset':
                        n += 1
                        rep.check(t.args[0].key() == tn.key(), 'C08.b', lab + ':literal-equals-native', fn.where,
                                  'inner literal is exactly what the built-in value would print as',
                                  'the literal inside %s(...) is %s but a native %s prints as %s on the same path: the subclass instance '
                                  'would not be reconstructed from the literal of its underlying value'
                                  % (tname, D.show(t.args[0])[:120], base, D.show(tn)[:120]), nontrivial=True)
    # elements that are instances of a subclass of a built-in type, in containers longer than every size constant the sequence printer
    # compares against (and than a fixed small count): each is handed to the recursive print entry - a text computed from the element
    # directly (its repr) bypasses the wrapper that its own printer adds
    fseq = S.printer_for(repo, 'list')
    counts, mined = S.scaled_counts(repo, fseq)
    rep.note('sequence printer: size constants %s; element counts %s' % ({k: v[:1] for k, v in mined.items()} or 'none', counts))
    for nel in counts:
        for base in ('list', 'tuple', 'set'):
            v = ValueV('value', S.type_scenario(base, True), S.typed_elements(nel, 'Sub_int'))
            try:
                res = S.run_printer(repo, itb, fseq, v, trailing_comment=NONE)
            except Undecided as e:
                n += 1
                rep.undecided('C08.b', '%s[%s,n=%d,Sub_int]' % (fseq.name, base, nel), fseq.where, str(e))
                continue
            for pr, t, ph in res:
                if pr.raised is not None or not isinstance(t, D.Seq):
                    continue
                lits = [(nm, D.show(i_)[:60]) for nm, how, i_ in S.element_view(t.items) if how == 'literal']
                n += 1
                rep.check(not lits, 'C08.b', '%s[%s,n=%d,int-subclass elements]{%s}:elements-dispatched' % (fseq.name, base, nel, _short(pr)), fseq.where,
                          'every element handed to the recursive print entry',
                          'in a %s of %d instances of an int subclass the element %s is written as %s: the element\'s own printer - and with it '
                          'the call of its class around the literal - is bypassed' % (base, nel, lits[0][0] if lits else '', lits[0][1] if lits else ''), nontrivial=True)
    # children of containers are printed through the dispatching entry points (never a literal builder directly)
    fd = S.printer_for(repo, 'dict')
    for nk in (1, 2):
        for native in (True, False):
            d = ValueV('d', S.type_scenario('dict', native), [Sym('k%d' % i) for i in range(nk)])
            for pr, t, ph in S.run_printer(repo, itb, fd, d, trailing_comment=NONE):
                if pr.raised is not None or t is None or pr.assumed('depth_left', True):
                    continue
                inner = t.args[0] if isinstance(t, D.Call) and t.args and isinstance(t.args[0], D.T) else t
                atoms = [a for seq in D.all_layouts(inner)[:1] for a in seq if isinstance(a, D.Lit)]
                n += 1
                rep.check(not atoms, 'C08.b', 'pretty_dict[n=%d,%s]{%s}:children-dispatched' % (nk, 'native' if native else 'subclass', _short(pr)), fd.where,
                          'keys and values printed through pretty_python_value / the registered string printer',
                          'a dict key or value is printed by a literal builder directly (%s): an instance of a str/bytes subclass used '
                          'there loses its class' % [D.show(a) for a in atoms][:2], nontrivial=True)
    rep.floor('C08.b:containers', n, 40)

    # ---------------------------------------------------------------- C08.b strings
    n = 0
    for base in ('str', 'bytes'):
        tname = 'Sub_' + base
        try:
            paths = string_printer_paths(repo, base, False)
        except Undecided as e:
            rep.undecided('C08.b', 'pretty_str[%s]' % base, '', str(e))
            continue
        for lab, pr, t, fn in paths:
            n += 1
            rep.count(1)
            if pr.raised is not None:
                if 'Assertion' in pr.raised.what:
                    continue
                rep.fail('C08.b', lab, fn.where, 'string printer raises %s for a %s subclass instance' % (pr.raised.what, base))
                continue
            rep.check(is_call_of(t, tname), 'C08.b', lab, fn.where, 'printed as %s(<literal>)' % tname,
                      'for an instance of a %s subclass the string printer path (%s) returns %s: the bare literal loses the class'
                      % (base, pr.fact_text()[:160], D.show(t)[:120] if t is not None else None), nontrivial=True)
    rep.floor('C08.b:strings', n, 40)

    # ---------------------------------------------------------------- C08.b numbers
    n = 0
    itn = S.interp(repo, 'printer', {__import__('engine.roles', fromlist=['x']).name(repo, 'builtin_repr'): lambda it, a, k, nd: SymStr('base_repr(%s)' % prov(a[-1]), nonempty=True)})
    for base in ('int', 'float', 'bool'):
        fn = S.printer_for(repo, base)
        v = ValueV('value', S.type_scenario(base, False), None)
        try:
            res = S.run_printer(repo, itn, fn, v)
        except Undecided as e:
            rep.undecided('C08.b', '%s[subclass]' % fn.name, fn.where, str(e))
            continue
        for pr, t, ph in res:
            n += 1
            lab = '%s[%s subclass]{%s}' % (fn.name, base, _short(pr))
            if pr.raised is not None:
                rep.fail('C08.b', lab, fn.where, 'printer raises %s' % pr.raised.what)
                continue
            rep.check(is_call_of(t, 'Sub_' + base), 'C08.b', lab, fn.where, 'printed as Sub_%s(<literal>)' % base,
                      'for an instance of a %s subclass the path (%s) returns %s' % (base, pr.fact_text()[:120], D.show(t)[:100] if t is not None else None),
                      nontrivial=True)
    rep.floor('C08.b:numbers', n, 8)

    # ---------------------------------------------------------------- C08.c
    n = 0
    targets = [S.printer_for(repo, k) for k in ('int', 'float', 'str')]
    for name in ('escape_str_for_quote', 'pretty_single_line_str', 'escaped_len', 'determine_quote_strategy'):
        f = m.funcs.get(name)
        if f is not None:
            targets.append(f)
    for f in targets:
        vals = {f.params[0]} if f.name.startswith('pretty_') else {p for p in f.params if p in ('s', 'value')}
        nested = [g for g in m.funcs.values() if g.parent is f]
        for node in [f.node] + [g.node for g in nested]:
            for c in ast.walk(node):
                bad = None
                if isinstance(c, ast.Call) and call_name(c) in ('repr', 'str', 'format', 'ascii') and c.args and \
                        isinstance(c.args[0], ast.Name) and c.args[0].id in vals:
                    bad = src(c)
                if isinstance(c, ast.Call) and isinstance(c.func, ast.Attribute) and c.func.attr in ('format', '__repr__', '__str__') \
                        and isinstance(c.func.value, ast.Name) and c.func.value.id in vals:
                    bad = src(c)
                if isinstance(c, ast.Call) and isinstance(c.func, ast.Attribute) and c.func.attr == 'format' and \
                        any(isinstance(a, ast.Name) and a.id in vals for a in c.args):
                    bad = src(c)
                if isinstance(c, ast.FormattedValue) and isinstance(c.value, ast.Name) and c.value.id in vals:
                    bad = 'f-string of ' + c.value.id
                if isinstance(c, ast.BinOp) and isinstance(c.op, ast.Mod) and isinstance(c.left, ast.Constant) and \
                        any(isinstance(x, ast.Name) and x.id in vals for x in ast.walk(c.right)):
                    bad = src(c)
                if bad:
                    n += 1
                    rep.fail('C08.c', '%s:virtual-literal:%s' % (f.name, bad[:40]), '%s:%d' % (f.module.relpath, c.lineno),
                             '%s builds the inner literal with %s: that dispatches to a __repr__/__str__/__format__ the subclass may '
                             'override (IntEnum prints E(<E.A: 1>), a str subclass with its own __repr__ prints garbage); the base '
                             "type's repr must be used" % (f.name, bad))
        # positive: the base repr is used
        brn_ = __import__('engine.roles', fromlist=['x']).name(repo, 'builtin_repr')

        def _is_base_repr_call(c, _m=f.module):
            if call_name(c) == brn_ or call_name(c).endswith('.__repr__'):
                return True
            r__ = repo.resolve(_m, c.func.id) if isinstance(c.func, ast.Name) else None      # imported under another name
            return bool(r__ and r__[0] == 'func' and r__[1].name == brn_)
        base_calls = [c for node in [f.node] + [g.node for g in nested] for c in ast.walk(node) if isinstance(c, ast.Call) and _is_base_repr_call(c)]
        if f.name in ('pretty_int', 'pretty_float', 'escape_str_for_quote'):
            n += 1
            rep.check(bool(base_calls), 'C08.c', '%s:uses-base-repr' % f.name, f.where, 'literal from the base type repr',
                      '%s does not obtain the literal from the built-in type\'s own __repr__' % f.name, nontrivial=True)
    br = m.funcs.get(__import__('engine.roles', fromlist=['x']).name(repo, 'builtin_repr'))
    if br is None:
        # the helper may live in another module of the package and be imported here
        brn2_ = __import__('engine.roles', fromlist=['x']).name(repo, 'builtin_repr')
        br = next((m2.funcs[brn2_] for m2 in repo.modules.values() if brn2_ in m2.funcs), None)
    if br is not None and len(br.params) < 2:
        n += 1
        rep.fail('C08.c', '_builtin_repr:base-dunder', br.where,
                 '%s(%s) is no longer told the built-in base type by its caller: whatever it derives from the value itself (the MRO, the '
                 'class name) is wrong for classes that list a mix-in after the built-in base (class Port(int, Tagged), every IntEnum / '
                 'StrEnum member), whose literal then comes from object.__repr__ or an overridden __repr__' % (br.name, ', '.join(br.params)))
    elif br is not None:
        n += 1
        rets = [src(r.value) for r in ast.walk(br.node) if isinstance(r, ast.Return) and r.value is not None]
        rep.check('%s.__repr__(%s)' % (br.params[0], br.params[1]) in rets, 'C08.c', '_builtin_repr:base-dunder', br.where,
                  'helper calls basetype.__repr__(value)', '_builtin_repr returns %s' % rets, nontrivial=True)
        gb = Guards(br.node)
        inst = 'isinstance(%s, %s)' % (br.params[1], br.params[0])
        for r in ast.walk(br.node):
            if isinstance(r, ast.Return) and r.value is not None:
                fs = gb.of(r)
                n += 1
                if src(r.value) == '%s.__repr__(%s)' % (br.params[0], br.params[1]):
                    ok = {(ff.text, ff.pol) for ff in fs} == {(inst, True)}
                    rep.check(ok, 'C08.c', '_builtin_repr:base-dunder-for-every-instance', '%s:%d' % (br.module.relpath, r.lineno),
                              'every instance of the base type gets the base repr',
                              'the base-type repr is used only under %s: some subclass instances (e.g. with an inherited __repr__ override) '
                              'still go through their own __repr__' % gb.texts(r), nontrivial=True)
                else:
                    ok = any((not ff.pol) and ff.text == inst for ff in fs)
                    rep.check(ok, 'C08.c', '_builtin_repr:fallback-only-for-foreign-values', '%s:%d' % (br.module.relpath, r.lineno),
                              'repr(value) only for values that are not instances of the base type',
                              '_builtin_repr returns %s for instances of the base type (%s)' % (src(r.value), gb.texts(r)), nontrivial=True)
    rep.floor('C08.c', n, 4)

    # ---------------------------------------------------------------- C08.d the class of a subclass instance is named so that it can be
    # evaluated: general_identifier interpreted on model callables (module.qualname; builtins and __main__ elided; nothing else)
    from . import identmodel
    n = identmodel.run(repo, rep, 'C08.d')
    rep.floor('C08.d', n, 10)
    # C08.e: an instance of a subclass of an atomic built-in type that occurs several times in a value (an IntEnum member) is printed
    # by its own printer every time - the visited bookkeeping treats it like any other value (interpreted wrapper model)
    from . import wrapper_model
    rep.floor('C08.e', wrapper_model.run(repo, rep, 'C08'), 1)
    # C08.f: nothing printed is remembered between values: a cache keyed by == (a str subclass instance equals and hashes like the
    # plain string) hands one value the text of the other
    from . import shared_state as SS
    rep.floor('C08.f', SS.caches_in_cone(repo, rep, 'C08.f', 'an instance of a subclass compares and hashes equal to the built-in value, so a '
                                         'remembered document is shared between them and the class is lost (or invented)'), 5)
