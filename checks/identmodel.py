"""general_identifier / classattr decided semantically (C07.d/f, C08.d, C17): the functions are interpreted (no execution) on model
callables - objects with a ``__module__``, a ``__qualname__`` and optionally a ``__self__`` - and the text of the returned document is
compared with the rule: the fully qualified name ``module.qualname``; the module is left out exactly for builtins and __main__; a
builtin method without a module takes the module of the type of the object it is bound to; a non-callable is shown as it is."""
import ast

from engine import docterm as D
from engine.interp import (Const, Sym, ListV, TupleV, ObjV, TypeV, DocV, NONE, Undecided, Raised, PathLimit, Interp, prov)
from engine.loader import AnalysisError, ClassInfo

_NODE = ast.parse('class ModelCallable:\n    pass\n').body[0]


def _text(v):
    if isinstance(v, Const) and isinstance(v.v, str):
        return v.v
    if isinstance(v, DocV):
        t = D.text_of(v.t)
        return t if t is not None else D.show(v.t)
    return prov(v) if v is not None else None


def run(repo, rep, rule):
    m = repo.module('prettyprinter')
    gi = m.funcs.get('general_identifier')
    ca = m.funcs.get('classattr')
    if gi is None:
        raise AnalysisError('general_identifier vanished')
    it = Interp(repo, {}, max_paths=8)
    it.concrete_context = True
    info = ClassInfo(None, _NODE)

    def mk(module, qualname, self_type_module=None, has_self=False, callable_=True):
        o = ObjV(info)
        o.attrs.update({'__module__': NONE if module is None else Const(module), '__qualname__': Const(qualname), '__name__': Const(qualname.split('.')[-1]),
                        '__callable__': Const(callable_)})
        if has_self:
            selfobj = ObjV(info)
            cls = ObjV(info)
            cls.attrs.update({'__module__': Const(self_type_module), '__qualname__': Const('SelfType'), '__name__': Const('SelfType'), '__callable__': Const(True)})
            selfobj.attrs['__class__'] = cls
            selfobj.attrs['__callable__'] = Const(False)
            o.attrs['__self__'] = selfobj
        return o
    cases = [
        ('class in a package', mk('pkg.mod', 'Outer.Inner'), 'pkg.mod.Outer.Inner'),
        ('builtin type', mk('builtins', 'frozenset'), 'frozenset'),
        ('class defined in __main__', mk('__main__', 'Foo'), 'Foo'),
        ('class in a private module', mk('_private', 'Thing'), '_private.Thing'),
        ('class in a module whose name starts like builtins', mk('builtins_extra', 'X'), 'builtins_extra.X'),
        ('builtin method without a module, bound to a builtin object', mk(None, 'dict.fromkeys', 'builtins', True), 'dict.fromkeys'),
        ('builtin method without a module, bound to an extension object', mk(None, 'Obj.make', 'ext', True), 'ext.Obj.make'),
        ('bound class method of a package class (its __self__ is the class, whose type lives elsewhere)', mk('shapes', 'Angle.from_degrees', 'abc', True), 'shapes.Angle.from_degrees'),
        ('function in a package', mk('pkg.util', 'helper'), 'pkg.util.helper'),
        ('a plain name (not callable)', Const('some_name'), 'some_name'),
    ]
    n = 0
    for label, value, want in cases:
        n += 1
        try:
            it.paths_run = 0
            prs = it.explore(gi, [value], {})
        except (Undecided, PathLimit) as e:
            rep.undecided(rule, 'general_identifier[%s]' % label, gi.where, str(e))
            continue
        if len(prs) != 1:
            rep.undecided(rule, 'general_identifier[%s]' % label, gi.where, '%d abstract paths on a concrete callable: %s' % (len(prs), [p.fact_text() for p in prs][:2]))
            continue
        got = _text(prs[0].value) if prs[0].raised is None else 'raises %s' % prs[0].raised.what
        rep.check(got == want, rule, 'general_identifier[%s]' % label, gi.where, 'shown as %s' % want,
                  'general_identifier of a %s is shown as %r, the evaluable name is %r' % (label, got, want), nontrivial=True)
    if ca is not None:
        for label, value, want in (('enum member of a package class', mk('pkg.colors', 'Color'), 'pkg.colors.Color.RED'), ('member of a __main__ class', mk('__main__', 'Color'), 'Color.RED')):
            n += 1
            try:
                it.paths_run = 0
                prs = it.explore(ca, [value, Const('RED')], {})
            except (Undecided, PathLimit) as e:
                rep.undecided(rule, 'classattr[%s]' % label, ca.where, str(e))
                continue
            got = _text(prs[0].value) if len(prs) == 1 and prs[0].raised is None else None
            rep.check(got == want, rule, 'classattr[%s]' % label, ca.where, 'shown as %s' % want,
                      'classattr(<%s>, "RED") is shown as %r, expected %r (<qualified class>.<member name>)' % (label, got, want), nontrivial=True)
    return n
