"""C16 -- colored output is the plain output plus well-nested styling."""
import ast
import os

from engine import foreign
from engine.astutil import src, call_name
from engine.loader import AnalysisError

META = {
    'text': 'The coloured renderer, the plain renderer and the style builder are interpreted abstractly (no execution) on small '
            'concrete annotated sdoc sequences - texts, line breaks, balanced push/pop pairs of syntax tokens and of other '
            'annotation values nested up to depth 3, all ordered pairs of style profiles side by side and nested, every Token '
            'member once - against models of the stream, the pygments style (a chosen attribute profile per token) and the '
            'colorful module (style names resolved under colorful\'s own grammar, read from the installed sources, against the '
            'current palette at attribute access; & concatenates). What is written is decoded by an SGR state machine and '
            'compared with the specification: (f) styling removed, the text equals what the plain renderer writes on the same '
            'input; (b) every non-blank character carries exactly the attributes of the innermost enclosing syntax token, the '
            'enclosing style is back after an inner token ends, each call uses the style it is given (default style when '
            'omitted); (c) the final state is the reset state; (a) every Token member has a mapping and renders, every '
            'Token.X mentioned in the package is a member, every annotation the printers create is a Token member or a comment '
            'annotation; (d,e) for all 32 combinations of color/bgcolor/bold/italic/underline the style is accepted by '
            'colorful, starts from reset and sets exactly what was asked. Pygments style resolution and terminal behaviour '
            'are NOT decided; whitespace characters are not attributed.',
    'note': 'the colorful model (eager resolution in __getattr__, __and__ concatenation, __str__ = start codes) was read from '
            'the installed colorful 0.5 sources and is an assumption of the check; results are specific to the installed versions',
    'technique': 'static analysis: abstract interpretation of both renderers on small concrete scenarios with foreign models, '
                 'SGR-state decoding of the recorded writes; exhaustiveness over an enum; foreign attribute universe',
}
META['text'] += ' Round 5: the coloured and plain renderers are also interpreted on sdoc streams longer (in items and characters) than every size constant they read; io.StringIO is modelled.'


def _colorful_grammar():
    path = foreign.find_source('colorful.ansi')
    if path is None:
        raise AnalysisError('the installed colorful package has no readable source (colorful.ansi)')
    mods = foreign.dict_literal_keys(path, 'MODIFIERS')
    if not mods:
        raise AnalysisError('colorful.ansi.MODIFIERS is no longer a dict literal')
    core = foreign.find_source('colorful.core')
    real = foreign.class_universe_from_source(core, 'Colorful') if core else set()
    # default palette names (X11 rgb.txt shipped with colorful)
    palette = set()
    data = os.path.join(os.path.dirname(path), 'data', 'rgb.txt')
    if os.path.exists(data):
        with open(data, encoding='utf-8', errors='replace') as f:
            for line in f:
                parts = line.split()
                if len(parts) >= 4 and not line.startswith('!'):
                    palette.add(''.join(parts[3:]))
    return set(mods), real, palette


def _style_ok(name, modifiers, palette):
    """colorful.core.translate_style: modifiers* [fg ['_' any '_' bg] | 'on' '_' bg]"""
    parts = name.split('_')
    i = 0
    while i < len(parts) and parts[i] in modifiers:
        i += 1
    if i == len(parts):
        return True, ''
    if parts[i] != 'on':
        if parts[i] not in palette:
            return False, 'color "%s" is not in the palette' % parts[i]
        i += 1
        if i == len(parts):
            return True, ''
        i += 1      # the 'on' keyword (consumed unchecked by colorful)
    else:
        i += 1
    if i >= len(parts):
        return True, ''
    if parts[i] not in palette:
        return False, 'background color "%s" is not in the palette' % parts[i]
    return True, ''


def run(repo, rep):
    rep.explanation = ('R-EXH token table (C16.a), R-PAIR colour-stack handlers (C16.b), final reset (C16.c), reset-based '
                       'styles (C16.d), R-ATTR colorful attribute universe with string-set propagation (C16.e), R-SIB '
                       'renderer agreement (C16.f).')
    rep.not_decided = 'pygments style resolution; terminal behaviour; colorful emitting nothing when stdout is not a tty.'
    rep.assumptions = ['installed colorful/pygments sources are the ones used at run time']
    m = repo.module('color')
    syn = repo.module('syntax')
    tok = syn.classes.get('Token')
    if tok is None:
        raise AnalysisError('syntax.Token vanished')
    members = [t.id for st in tok.node.body if isinstance(st, ast.Assign) for t in st.targets if isinstance(t, ast.Name)]
    rep.analysed['token_members'] = members

    # ---------------------------------------------------------------- C16.a
    n = 0
    table = m.assigns.get(__import__('engine.roles', fromlist=['x']).name(repo, 'token_table'))
    if not table or not isinstance(table[-1], ast.Dict):
        raise AnalysisError('token table is no longer a dict literal')
    keys = [src(k) for k in table[-1].keys]
    for mem in members:
        n += 1
        rep.check('Token.' + mem in keys, 'C16.a', 'table-has:%s' % mem, '%s:%d' % (m.relpath, table[-1].lineno),
                  'token has a pygments mapping',
                  'Token.%s has no entry in the token->pygments table: rendering a document annotated with it raises KeyError' % mem,
                  nontrivial=True)
    dup = sorted({k for k in keys if keys.count(k) > 1})
    if dup:
        rep.note('token table lists %s more than once (the later entry wins; not a violation)' % dup)
    for mod in repo.modules.values():
        for node in ast.walk(mod.tree):
            if isinstance(node, ast.Attribute) and isinstance(node.value, ast.Name) and node.value.id == 'Token' \
                    and not node.attr.startswith('__'):
                r = repo.resolve(mod, 'Token')
                if not (r and r[0] == 'class' and r[1] is tok):
                    continue
                n += 1
                rep.check(node.attr in members, 'C16.a', 'reference:%s:Token.%s' % (mod.name.split('.')[-1], node.attr),
                          '%s:%d' % (mod.relpath, node.lineno), 'referenced token exists',
                          'Token.%s is not a member of the Token enum' % node.attr)
    # annotation values created in the core
    for mod in repo.modules.values():
        if '.extras' in mod.name:
            continue
        for f in mod.funcs.values():
            pass
        for node in ast.walk(mod.tree):
            if isinstance(node, ast.Call) and call_name(node) == 'annotate' and node.args:
                a = node.args[0]
                vals = [a.body, a.orelse] if isinstance(a, ast.IfExp) else [a]
                for v in vals:
                    if isinstance(v, ast.Name) and v.id in ('annotation',):
                        continue    # the generic combinator's own parameter
                    n += 1
                    def is_member(x):
                        return isinstance(x, ast.Attribute) and src(x.value) == 'Token' and x.attr in members
                    ok = is_member(v) or (isinstance(v, ast.Call) and call_name(v) == 'CommentAnnotation')
                    if not ok and isinstance(v, ast.Subscript) and isinstance(v.value, ast.Name):
                        # an element of a module-level table (tuple / list / dict display) all of whose values are Token members
                        tabs = mod.assigns.get(v.value.id, [])
                        if len(tabs) == 1 and isinstance(tabs[0], (ast.Tuple, ast.List, ast.Dict)):
                            elts = tabs[0].values if isinstance(tabs[0], ast.Dict) else tabs[0].elts
                            ok = bool(elts) and all(is_member(e_) for e_ in elts)
                    if not ok and isinstance(v, ast.Name):
                        # a local name bound only to Token members (token = Token.A if ... else Token.B)
                        fn_ = next((f_ for f_ in mod.funcs.values() if any(x_ is node for x_ in ast.walk(f_.node))), None)
                        if fn_ is not None:
                            binds = [s_.value for s_ in ast.walk(fn_.node) if isinstance(s_, ast.Assign) and any(isinstance(t_, ast.Name) and t_.id == v.id for t_ in s_.targets)]
                            flat = []
                            for b_ in binds:
                                flat += [b_.body, b_.orelse] if isinstance(b_, ast.IfExp) else [b_]
                            ok = bool(flat) and all(is_member(b_) for b_ in flat) and v.id not in fn_.params
                    rep.check(ok, 'C16.a', 'annotation-value:%s@%s' % (src(v), _fn_of(mod, node)), '%s:%d' % (mod.relpath, node.lineno),
                              'annotation is a Token member or a comment annotation',
                              'annotate(%s, ...) creates an annotation that is neither a Token member nor a CommentAnnotation' % src(v))
    rep.floor('C16.a', n, 14 + 30)

    # ---------------------------------------------------------------- C16.a(2) / b / c / f  -- the renderer, semantically
    from . import c16_render
    c16_render.run(repo, rep, members)

    # ---------------------------------------------------------------- C16.d / C16.e  -- style attributes -> colorful style
    modifiers, real, palette = _colorful_grammar()
    rep.analysed['colorful_modifiers'] = sorted(modifiers)
    rep.analysed['colorful_palette_size'] = len(palette)
    n = 0
    # literal attributes, all functions of color.py (robust existence rule)
    for fn in m.funcs.values():
        for a in ast.walk(fn.node):
            if isinstance(a, ast.Attribute) and isinstance(a.value, ast.Name) and a.value.id == 'colorful':
                n += 1
                ok, why = (True, '') if a.attr in real else _style_ok(a.attr, modifiers, palette)
                rep.check(ok, 'C16.e', '%s:colorful.%s' % (fn.qualname, a.attr), '%s:%d' % (m.relpath, a.lineno),
                          'attribute exists in colorful (method or style name)',
                          'colorful.%s does not parse as a colorful style (%s; modifiers are %s): ColorfulAttributeError at render time'
                          % (a.attr, why or 'unknown name', sorted(modifiers)), nontrivial=True)
    n += c16_render.style_builder(repo, rep, modifiers, real, palette, _style_ok)
    sf = m.funcs.get('styleattrs_to_colorful')
    # pygments attribute keys used exist in what style_for_token returns
    psrc = foreign.find_source('pygments.style')
    used = sorted({n_.slice.value for n_ in ast.walk(sf.node) if isinstance(n_, ast.Subscript)
                   and isinstance(n_.slice, ast.Constant) and src(n_.value) == sf.params[0]})
    if psrc:
        tree = foreign.module_ast(psrc)
        produced = set()
        for fn in ast.walk(tree):
            if isinstance(fn, ast.FunctionDef) and fn.name == 'style_for_token':
                for d in ast.walk(fn):
                    if isinstance(d, ast.Dict):
                        produced |= {k.value for k in d.keys if isinstance(k, ast.Constant)}
        for k in used:
            n += 1
            rep.check(k in produced, 'C16.e', 'pygments-attr:%s' % k, sf.where, 'key produced by pygments style_for_token',
                      "attrs[%r] is read but pygments' style_for_token produces %s" % (k, sorted(produced)))
    rep.floor('C16.d+e', n, 13)


def _fn_of(mod, node):
    best = '<module>'
    for f in mod.funcs.values():
        if f.node.lineno <= node.lineno <= (f.node.end_lineno or f.node.lineno):
            best = f.qualname
    return best
