"""C16 -- colored output is the plain output plus well-nested styling."""
import ast
import itertools
import os

from engine import foreign
from engine.astutil import src, call_name, dotted, Guards, enclosing_map
from engine.loader import AnalysisError
from engine.switch import enumerate_paths
from .c04 import _renderer_facts

META = {
    'text': 'Static rules over color.py, syntax.py and every annotate() site: (a) the token->pygments table has a key for '
            'every member of the Token enum, every Token.X mentioned in the package is a member, every annotation the '
            'printers create is a Token member or a comment annotation; (b) the push and pop handlers of the colour stack '
            'are guarded by the same predicate on the annotation value, push appends exactly one colour and writes it, '
            'pop removes one and writes the new top or reset; (c) a non-empty stack is reset after the loop; (d) every '
            'style string is built up from reset; (e) every attribute fetched from the colorful module - literal or '
            'getattr with a constant-propagated finite string set - parses under colorful\'s style grammar read from the '
            'installed colorful sources, and the pygments attribute keys used exist; (f) the coloured renderer agrees with '
            'the plain one on line splitting, text, line breaks and rstrip, and writes only style strings in its extra '
            'branches. Pygments style resolution and terminal behaviour are NOT decided.',
    'note': 'the colorful grammar (modifiers, fg_on_bg / on_bg, palette names) is read with ast from the installed colorful; '
            'results are specific to the installed colorful/pygments versions',
    'technique': 'static analysis: exhaustiveness over an enum, sibling agreement of two renderers, typestate symmetry of '
                 'push/pop guards, constant-string propagation over feasible paths + foreign attribute universe',
}


def _feasible(conds):
    """is there a truth assignment of the atomic sub-tests making every (test, polarity) hold?"""
    atoms = []
    parsed = []
    for text, pol in conds:
        try:
            t = ast.parse(text, mode='eval').body
        except SyntaxError:
            return True
        parsed.append((t, pol))

        def leaves(n):
            if isinstance(n, ast.BoolOp):
                for v in n.values:
                    leaves(v)
            elif isinstance(n, ast.UnaryOp) and isinstance(n.op, ast.Not):
                leaves(n.operand)
            else:
                s = src(n)
                if s not in atoms:
                    atoms.append(s)
        leaves(t)
    if len(atoms) > 10:
        return True

    def ev(n, env):
        if isinstance(n, ast.BoolOp):
            vals = [ev(v, env) for v in n.values]
            return all(vals) if isinstance(n.op, ast.And) else any(vals)
        if isinstance(n, ast.UnaryOp) and isinstance(n.op, ast.Not):
            return not ev(n.operand, env)
        return env[src(n)]
    for bits in itertools.product([False, True], repeat=len(atoms)):
        env = dict(zip(atoms, bits))
        if all(ev(t, env) == pol for t, pol in parsed):
            return True
    return False


def _colorful_grammar():
    path = foreign.find_source('colorful.ansi')
    if path is None:
        raise AnalysisError('the installed colorful package has no readable source (colorful.ansi)')
    mods = foreign.dict_literal_keys(path, 'MODIFIERS')
    if not mods:
        raise AnalysisError('colorful.ansi.MODIFIERS is no longer a dict literal')
    core = foreign.find_source('colorful.core')
    real = foreign.class_universe_from_source(core, 'Colorful') if core else set()
    # default palette names (X11 rgb.txt shipped with colorful)
    palette = set()
    data = os.path.join(os.path.dirname(path), 'data', 'rgb.txt')
    if os.path.exists(data):
        with open(data, encoding='utf-8', errors='replace') as f:
            for line in f:
                parts = line.split()
                if len(parts) >= 4 and not line.startswith('!'):
                    palette.add(''.join(parts[3:]))
    return set(mods), real, palette


def _style_ok(name, modifiers, palette):
    """colorful.core.translate_style: modifiers* [fg ['_' any '_' bg] | 'on' '_' bg]"""
    parts = name.split('_')
    i = 0
    while i < len(parts) and parts[i] in modifiers:
        i += 1
    if i == len(parts):
        return True, ''
    if parts[i] != 'on':
        if parts[i] not in palette:
            return False, 'color "%s" is not in the palette' % parts[i]
        i += 1
        if i == len(parts):
            return True, ''
        i += 1      # the 'on' keyword (consumed unchecked by colorful)
    else:
        i += 1
    if i >= len(parts):
        return True, ''
    if parts[i] not in palette:
        return False, 'background color "%s" is not in the palette' % parts[i]
    return True, ''


def run(repo, rep):
    rep.explanation = ('R-EXH token table (C16.a), R-PAIR colour-stack handlers (C16.b), final reset (C16.c), reset-based '
                       'styles (C16.d), R-ATTR colorful attribute universe with string-set propagation (C16.e), R-SIB '
                       'renderer agreement (C16.f).')
    rep.not_decided = 'pygments style resolution; terminal behaviour; colorful emitting nothing when stdout is not a tty.'
    rep.assumptions = ['installed colorful/pygments sources are the ones used at run time']
    m = repo.module('color')
    syn = repo.module('syntax')
    tok = syn.classes.get('Token')
    if tok is None:
        raise AnalysisError('syntax.Token vanished')
    members = [t.id for st in tok.node.body if isinstance(st, ast.Assign) for t in st.targets if isinstance(t, ast.Name)]
    rep.analysed['token_members'] = members

    # ---------------------------------------------------------------- C16.a
    n = 0
    table = m.assigns.get('_SYNTAX_TOKEN_TO_PYGMENTS_TOKEN')
    if not table or not isinstance(table[-1], ast.Dict):
        raise AnalysisError('token table is no longer a dict literal')
    keys = [src(k) for k in table[-1].keys]
    for mem in members:
        n += 1
        rep.check('Token.' + mem in keys, 'C16.a', 'table-has:%s' % mem, '%s:%d' % (m.relpath, table[-1].lineno),
                  'token has a pygments mapping',
                  'Token.%s has no entry in the token->pygments table: rendering a document annotated with it raises KeyError' % mem,
                  nontrivial=True)
    dup = sorted({k for k in keys if keys.count(k) > 1})
    if dup:
        rep.note('token table lists %s more than once (the later entry wins; not a violation)' % dup)
    for mod in repo.modules.values():
        for node in ast.walk(mod.tree):
            if isinstance(node, ast.Attribute) and isinstance(node.value, ast.Name) and node.value.id == 'Token' \
                    and not node.attr.startswith('__'):
                r = repo.resolve(mod, 'Token')
                if not (r and r[0] == 'class' and r[1] is tok):
                    continue
                n += 1
                rep.check(node.attr in members, 'C16.a', 'reference:%s:Token.%s' % (mod.name.split('.')[-1], node.attr),
                          '%s:%d' % (mod.relpath, node.lineno), 'referenced token exists',
                          'Token.%s is not a member of the Token enum' % node.attr)
    # annotation values created in the core
    for mod in repo.modules.values():
        if '.extras' in mod.name:
            continue
        for f in mod.funcs.values():
            pass
        for node in ast.walk(mod.tree):
            if isinstance(node, ast.Call) and call_name(node) == 'annotate' and node.args:
                a = node.args[0]
                vals = [a.body, a.orelse] if isinstance(a, ast.IfExp) else [a]
                for v in vals:
                    if isinstance(v, ast.Name) and v.id in ('annotation',):
                        continue    # the generic combinator's own parameter
                    n += 1
                    ok = (isinstance(v, ast.Attribute) and src(v.value) == 'Token' and v.attr in members) or \
                        (isinstance(v, ast.Call) and call_name(v) == 'CommentAnnotation')
                    rep.check(ok, 'C16.a', 'annotation-value:%s@%s' % (src(v), _fn_of(mod, node)), '%s:%d' % (mod.relpath, node.lineno),
                              'annotation is a Token member or a comment annotation',
                              'annotate(%s, ...) creates an annotation that is neither a Token member nor a CommentAnnotation' % src(v))
    rep.floor('C16.a', n, 14 + 30)

    # ---------------------------------------------------------------- C16.b / c
    n = 0
    f = m.funcs.get('colored_render_to_stream')
    if f is None:
        raise AnalysisError('colored_render_to_stream vanished')
    g = Guards(f.node)
    stream = f.params[0]
    # the colour stack: the list appended to under the push guard
    appends = [c for c in ast.walk(f.node) if isinstance(c, ast.Call) and isinstance(c.func, ast.Attribute) and c.func.attr == 'append'
               and any(ff.pol and 'SAnnotationPush' in ff.text for ff in g.of(c))]
    if len(appends) != 1:
        raise AnalysisError('cannot identify the colour stack push (found %d appends under the push guard)' % len(appends))
    stack = src(appends[0].func.value)
    pops = [c for c in ast.walk(f.node) if isinstance(c, ast.Call) and call_name(c) == stack + '.pop']
    loopvar = None
    for ff in g.of(appends[0]):
        if ff.pol and ff.text.startswith('isinstance(') and 'SAnnotationPush' in ff.text:
            loopvar = ff.text[len('isinstance('):].split(',')[0]

    def value_guards(node):
        out = set()
        for ff in g.of(node):
            if loopvar and (loopvar + '.value') in ff.text:
                out.add((ff.text, ff.pol))
        return out
    inits = [a for a in ast.walk(f.node) if isinstance(a, ast.Assign) and src(a.targets[0]) == stack]
    par16 = enclosing_map(f.node)
    n += 1
    in_loop = [a for a in inits if any(isinstance(x, (ast.For, ast.While)) for x in _anc16(a, par16))]
    rep.check(len(inits) == 1 and not in_loop and src(inits[0].value) == '[]', 'C16.b', 'stack:initialised-once-before-the-loop', f.where,
              'one colour stack for the whole document',
              'the colour stack is (re)initialised %s: a token spanning several lines loses its enclosing colour and the final reset'
              % ('inside a loop (line %d)' % in_loop[0].lineno if in_loop else '%d times' % len(inits)), nontrivial=True)
    push_guard = value_guards(appends[0])
    n += 1
    rep.check(bool(push_guard), 'C16.b', 'push:guarded-by-token-test', '%s:%d' % (m.relpath, appends[0].lineno),
              'only syntax tokens push a colour', 'the push handler pushes a colour for every annotation')
    n += 1
    rep.check(len(pops) == 1, 'C16.b', 'pop:one-removal', f.where, 'pop handler removes exactly one colour',
              'the pop handler removes %d colours' % len(pops), nontrivial=True)
    for p in pops:
        n += 1
        rep.check(value_guards(p) == push_guard, 'C16.b', 'pop:same-guard-as-push', '%s:%d' % (m.relpath, p.lineno),
                  'pop guarded by the same predicate as push',
                  'the push handler is guarded by %s but the pop handler by %s: the end of a non-token annotation pops the '
                  'enclosing token\'s colour' % (sorted(push_guard), sorted(value_guards(p)) or 'nothing'), nontrivial=True)
        n += 1
        rep.check(any(ff.pol and 'SAnnotationPop' in ff.text for ff in g.of(p)), 'C16.b', 'pop:in-pop-handler',
                  '%s:%d' % (m.relpath, p.lineno), 'removal only on a pop event', 'colour removed outside the SAnnotationPop handler')
    writes = [c for c in ast.walk(f.node) if isinstance(c, ast.Call) and call_name(c) == stream + '.write']
    push_writes = [w for w in writes if any(ff.pol and 'SAnnotationPush' in ff.text for ff in g.of(w))]
    pop_writes = [w for w in writes if any(ff.pol and 'SAnnotationPop' in ff.text for ff in g.of(w))]
    pushed = src(appends[0].args[0])
    n += 1
    rep.check(len(push_writes) == 1 and src(push_writes[0].args[0]) == 'str(%s)' % pushed and value_guards(push_writes[0]) == push_guard,
              'C16.b', 'push:writes-pushed-colour', f.where, 'the colour pushed is the colour written',
              'push handler appends %s but writes %s' % (pushed, [src(w.args[0]) for w in push_writes]), nontrivial=True)
    top = {'str(%s[-1])' % stack}
    reset = {'str(colorful.reset)'}
    n += 1
    ok = len(pop_writes) == 2
    if ok:
        for w in pop_writes:
            fs = g.of(w)
            nonempty = any(ff.pol and ff.text == stack for ff in fs)
            empty = any((not ff.pol) and ff.text == stack for ff in fs)
            a = src(w.args[0])
            ok &= (nonempty and a in top) or (empty and a in reset)
            ok &= value_guards(w) == push_guard
            ok &= w.lineno > pops[0].lineno if pops else False
    rep.check(ok, 'C16.b', 'pop:restores-enclosing-or-reset', f.where, 'after a pop the enclosing colour, or reset, is written',
              'pop handler writes %s' % [(src(w.args[0]), g.texts(w)[-2:]) for w in pop_writes], nontrivial=True)
    # C16.c final reset
    tail = [st for st in f.node.body if isinstance(st, ast.If) and src(st.test) == stack]
    n += 1
    okc = len(tail) == 1 and f.node.body[-1] is tail[0] and len(tail[0].body) == 1 and \
        src(tail[0].body[0]) == '%s.write(str(colorful.reset))' % stream
    rep.check(okc, 'C16.c', 'final-reset', f.where, 'non-empty stack is reset at the end',
              'colored_render_to_stream no longer ends with "if %s: %s.write(str(colorful.reset))"' % (stack, stream), nontrivial=True)
    # cache correctness: colour cached per token value
    rep.floor('C16.b+c', n, 8)

    # ---------------------------------------------------------------- C16.d / C16.e
    n = 0
    sf = m.funcs.get('styleattrs_to_colorful')
    if sf is None:
        raise AnalysisError('styleattrs_to_colorful vanished')
    rets = [r for r in ast.walk(sf.node) if isinstance(r, ast.Return)]
    resvar = src(rets[-1].value) if rets else None
    inits = [s for s in sf.node.body if isinstance(s, ast.Assign) and src(s.targets[0]) == resvar]
    n += 1
    okd = len(rets) == 1 and len(inits) == 1 and src(inits[0].value) == 'colorful.reset' and sf.node.body.index(inits[0]) <= 1
    for s in ast.walk(sf.node):
        if isinstance(s, ast.Assign) and src(s.targets[0]) == resvar and s is not (inits[0] if inits else None):
            okd = False
        if isinstance(s, ast.AugAssign) and src(s.target) == resvar and not isinstance(s.op, ast.BitAnd):
            okd = False
    rep.check(okd, 'C16.d', 'style-built-from-reset', sf.where, 'style = reset & ... on every path',
              'styleattrs_to_colorful no longer starts every style from colorful.reset and only adds to it with &=: re-emitting '
              'an enclosing colour would not cancel inner bold/italic/underline', nontrivial=True)
    modifiers, real, palette = _colorful_grammar()
    rep.analysed['colorful_modifiers'] = sorted(modifiers)
    rep.analysed['colorful_palette_size'] = len(palette)
    # literal attributes, all functions of color.py
    for fn in m.funcs.values():
        for a in ast.walk(fn.node):
            if isinstance(a, ast.Attribute) and isinstance(a.value, ast.Name) and a.value.id == 'colorful':
                n += 1
                ok, why = (True, '') if a.attr in real else _style_ok(a.attr, modifiers, palette)
                rep.check(ok, 'C16.e', '%s:colorful.%s' % (fn.qualname, a.attr), '%s:%d' % (m.relpath, a.lineno),
                          'attribute exists in colorful (method or style name)',
                          'colorful.%s does not parse as a colorful style (%s; modifiers are %s): ColorfulAttributeError at render time'
                          % (a.attr, why or 'unknown name', sorted(modifiers)), nontrivial=True)
    # computed attributes: getattr(colorful, X) with X constant-propagated over feasible paths
    paths = [p for p in enumerate_paths(sf.node.body, '__none__', {}) if _feasible(p.conds)]
    rep.count(len(paths))
    seen = {}
    for p in paths:
        strs = {}
        installed = set()
        for e in p.events:
            if e[0] == 'set':
                name, op, val = e[1], e[2], e[3]
                sval = _str_value(val, strs)
                if op == '=':
                    strs[name] = sval
                elif op == '+=' and sval is not None and strs.get(name) is not None:
                    strs[name] = strs[name] + sval
                elif op in ('+=',):
                    strs[name] = None
            if e[0] == 'call' and e[1] == 'colorful.update_palette':
                try:
                    d = ast.parse(e[2][0], mode='eval').body
                    if isinstance(d, ast.Dict):
                        installed |= {k.value for k in d.keys if isinstance(k, ast.Constant)}
                except (SyntaxError, IndexError):
                    pass
            if e[0] == 'call' and e[1] == 'getattr' and e[2] and e[2][0] == 'colorful':
                acc = _str_value(e[2][1], strs) if len(e[2]) > 1 else None
                key = (acc, tuple(sorted(installed)))
                if key in seen:
                    continue
                seen[key] = p
                n += 1
                if acc is None:
                    rep.undecided('C16.e', 'getattr(colorful, %s)' % e[2][1], '%s:%d' % (m.relpath, e[4]),
                                  'accessor is not a constant string on path (%s)' % p.cond_text())
                    continue
                ok, why = _style_ok(acc, modifiers, palette | installed)
                rep.check(ok, 'C16.e', 'getattr(colorful, %r)' % acc, '%s:%d' % (m.relpath, e[4]),
                          'computed style name parses',
                          'on path (%s) the style name %r is fetched from colorful: %s: ColorfulAttributeError at render time'
                          % (p.cond_text(), acc, why), nontrivial=True)
    # pygments attribute keys used exist in what style_for_token returns
    psrc = foreign.find_source('pygments.style')
    used = sorted({n_.slice.value for n_ in ast.walk(sf.node) if isinstance(n_, ast.Subscript)
                   and isinstance(n_.slice, ast.Constant) and src(n_.value) == sf.params[0]})
    if psrc:
        tree = foreign.module_ast(psrc)
        produced = set()
        for fn in ast.walk(tree):
            if isinstance(fn, ast.FunctionDef) and fn.name == 'style_for_token':
                for d in ast.walk(fn):
                    if isinstance(d, ast.Dict):
                        produced |= {k.value for k in d.keys if isinstance(k, ast.Constant)}
        for k in used:
            n += 1
            rep.check(k in produced, 'C16.e', 'pygments-attr:%s' % k, sf.where, 'key produced by pygments style_for_token',
                      "attrs[%r] is read but pygments' style_for_token produces %s" % (k, sorted(produced)))
    rep.floor('C16.d+e', n, 13)

    # ---------------------------------------------------------------- C16.f
    n = _renderer_facts(rep, m, f, 'C16.f', allow_extra_writes=True)
    # the same line splitter as the plain renderer
    r = repo.resolve(m, 'as_lines')
    n += 1
    rep.check(bool(r) and r[0] == 'func' and r[1].module.name.endswith('.render') and
              any(isinstance(c, ast.Call) and call_name(c) == 'as_lines' for c in ast.walk(f.node)), 'C16.f',
              'same-line-splitter', f.where, 'coloured renderer uses render.as_lines', 'coloured renderer does not split lines with render.as_lines')
    # extra writes are style strings only
    for w in writes:
        a = src(w.args[0])
        fs = g.of(w)
        if any(ff.pol and ff.text in ('isinstance(%s, str)' % loopvar, 'isinstance(%s, SLine)' % loopvar) for ff in fs):
            continue
        n += 1
        rep.check(a.startswith('str(') and ('color' in a or stack in a), 'C16.f', 'extra-write:%s' % a, '%s:%d' % (m.relpath, w.lineno),
                  'only style strings are written besides text and line breaks',
                  'the coloured renderer writes %s besides text, line breaks and style strings' % a, nontrivial=True)
    from .c04 import utils_rules
    n += utils_rules(repo, rep, 'C16.f')
    rep.floor('C16.f', n, 9)


def _anc16(node, par):
    out = []
    p = par.get(id(node))
    while p is not None:
        out.append(p)
        p = par.get(id(p))
    return out


def _fn_of(mod, node):
    best = '<module>'
    for f in mod.funcs.values():
        if f.node.lineno <= node.lineno <= (f.node.end_lineno or f.node.lineno):
            best = f.qualname
    return best


def _str_value(text, strs):
    try:
        n = ast.parse(text, mode='eval').body
    except SyntaxError:
        return None

    def ev(n):
        if isinstance(n, ast.Constant) and isinstance(n.value, str):
            return n.value
        if isinstance(n, ast.Name):
            return strs.get(n.id)
        if isinstance(n, ast.BinOp) and isinstance(n.op, ast.Add):
            a, b = ev(n.left), ev(n.right)
            return a + b if a is not None and b is not None else None
        if isinstance(n, ast.IfExp):
            t = ev(n.test) if isinstance(n.test, (ast.Name, ast.Constant)) else None
            if t is None:
                return None
            return ev(n.body) if t else ev(n.orelse)
        return None
    return ev(n)
