"""Semantic model check of the context class (PrettyContext) by abstract interpretation of its own methods.

The printers are interpreted against a built-in model of the context (CtxV: nested_call decrements depth_left and
keeps everything else, use_multiline_strategy changes only the strategy, the visited set is shared by all derived
contexts and fresh per construction).  This module verifies that model against the class's *source*: the methods are
interpreted on an object with symbolic fields and the resulting objects are compared field by field (identity for
'kept', provenance for 'changed').  Independent of how _replace / __init__ are written."""
from engine.interp import (Const, Sym, SymStr, SetV, DictV, ObjV, TypeV, ListV, TupleV, Undecided, Raised, PathLimit, NONE, prov)
from engine.loader import AnalysisError
from . import shape as S

FIELDS = ['indent', 'depth_left', 'visited', 'multiline_strategy', 'max_seq_len', 'sort_dict_keys', 'user_ctx']


def _fresh(repo):
    it = S.interp(repo, 'builder')
    it.concrete_context = True
    return it


def facts(repo):
    """returns dict of named boolean facts (or raises AnalysisError)"""
    m = repo.module('prettyprinter')
    ci = m.classes.get('PrettyContext')
    if ci is None:
        raise AnalysisError('PrettyContext vanished')
    out = {}
    it = _fresh(repo)
    T = TypeV('PrettyContext')
    given = SetV([])
    base_kw = {'indent': Sym('I'), 'depth_left': Sym('D'), 'visited': given, 'multiline_strategy': Sym('M'),
               'max_seq_len': Sym('N'), 'sort_dict_keys': Sym('S'), 'user_ctx': DictV([(Const('u'), Sym('U'))])}
    try:
        ctx = it.construct(T, [], dict(base_kw), None)
    except (Undecided, Raised) as e:
        raise AnalysisError('PrettyContext cannot be interpreted: %s' % e)
    attrs = ctx.attrs
    out['fields'] = sorted(attrs)
    for f in ('indent', 'depth_left', 'max_seq_len', 'sort_dict_keys', 'multiline_strategy', 'visited'):
        out['ctor:stores:' + f] = attrs.get(f) is base_kw[f]
    # visited omitted / None -> a fresh, empty set per construction
    try:
        a = it.construct(T, [], {'indent': Sym('I'), 'depth_left': Sym('D')}, None)
        b = it.construct(T, [], {'indent': Sym('I'), 'depth_left': Sym('D')}, None)
        c = it.construct(T, [], {'indent': Sym('I'), 'depth_left': Sym('D'), 'visited': NONE}, None)
        va, vb, vc = a.attrs.get('visited'), b.attrs.get('visited'), c.attrs.get('visited')
        out['ctor:fresh-visited'] = isinstance(va, SetV) and isinstance(vb, SetV) and isinstance(vc, SetV) and va is not vb \
            and not va.items and not vb.items and not vc.items
    except (Undecided, Raised) as e:
        out['ctor:fresh-visited'] = False
        out['ctor:fresh-visited:why'] = str(e)

    def derived(method, args):
        it2 = _fresh(repo)
        c0 = it2.construct(T, [], dict(base_kw), None)
        r = it2.call_method(c0, method, args, {}, None)
        return c0, r
    specs = {
        'nested_call': ([], {'depth_left': lambda v: isinstance(v, Sym) and v.prov == '(D-1)'}),
        'use_multiline_strategy': ([Sym('X')], {'multiline_strategy': lambda v: isinstance(v, Sym) and v.prov == 'X'}),
        'assoc': ([Const('k'), Sym('V')], {'user_ctx': lambda v: isinstance(v, DictV) and v.get(Const('k')) is not None
                                           and prov(v.get(Const('k'))) == 'V' and v.get(Const('u')) is not None}),
    }
    for meth, (args, changed) in specs.items():
        if meth not in ci.methods:
            out['%s:exists' % meth] = False
            continue
        try:
            c0, r = derived(meth, args)
        except (Undecided, Raised) as e:
            out['%s:interpretable' % meth] = False
            out['%s:why' % meth] = str(e)
            continue
        ok_obj = isinstance(r, ObjV) and r is not c0 and r.cls is ci
        out['%s:returns-new-context' % meth] = ok_obj
        if not ok_obj:
            continue
        for f in FIELDS:
            if f in changed:
                out['%s:sets:%s' % (meth, f)] = bool(changed[f](r.attrs.get(f)))
            else:
                out['%s:keeps:%s' % (meth, f)] = r.attrs.get(f) is c0.attrs.get(f)
        # the original is not modified
        out['%s:original-unchanged' % meth] = all(c0.attrs.get(f) is base_kw[f] for f in ('indent', 'depth_left', 'visited', 'max_seq_len'))
    # visit bookkeeping is keyed by id(value) on the shared set
    try:
        it3 = _fresh(repo)
        vis = SetV([])
        kw = dict(base_kw)
        kw['visited'] = vis
        c0 = it3.construct(T, [], kw, None)
        v = Sym('val')
        from .wrapper import context_roles
        roles = context_roles(repo)
        acq, rel, tst = roles['acquire'].name, roles['release'].name if roles['release'] else None, roles['test'].name if roles['test'] else None
        before = it3.call_method(c0, tst, [v], {}, None) if tst else None
        it3.call_method(c0, acq, [v], {}, None)
        out['visit:acquire-adds-id'] = [prov(x) for x in vis.items] == ['id(val)']
        during = it3.call_method(c0, tst, [v], {}, None) if tst else None
        other = it3.call_method(c0, tst, [Sym('other')], {}, None) if tst else None
        if rel:
            it3.call_method(c0, rel, [v], {}, None)
        out['visit:release-removes-id'] = vis.items == []
        out['visit:test-is-membership-of-id'] = isinstance(before, Const) and before.v is False and isinstance(during, Const) and during.v is True
    except (Undecided, Raised, AnalysisError) as e:
        out['visit:interpretable'] = False
        out['visit:why'] = str(e)
    return out


def report(repo, rep, rule, select, why=''):
    """record the selected model facts as rule instances; returns the count"""
    f = facts(repo)
    ci = repo.cls('prettyprinter', 'PrettyContext')
    n = 0
    for k, v in sorted(f.items()):
        if k == 'fields' or k.endswith(':why') or not select(k):
            continue
        n += 1
        rep.check(bool(v), rule, 'context-model:' + k, ci.where, 'interpreted context class agrees with the model',
                  '%sinterpreting PrettyContext gives %s = %s%s' % ((why + ': ') if why else '', k, v,
                                                                  (' (' + f.get(k.rsplit(':', 1)[0] + ':why', '') + ')') if f.get(k.rsplit(':', 1)[0] + ':why') else ''),
                  nontrivial=True)
    return n


def _may_be_context(expr, f, depth=0):
    """the receiver expression can denote a PrettyContext: rooted (through attribute / call chains) in a name that is a context
    parameter (``ctx``, ``*_ctx``, ``context``) or was assigned from such an expression, or the result of constructing the class"""
    import ast
    if isinstance(expr, (ast.ListComp, ast.GeneratorExp, ast.SetComp)):
        return _may_be_context(expr.elt, f, depth + 1)
    if isinstance(expr, (ast.List, ast.Tuple)) and expr.elts:
        return any(_may_be_context(e, f, depth + 1) for e in expr.elts)
    cur = expr
    while isinstance(cur, (ast.Attribute, ast.Call, ast.Subscript)):
        if isinstance(cur, ast.Call):
            if isinstance(cur.func, ast.Name) and cur.func.id == 'PrettyContext':
                return True
            cur = cur.func
        else:
            cur = cur.value
    if not isinstance(cur, ast.Name):
        return True         # unknown shape: keep the rule
    name = cur.id
    if name in ('ctx', 'context', 'self') or name.endswith('ctx') or name.endswith('context'):
        return True
    if depth > 3:
        return True
    defs = [a.value for a in ast.walk(f.node) if isinstance(a, ast.Assign) and any(isinstance(t, ast.Name) and t.id == name for t in a.targets)]
    if not defs:
        # a parameter or loop variable of unknown origin: a context only if it is named like one (handled above)
        return name in f.params and 'ctx' in name.lower()
    return any(_may_be_context(d, f, depth + 1) for d in defs if not isinstance(d, (ast.Constant, ast.List, ast.Tuple, ast.Dict)))


_DERIVE_CACHE = {}


def _derives_like_public(repo, f, call):
    """f is a module-level function whose parameter is the receiver of the private call; interpreted on a context with symbolic fields
    (other parameters unknown) it returns, on every path, a context of the same class that keeps indent, max_seq_len, sort_dict_keys,
    user_ctx and the visited set (the same objects) and whose depth_left is the old one or the old one minus 1"""
    import ast
    key = (id(repo), f.key)
    if key in _DERIVE_CACHE and _DERIVE_CACHE[key][0] is repo:
        return _DERIVE_CACHE[key][1]
    ok = False
    try:
        recv = call.func.value
        if f.cls is None and f.parent is None and isinstance(recv, ast.Name) and recv.id in f.params:
            it = _fresh(repo)
            T = TypeV('PrettyContext')
            given = SetV([])
            base_kw = {'indent': Sym('I'), 'depth_left': Sym('D', 'int'), 'visited': given, 'multiline_strategy': Sym('M'),
                       'max_seq_len': Sym('N'), 'sort_dict_keys': Sym('S'), 'user_ctx': DictV([(Const('u'), Sym('U'))])}
            c0 = it.construct(T, [], dict(base_kw), None)
            args = [c0 if p_ == recv.id else Sym('ARG_' + p_) for p_ in f.params]
            prs = it.explore(f, args, {})
            ok = bool(prs)
            for pr in prs:
                r = pr.value
                if pr.raised is not None or not (isinstance(r, ObjV) and r.cls.name == 'PrettyContext'):
                    ok = False
                    break
                for fld in ('indent', 'max_seq_len', 'sort_dict_keys', 'user_ctx', 'visited'):
                    if r.attrs.get(fld) is not c0.attrs.get(fld):
                        ok = False
                d = r.attrs.get('depth_left')
                if not (d is c0.attrs.get('depth_left') or (isinstance(d, Sym) and d.prov.replace(' ', '') in ('(D-1)', 'D-1'))):
                    ok = False
    except (Undecided, Raised, PathLimit, AnalysisError):
        ok = False
    _DERIVE_CACHE.clear()
    _DERIVE_CACHE[key] = (repo, ok)
    return ok


def construction_sites(repo, rep, rule, why=''):
    """who-may-construct: a context is built from scratch only by the pipeline entry (python_to_sdocs) and by the class itself;
    everybody else derives one from the context it was handed, through the public methods the model above verifies (the private
    copier may be called only inside the class).  Returns the number of instances."""
    import ast
    from engine.astutil import call_name
    m = repo.module('prettyprinter')
    ci = m.classes.get('PrettyContext')
    if ci is None:
        raise AnalysisError('PrettyContext vanished')
    private = {n_ for n_ in ci.methods if n_.startswith('_') and not n_.startswith('__')}
    entry = repo.func('prettyprinter', 'python_to_sdocs')
    n = 0
    seen_entry = False
    for f in repo.all_functions():
        inside_class = f.module is m and f.qualname.startswith('PrettyContext.')
        for c in ast.walk(f.node):
            if not isinstance(c, ast.Call):
                continue
            if isinstance(c.func, ast.Name):
                r = repo.resolve(f.module, c.func.id)
                if r and r[0] == 'class' and r[1] is ci:
                    n += 1
                    ok = inside_class or f is entry
                    seen_entry = seen_entry or f is entry
                    rep.check(ok, rule, 'context-built-from-scratch:%s' % f.qualname, '%s:%d' % (f.module.relpath, c.lineno),
                              'contexts are created by the pipeline entry / the class only',
                              '%s%s builds a PrettyContext from scratch: every setting it does not copy by hand (max_seq_len, sort_dict_keys, '
                              'depth, the visited set, user values) silently falls back to the constructor default for everything printed below'
                              % ((why + ': ') if why else '', f.key), nontrivial=True)
            elif isinstance(c.func, ast.Attribute) and c.func.attr in private and not inside_class and isinstance(c.func.value, ast.Name) \
                    and (repo.resolve(f.module, c.func.value.id) or (None, None))[1] is ci \
                    and {d.id for d in ci.methods[c.func.attr].node.decorator_list if isinstance(d, ast.Name)} & {'classmethod', 'staticmethod'}:
                # an alternative constructor called on the class itself: the same as calling the class
                n += 1
                ok = f is entry
                seen_entry = seen_entry or f is entry
                rep.check(ok, rule, 'context-built-from-scratch:%s' % f.qualname, '%s:%d' % (f.module.relpath, c.lineno),
                          'contexts are created by the pipeline entry / the class only',
                          '%s%s builds a PrettyContext from scratch through %s(): every setting it does not pass on silently falls back to the '
                          'constructor default for everything printed below' % ((why + ': ') if why else '', f.key, c.func.attr), nontrivial=True)
            elif isinstance(c.func, ast.Attribute) and c.func.attr in private and not inside_class and not _may_be_context(c.func.value, f):
                continue        # the receiver is not a context (a namedtuple's _replace, another class's private method)
            elif isinstance(c.func, ast.Attribute) and c.func.attr in private and not inside_class and _derives_like_public(repo, f, c):
                # a helper that calls the private copier on the context it was handed and, interpreted, returns what the public
                # derivation methods return: every setting and the visited set kept, the depth the same or one less
                n += 1
                rep.ok(rule, 'private-context-method:%s:%s' % (f.qualname, c.func.attr), '%s:%d' % (f.module.relpath, c.lineno),
                       'interpreted: derives a context the way nested_call / use_multiline_strategy do')
            elif isinstance(c.func, ast.Attribute) and c.func.attr in private and not inside_class:
                # a private method of the context class called on something that may be a context
                n += 1
                rep.fail(rule, 'private-context-method:%s:%s' % (f.qualname, c.func.attr), '%s:%d' % (f.module.relpath, c.lineno),
                         '%s%s calls the private %s() on a context: fields are overwritten outside the derivation methods the checks verify '
                         '(nested_call, use_multiline_strategy, assoc)' % ((why + ': ') if why else '', f.key, c.func.attr))
    n += 1
    rep.check(seen_entry, rule, 'context-built-by-entry', entry.where, 'python_to_sdocs creates the root context',
              'python_to_sdocs no longer creates the root context itself (a context created elsewhere - at import time, in a default argument - is '
              'shared between calls)', nontrivial=True)
    return n
