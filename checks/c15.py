"""C15 -- printer dispatch follows the class hierarchy for every registration history."""
from engine import effects
from . import shared_state as SS
from engine.loader import AnalysisError

META = {
    'text': 'The registry code itself - register_pretty and its decorator, is_registered, pretty_python_value, the printer '
            'wrapper, the base printer - is interpreted abstractly (no execution) over operation histories on a small class '
            'lattice with single and multiple inheritance (A<B<C, M, D(B,M)), with functools.singledispatch replaced by a '
            'model (registry dict, register stores, dispatch walks the MRO) and opaque printers/predicates. Exhaustively for '
            'all histories of up to two registrations and for all three-step histories registration - lookup - registration '
            '(thorough: longer and random ones), every step and, after each history, a print of every class and is_registered '
            'for every flag combination are compared with the rule the property states: nearest class in the MRO whose latest '
            'registration (direct or by name) counts, else the first-registered accepting predicate, else repr; is_registered '
            'consistent with it; contradictory flags rejected; register_deferred=False leaves all stores untouched; lookups '
            'never change what is dispatched later. Plus who-may-write on the three stores over the whole package. '
            'functools.singledispatch itself (ABC registration, its cache) is NOT decided.',
    'note': 'functools.singledispatch is modelled (nearest registered class in the MRO); classes registered both directly and '
            'by name follow "the latest registration wins"',
    'technique': 'static analysis: abstract interpretation of the registry code over small-scope operation histories against a '
                 'reference specification; effect inventory with who-may-write table',
}
META['text'] += ' Round 5: the registry model has a single-inheritance chain deeper than every size constant of the lookup code and prints instances as elements of lists longer than every size constant of the sequence printer.'

WRITERS = {
    # store -> functions allowed to write it
    '_DEFERRED_DISPATCH_BY_NAME': {'register_pretty.<locals>.decorator', 'is_registered'},
    '_PREDICATE_REGISTRY': {'register_pretty.<locals>.decorator'},
    'pretty_dispatch': {'register_pretty.<locals>.decorator'},
}


def run(repo, rep):
    rep.explanation = ('R-WHO (C15.a); interpreted histories: read-only query (C15.b), nearest class printer (C15.c), lookups leave '
                       'dispatch unchanged (C15.d), is_registered answers (C15.e), predicate order and repr fallback (C15.f), '
                       'registration accepted / overwrite (C15.g), contradictory flags (C15.h).')
    rep.not_decided = 'the dispatch result of a concrete history; functools.singledispatch internals.'
    rep.assumptions = ['functools.singledispatch resolves the nearest registered class in the MRO']
    m = repo.module('prettyprinter')
    shared = effects.shared_objects(repo)
    all_sites = effects.sites(repo, shared)
    isr = m.funcs.get('is_registered')
    rp = m.funcs.get('register_pretty')
    ppv = m.funcs.get('pretty_python_value')
    if not (isr and rp and ppv):
        raise AnalysisError('is_registered / register_pretty / pretty_python_value vanished')

    # ---------------------------------------------------------------- C15.a
    n = 0
    seen_writes = {k: 0 for k in WRITERS}
    for s in all_sites:
        cname = SS._canonical(repo, s.obj.name)
        if s.kind != 'write' or cname not in WRITERS or s.obj.module is not m:
            continue
        n += 1
        seen_writes[cname] += 1
        who = s.fn.qualname if (s.fn and s.fn.module is m) else (s.fn.key if s.fn else '<module>')
        whos = {who}
        if s.fn and s.fn.module is m:
            whos = SS.owners_of(repo, s.fn, WRITERS[cname])
            # a registration helper shared by the decorator and the promoting lookup acts for both; the lookup promotes through
            # it (what a promotion may change is decided on the interpreted histories, C15.b / C15.d / C15.i)
            if s.fn.qualname not in ('is_registered',) and 'register_pretty.<locals>.decorator' in whos and 'is_registered' in whos \
                    and s.fn.name.startswith('_'):
                whos = whos - {'is_registered'}
            who = '/'.join(sorted(whos)) if whos <= set(WRITERS[cname]) else sorted(whos - set(WRITERS[cname]))[0]
        rep.check(whos <= set(WRITERS[cname]), 'C15.a', '%s:writes:%s:%s' % (who, s.obj.name, s.detail), s.where,
                  'store written only by its registered writers',
                  '%s %s %s; only %s may write that store' % (who, s.detail, s.obj.name, sorted(WRITERS[cname])),
                  nontrivial=True)
    for k, c in seen_writes.items():
        n += 1
        rep.check(c >= 1, 'C15.a', 'store-has-writer:%s' % k, m.relpath, 'store is written somewhere',
                  'no write site for %s found: registration by that route is lost' % k)
    rep.floor('C15.a', n, 7)

    # ---------------------------------------------------------------- C15.b-h: the registration state machine, semantically
    from . import registry_model
    k = registry_model.check_histories(repo, rep)
    rep.floor('C15.b-h', k, 14)
    steps = rep.analysed.get('registry_steps_interpreted', 0)
    if steps < 20000:
        rep.error('only %d registry steps were interpreted (expected more than 20000): vacuous pass refused' % steps)
