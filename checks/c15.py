"""C15 -- printer dispatch follows the class hierarchy for every registration history."""
import ast

from engine import effects, facts
from engine.astutil import src, call_name, dotted, Guards, compare_parts, enclosing_map
from engine.flow import Flow, _walk_no_nested
from engine.loader import AnalysisError

META = {
    'text': 'Static rules for the registration state machine (three stores, two writers): who-may-write on the live '
            'registry, the deferred dict and the predicate list; with register_deferred=False every write in '
            'is_registered is unreachable (guard facts); every print consults is_registered(type(value), all flags '
            'true) on the same unwrapped value before dispatching (must-pass-through by structured dataflow); '
            'promotion looks up, registers and removes under one key derived from the same class that is '
            'registered (no cross-wiring), on the same paths; the supertype scan walks __mro__[1:] in order and '
            'returns at the first hit; the final answer compares dispatch(type) with the base printer by identity; '
            'predicates are appended, consulted only by the base printer, in list order, first accepting one wins, '
            'repr otherwise; re-registration overwrites. The dispatch outcome for a whole history and '
            'functools.singledispatch MRO resolution are NOT decided.',
    'note': 'functools.singledispatch is trusted; the rule tables name the two legitimate writers',
    'technique': 'static analysis: effect inventory with who-may-write table, guard facts, must-pass-through '
                 'typestate, key-consistency by def-use',
}

WRITERS = {
    # store -> functions allowed to write it
    '_DEFERRED_DISPATCH_BY_NAME': {'register_pretty.<locals>.decorator', 'is_registered'},
    '_PREDICATE_REGISTRY': {'register_pretty.<locals>.decorator'},
    'pretty_dispatch': {'register_pretty.<locals>.decorator'},
}


def run(repo, rep):
    rep.explanation = ('R-WHO (C15.a), read-only query (C15.b), consult-before-dispatch (C15.c), key-consistent '
                       'move (C15.d), MRO order and identity answer (C15.e), predicate order (C15.f), overwrite '
                       'semantics (C15.g), flag structure of is_registered (C15.h).')
    rep.not_decided = 'the dispatch result of a concrete history; functools.singledispatch internals.'
    rep.assumptions = ['functools.singledispatch resolves the nearest registered class in the MRO']
    m = repo.module('prettyprinter')
    shared = effects.shared_objects(repo)
    all_sites = effects.sites(repo, shared)
    isr = m.funcs.get('is_registered')
    rp = m.funcs.get('register_pretty')
    ppv = m.funcs.get('pretty_python_value')
    if not (isr and rp and ppv):
        raise AnalysisError('is_registered / register_pretty / pretty_python_value vanished')

    # ---------------------------------------------------------------- C15.a
    n = 0
    seen_writes = {k: 0 for k in WRITERS}
    for s in all_sites:
        if s.kind != 'write' or s.obj.name not in WRITERS or s.obj.module is not m:
            continue
        n += 1
        seen_writes[s.obj.name] += 1
        who = s.fn.qualname if (s.fn and s.fn.module is m) else (s.fn.key if s.fn else '<module>')
        rep.check(who in WRITERS[s.obj.name], 'C15.a', '%s:writes:%s:%s' % (who, s.obj.name, s.detail), s.where,
                  'store written only by its registered writers',
                  '%s %s %s; only %s may write that store' % (who, s.detail, s.obj.name, sorted(WRITERS[s.obj.name])),
                  nontrivial=True)
    for k, c in seen_writes.items():
        n += 1
        rep.check(c >= 1, 'C15.a', 'store-has-writer:%s' % k, m.relpath, 'store is written somewhere',
                  'no write site for %s found: registration by that route is lost' % k)
    rep.floor('C15.a', n, 7)

    # registration routes inside the decorator
    dec = m.funcs.get('register_pretty.<locals>.decorator')
    if dec is None:
        raise AnalysisError('register_pretty no longer defines its decorator')
    g = Guards(dec.node)
    n = 0
    for c in ast.walk(dec.node):
        if isinstance(c, ast.Assign) and isinstance(c.targets[0], ast.Subscript) \
                and src(c.targets[0].value) == '_DEFERRED_DISPATCH_BY_NAME':
            n += 1
            ok = src(c.targets[0].slice) == 'type' and src(c.value) == dec.params[0] \
                and any(f.pol and f.text == 'isinstance(type, str)' for f in g.of(c))
            rep.check(ok, 'C15.g', 'decorator:deferred-store', '%s:%d' % (m.relpath, c.lineno),
                      'deferred[name] = fn (overwrites), only for str keys',
                      'deferred registration is %s under %s' % (src(c), g.texts(c)), nontrivial=True)
        if isinstance(c, ast.Call) and call_name(c) == 'pretty_dispatch.register':
            n += 1
            ok = src(c.args[0]) == 'type' and any((not f.pol) and f.text == 'isinstance(type, str)' for f in g.of(c))
            inner = c.args[1] if len(c.args) > 1 else None
            ok = ok and isinstance(inner, ast.Call) and call_name(inner) == 'partial' and \
                len(inner.args) == 2 and src(inner.args[1]) == dec.params[0]
            rep.check(ok, 'C15.g', 'decorator:class-register', '%s:%d' % (m.relpath, c.lineno),
                      'class registered with the decorated function',
                      'class registration is %s under %s' % (src(c), g.texts(c)), nontrivial=True)
        if isinstance(c, ast.Call) and call_name(c) == '_PREDICATE_REGISTRY.append':
            n += 1
            ok = src(c.args[0]).replace(' ', '') == '(predicate,%s)' % dec.params[0]
            rep.check(ok, 'C15.f', 'decorator:predicate-append', '%s:%d' % (m.relpath, c.lineno),
                      'predicates appended as (predicate, fn)', 'predicate registration is %s' % src(c), nontrivial=True)
        if isinstance(c, ast.Call) and call_name(c) in ('_PREDICATE_REGISTRY.insert', '_PREDICATE_REGISTRY.extend'):
            n += 1
            rep.fail('C15.f', 'decorator:predicate-' + c.func.attr, '%s:%d' % (m.relpath, c.lineno),
                     'predicates must be appended (first registered, first consulted); found %s' % src(c))
    n += 1
    stores = [c for c in ast.walk(dec.node) if isinstance(c, ast.Assign) and isinstance(c.targets[0], ast.Subscript)
              and src(c.targets[0].value) == '_DEFERRED_DISPATCH_BY_NAME']
    rep.check(len(stores) >= 1, 'C15.g', 'decorator:deferred-store-overwrites', dec.where,
              'registration by name is a plain store (a later one replaces an earlier one)',
              'registration by name no longer stores with _DEFERRED_DISPATCH_BY_NAME[name] = fn: a later registration '
              'for the same name does not replace the earlier one', nontrivial=True)
    rets = [r for r in ast.walk(dec.node) if isinstance(r, ast.Return)]
    n += 1
    rep.check(rets and all(r.value is not None and src(r.value) == dec.params[0] for r in rets), 'C15.g',
              'decorator:returns-fn', dec.where, 'decorator returns the function unchanged',
              'decorator returns %s' % [src(r.value) for r in rets])
    rep.floor('C15.g', n, 4)

    # ---------------------------------------------------------------- C15.b
    n = 0
    gi = Guards(isr.node)
    for c in ast.walk(isr.node):
        is_write = False
        label = None
        if isinstance(c, ast.Call) and isinstance(c.func, ast.Attribute) and c.func.attr in effects.MUTATORS \
                and src(c.func.value) in WRITERS:
            is_write, label = True, '%s.%s' % (src(c.func.value), c.func.attr)
        if isinstance(c, ast.Call) and isinstance(c.func, ast.Call) and call_name(c.func) == 'register_pretty':
            is_write, label = True, 'register_pretty(...)(...)'
        if isinstance(c, (ast.Assign, ast.Delete)) :
            tg = c.targets
            for t in tg:
                if isinstance(t, ast.Subscript) and src(t.value) in WRITERS:
                    is_write, label = True, 'store into ' + src(t.value)
        if not is_write:
            continue
        n += 1
        ok = any(f.pol and f.text == 'register_deferred' for f in gi.of(c))
        rep.check(ok, 'C15.b', 'is_registered:write-guarded:%s' % label, '%s:%d' % (m.relpath, c.lineno),
                  'write only under register_deferred',
                  'is_registered performs %s without register_deferred being true (%s): a pure query changes later '
                  'dispatch' % (label, gi.texts(c)), nontrivial=True)
    rep.floor('C15.b', n, 4)

    # ---------------------------------------------------------------- C15.c
    n = 0
    value_var = None
    for s in ast.walk(ppv.node):
        if isinstance(s, ast.Assign) and isinstance(s.value, ast.Call) and call_name(s.value) == 'unwrap_comments' \
                and isinstance(s.targets[0], ast.Tuple):
            value_var = src(s.targets[0].elts[0])
    if value_var is None:
        raise AnalysisError('pretty_python_value no longer unwraps comments')
    checks = [c for c in ast.walk(ppv.node) if isinstance(c, ast.Call) and call_name(c) == 'is_registered']
    n += 1
    rep.check(len(checks) == 1, 'C15.c', 'pretty_python_value:consults-once', ppv.where, 'one is_registered call',
              'pretty_python_value calls is_registered %d times' % len(checks), nontrivial=True)
    for c in checks:
        kw = {k.arg: src(k.value) for k in c.keywords}
        # defaults of is_registered for omitted flags
        a = isr.node.args
        defaults = {k.arg: src(d) for k, d in zip(a.kwonlyargs, a.kw_defaults) if d is not None}
        eff = dict(defaults)
        eff.update(kw)
        n += 1
        ok = c.args and src(c.args[0]) == 'type(%s)' % value_var and eff.get('check_superclasses') == 'True' \
            and eff.get('check_deferred') == 'True' and eff.get('register_deferred') == 'True'
        rep.check(ok, 'C15.c', 'pretty_python_value:flags', '%s:%d' % (m.relpath, c.lineno),
                  'type(value) with superclasses, deferred and promotion enabled',
                  'pretty_python_value consults is_registered(%s, %s): lazily registered printers of the class or its '
                  'bases are not promoted before dispatch' % (src(c.args[0]) if c.args else '', eff), nontrivial=True)

    def transfer(st, state):
        has_chk = any(isinstance(x, ast.Call) and call_name(x) == 'is_registered' for x in _walk_no_nested(st))
        has_dis = [x for x in _walk_no_nested(st) if isinstance(x, ast.Call) and call_name(x) == 'pretty_dispatch']
        if has_dis and not (state or has_chk):
            early.append(st.lineno)
        # unwrap re-assignment after the check would consult on a different value
        if state and isinstance(st, ast.Assign) and value_var in {x.id for t in st.targets for x in ast.walk(t) if isinstance(x, ast.Name)}:
            rebound.append(st.lineno)
        return [1 if (state or has_chk) else 0]
    early, rebound = [], []
    fl = Flow(transfer, lambda st, s: [])
    fl.run(ppv.node, 0)
    rep.count(fl.visited_stmts)
    n += 1
    rep.check(not early, 'C15.c', 'pretty_python_value:check-precedes-dispatch', ppv.where,
              'is_registered precedes the dispatch on every path',
              'pretty_dispatch is called at line(s) %s on a path that has not consulted is_registered' % early, nontrivial=True)
    n += 1
    rep.check(not rebound, 'C15.c', 'pretty_python_value:same-value', ppv.where, 'dispatch on the value that was checked',
              'the value is re-bound at line(s) %s between the registration check and the dispatch' % rebound)
    for c in ast.walk(ppv.node):
        if isinstance(c, ast.Call) and call_name(c) == 'pretty_dispatch':
            n += 1
            rep.check(c.args and src(c.args[0]) == value_var, 'C15.c', 'pretty_python_value:dispatch-value@%s' % (
                'with-comment' if c.keywords else 'plain'), '%s:%d' % (m.relpath, c.lineno), 'dispatch on the unwrapped value',
                'pretty_dispatch is called on %s, the registration check used type(%s)' % (src(c.args[0]) if c.args else '', value_var))
    rep.floor('C15.c', n, 5)

    # ---------------------------------------------------------------- C15.d / C15.e
    n = 0
    gdk = m.funcs.get('get_deferred_key')
    n += 1
    if gdk is None:
        rep.fail('C15.d', 'get_deferred_key:exists', m.relpath, 'get_deferred_key vanished')
    else:
        p0 = gdk.params[0]
        rets = [r for r in ast.walk(gdk.node) if isinstance(r, ast.Return)]
        want = {"%s.__module__ + '.' + %s.__qualname__" % (p0, p0)}
        ok = len(rets) == 1 and (src(rets[0].value) in want or
                                 src(rets[0].value).replace(' ', '') in ("'{}.{}'.format(%s.__module__,%s.__qualname__)" % (p0, p0),
                                                                         "f'{%s.__module__}.{%s.__qualname__}'" % (p0, p0)))
        rep.check(ok, 'C15.d', 'get_deferred_key:module-dot-qualname', gdk.where, "key = __module__ + '.' + __qualname__",
                  'get_deferred_key returns %s' % [src(r.value) for r in rets], nontrivial=True)
    # promotion sites: register_pretty(T)(fn)
    par = enclosing_map(isr.node)
    promos = [c for c in ast.walk(isr.node) if isinstance(c, ast.Call) and isinstance(c.func, ast.Call)
              and call_name(c.func) == 'register_pretty']
    for i, c in enumerate(sorted(promos, key=lambda x: x.lineno)):
        T = src(c.func.args[0]) if c.func.args else None
        fnarg = src(c.args[0]) if c.args else None
        label = 'exact' if T == isr.params[0] else 'supertype'
        # the key variable in scope: nearest preceding ``K = get_deferred_key(X)``
        blk = _enclosing_block(c, isr.node)
        key_assign = _nearest_assign(isr.node, c.lineno, lambda v: isinstance(v, ast.Call) and call_name(v) == 'get_deferred_key')
        n += 1
        if key_assign is None:
            rep.fail('C15.d', 'is_registered:promotion-%s:key' % label, '%s:%d' % (m.relpath, c.lineno),
                     'no deferred key computed before the promotion')
            continue
        kvar = src(key_assign.targets[0])
        kT = src(key_assign.value.args[0])
        rep.check(kT == T, 'C15.d', 'is_registered:promotion-%s:same-class' % label, '%s:%d' % (m.relpath, c.lineno),
                  'printer registered for the class whose key was looked up',
                  'the deferred printer found under the key of %s is registered for %s' % (kT, T), nontrivial=True)
        # the function registered is the one obtained from the deferred store under that key
        fa = _nearest_assign(isr.node, c.lineno, lambda v: isinstance(v, ast.Call) and call_name(v) in (
            '_DEFERRED_DISPATCH_BY_NAME.get', '_DEFERRED_DISPATCH_BY_NAME.pop') or (
                isinstance(v, ast.Subscript) and src(v.value) == '_DEFERRED_DISPATCH_BY_NAME'), name=fnarg)
        n += 1
        okf = fa is not None and (src(fa.value.args[0]) if isinstance(fa.value, ast.Call) else src(fa.value.slice)) == kvar
        rep.check(okf, 'C15.d', 'is_registered:promotion-%s:printer-from-same-key' % label, '%s:%d' % (m.relpath, c.lineno),
                  'registered printer was fetched under the same key',
                  'the promoted printer %s does not come from _DEFERRED_DISPATCH_BY_NAME[%s]' % (fnarg, kvar), nontrivial=True)
        # removal of the same key on the same paths (a move, not a copy)
        removal = [x for x in ast.walk(isr.node) if isinstance(x, ast.Call) and call_name(x) == '_DEFERRED_DISPATCH_BY_NAME.pop'
                   and _same_region(x, c, isr.node)]
        n += 1
        okm = len(removal) == 1 and src(removal[0].args[0]) == kvar and \
            {f.key() for f in gi.of(removal[0])} == {f.key() for f in gi.of(c)}
        rep.check(okm, 'C15.d', 'is_registered:promotion-%s:moves' % label, '%s:%d' % (m.relpath, c.lineno),
                  'key removed from the deferred store on exactly the paths that register it',
                  'promotion of %s does not remove key %s from the deferred store under the same conditions '
                  '(removals: %s)' % (T, kvar, [src(x) for x in removal]), nontrivial=True)
        # hit => return True
        n += 1
        rt = _return_after(c, isr.node)
        rep.check(rt == 'True', 'C15.e', 'is_registered:promotion-%s:first-hit-returns' % label, '%s:%d' % (m.relpath, c.lineno),
                  'scan stops at the first hit', 'after promoting %s the function returns %s' % (T, rt), nontrivial=True)
    rep.check(len(promos) == 2, 'C15.d', 'is_registered:two-promotion-sites', isr.where, 'exact and supertype promotion',
              'found %d promotion sites (exact type and supertype expected)' % len(promos))
    # supertype scan order
    loops = [l for l in ast.walk(isr.node) if isinstance(l, ast.For)]
    n += 1
    okl = len(loops) == 1 and src(loops[0].iter) == '%s.__mro__[1:]' % isr.params[0]
    rep.check(okl, 'C15.e', 'is_registered:mro-order', isr.where, 'supertypes scanned nearest first',
              'the supertype scan iterates %s; the nearest class must be found first: %s.__mro__[1:]'
              % ([src(l.iter) for l in loops], isr.params[0]), nontrivial=True)
    if okl:
        gl = gi.of(loops[0])
        rep.check(any(f.pol and f.text == 'check_deferred' for f in gl) and
                  any((not f.pol) and f.text == 'not check_superclasses' or f.pol and f.text == 'check_superclasses' for f in gl),
                  'C15.h', 'is_registered:supertype-scan-flags', '%s:%d' % (m.relpath, loops[0].lineno),
                  'scan only with check_superclasses and check_deferred', 'supertype scan runs under %s' % gi.texts(loops[0]))
    # final answer
    last = isr.node.body[-1]
    n += 1
    okr = isinstance(last, ast.Return) and src(last.value) in (
        'pretty_dispatch.dispatch(%s) is not _BASE_DISPATCH' % isr.params[0],)
    rep.check(okr, 'C15.e', 'is_registered:final-answer', '%s:%d' % (m.relpath, last.lineno),
              'dispatch(type) compared with the base printer by identity',
              'the final answer is %s' % (src(last.value) if isinstance(last, ast.Return) else src(last)), nontrivial=True)
    base = m.assigns.get('_BASE_DISPATCH')
    sd = m.assigns.get('pretty_dispatch')
    n += 1
    rep.check(bool(base) and bool(sd) and src(sd[-1]) == 'singledispatch(_BASE_DISPATCH)', 'C15.e', 'base-printer-identity', m.relpath,
              'the object compared with is the one given to singledispatch',
              'pretty_dispatch = %s' % (src(sd[-1]) if sd else None))
    rep.floor('C15.d+e', n, 12)

    # ---------------------------------------------------------------- C15.h flag structure
    n = 0
    first_if = [s for s in isr.node.body if isinstance(s, ast.If)]
    exact = [s for s in first_if if src(s.test) == '%s in pretty_dispatch.registry' % isr.params[0]]
    n += 1
    rep.check(len(exact) == 1 and len(exact[0].body) == 1 and src(exact[0].body[0]) == 'return True',
              'C15.h', 'is_registered:exact-live-hit', isr.where, 'exact live registration answers True unconditionally',
              'the exact "type in registry" answer is missing or conditional')
    early = [s for s in first_if if src(s.test) == 'not check_superclasses']
    n += 1
    rep.check(len(early) == 1 and src(early[0].body[0]) == 'return False', 'C15.h', 'is_registered:no-superclasses-stops',
              isr.where, 'without check_superclasses only the exact class counts',
              'the "not check_superclasses -> False" exit is missing')
    for c in ast.walk(isr.node):
        if isinstance(c, ast.Call) and call_name(c) == '_DEFERRED_DISPATCH_BY_NAME.get' or \
                (isinstance(c, ast.Compare) and isinstance(c.ops[0], ast.In) and src(c.comparators[0]) == '_DEFERRED_DISPATCH_BY_NAME'):
            n += 1
            rep.check(any(f.pol and f.text == 'check_deferred' for f in gi.of(c)), 'C15.h',
                      'is_registered:deferred-lookup-guarded@%s' % ('scan' if any(isinstance(p, ast.For) for p in _ancestors(c, par)) else 'exact'),
                      '%s:%d' % (m.relpath, c.lineno), 'deferred store consulted only with check_deferred',
                      'deferred store consulted without check_deferred (%s)' % gi.texts(c), nontrivial=True)
    rep.floor('C15.h', n, 4)

    # ---------------------------------------------------------------- C15.f base printer
    n = 0
    wfn = facts.wrapper_function(repo)
    bp = None
    if base and isinstance(base[-1], ast.Call) and len(base[-1].args) == 2:
        r = repo.resolve(m, src(base[-1].args[1]))
        if r and r[0] == 'func':
            bp = r[1]
    if bp is None:
        raise AnalysisError('base printer not identifiable from _BASE_DISPATCH')
    readers = {s.fn.qualname for s in all_sites if s.obj.name == '_PREDICATE_REGISTRY' and s.kind == 'read' and s.fn}
    n += 1
    rep.check(readers == {bp.qualname}, 'C15.f', 'predicates:consulted-only-by-base', bp.where,
              'only the base printer reads the predicate list', 'predicate list is read by %s' % sorted(readers), nontrivial=True)
    loops = [l for l in ast.walk(bp.node) if isinstance(l, ast.For)]
    n += 1
    okp = len(loops) == 1 and src(loops[0].iter) == '_PREDICATE_REGISTRY' and isinstance(loops[0].target, ast.Tuple)
    rep.check(okp, 'C15.f', 'base-printer:list-order', bp.where, 'predicates tried in registration order',
              'base printer iterates %s' % [src(l.iter) for l in loops], nontrivial=True)
    if okp:
        pv, fv = (e.id for e in loops[0].target.elts)
        gb = Guards(bp.node)
        rets = [r for r in ast.walk(loops[0]) if isinstance(r, ast.Return)]
        n += 1
        ok = len(rets) == 1 and src(rets[0].value) == '%s(%s)' % (fv, ', '.join(bp.params)) and \
            any(f.pol and f.text == '%s(%s)' % (pv, bp.params[0]) for f in gb.of(rets[0]))
        rep.check(ok, 'C15.f', 'base-printer:first-accepting-wins', bp.where, 'first accepting predicate returns its printer',
                  'inside the predicate loop the base printer does %s' % [src(r) for r in rets], nontrivial=True)
        tail = bp.node.body[-1]
        n += 1
        rep.check(isinstance(tail, ast.Return) and src(tail.value) == 'repr(%s)' % bp.params[0], 'C15.f', 'base-printer:repr-otherwise', bp.where,
                  'repr when no predicate accepts', 'base printer falls through to %s' % src(tail), nontrivial=True)
    rep.floor('C15.f', n, 4)


def _ancestors(node, par):
    out = []
    p = par.get(id(node))
    while p is not None:
        out.append(p)
        p = par.get(id(p))
    return out


def _enclosing_block(node, root):
    for n in ast.walk(root):
        for fld in ('body', 'orelse'):
            blk = getattr(n, fld, None)
            if isinstance(blk, list) and any(node in list(ast.walk(s)) for s in blk):
                best = blk
    return best


def _nearest_assign(fn, lineno, pred, name=None):
    best = None
    for s in ast.walk(fn):
        if isinstance(s, ast.Assign) and s.lineno < lineno and pred(s.value):
            if name is not None and src(s.targets[0]) != name:
                continue
            if best is None or s.lineno > best.lineno:
                best = s
    return best


def _same_region(a, b, fn):
    """a and b are inside the same innermost ``if`` body"""
    par = enclosing_map(fn)

    def inner_if(n):
        p = par.get(id(n))
        while p is not None and not isinstance(p, ast.If):
            p = par.get(id(p))
        return p
    return inner_if(a) is inner_if(b)


def _return_after(call, fn):
    """value returned once the ``if`` that holds the promotion has been executed"""
    par = enclosing_map(fn)
    p = par.get(id(call))
    # climb to the outer ``if found:`` whose body ends with return
    while p is not None:
        if isinstance(p, ast.If) and p.body and isinstance(p.body[-1], ast.Return):
            return src(p.body[-1].value)
        p = par.get(id(p))
    return None
