"""Small-scope semantic model of the printer registry (C15, reused by C19/C20).

register_pretty, is_registered, pretty_python_value, the printer wrapper and the base printer are *interpreted* (E6,
no execution) on a small class lattice with single and multiple inheritance.  functools.singledispatch is a model:
``registry`` is a dict, ``register`` stores, ``dispatch`` walks the class's MRO, calling dispatches on type(value).
Printers and predicates are opaque markers, so the value that comes back names the printer that was used.

Histories of registrations (by class, by qualified name, by predicate), prints and is_registered queries are replayed
through the interpreted code and compared, step by step, with the specification the property states: nearest class in
the MRO, else the first-registered accepting predicate, else repr; is_registered consistent with that for every flag
combination; nothing but deferred->live *moves* ever changes the stores; register_deferred=False changes nothing."""
import ast
import itertools
import random

from engine.interp import (Const, Sym, SymStr, ListV, TupleV, DictV, SetV, ObjV, TypeV, Prim, PartialV, FuncV, NONE, Undecided, Raised, PathLimit, prov)
from engine.loader import AnalysisError, ClassInfo
from engine import roles as _roles
from . import shape as S

#            name: bases
# D is a diamond over A (through B and E) with a mix-in: the order of its supertypes is the C3 linearisation D, B, E, A, M - not a
# depth-first walk of __bases__
# L is an unrelated class defined inside a function whose own name is also 'A': only its qualified name tells it from A
LATTICE = [('A', []), ('B', ['A']), ('C', ['B']), ('M', []), ('E', ['A']), ('D', ['B', 'E', 'M']), ('L', [])]
# B and D are nested classes: __qualname__ differs from __name__
QUALNAME = {'A': 'A', 'B': 'Outer.B', 'C': 'C', 'M': 'M', 'D': 'Outer.D', 'E': 'E', 'L': 'factory.<locals>.A'}
KEY = {c: 'lattice.' + q for c, q in QUALNAME.items()}
CHAIN = []          # K0 <- K1 <- ... : a single-inheritance chain longer than every size constant of the registry code (scale_lattice)
LIST_COUNTS = []    # lengths of the lists instances are printed in
_SCALED_FOR = [None]


def scale_lattice(repo, rep=None):
    """Adds to the lattice a chain of classes deeper than every size constant that is_registered / the dispatching entry compare
    against (and than a fixed small depth), and fixes the lengths of the lists in which instances are printed: one more than every size
    constant of the sequence printer (and a fixed small count).  Idempotent per repository object."""
    from engine import thresholds
    from . import shape as _S
    if _SCALED_FOR[0] is repo:
        return
    m = repo.module('prettyprinter')
    names = [n for n in ('is_registered', 'pretty_python_value', 'register_pretty', 'get_deferred_key', '_repr_pretty', '_run_pretty', '_run_pretty_visited') if n in m.funcs]
    fns = []
    for n_ in names:
        fns.append(m.funcs[n_].node)
    mined, _ = thresholds.mine([m], fns=fns, most=60)
    depth = max(list(mined) + [8]) + 3
    for name, _b in list(LATTICE):
        if name.startswith('K') and name[1:].isdigit():
            LATTICE.remove((name, _b))
            QUALNAME.pop(name, None)
            KEY.pop(name, None)
    del CHAIN[:]
    for i in range(depth):
        name = 'K%d' % i
        LATTICE.append((name, ['K%d' % (i - 1)] if i else []))
        QUALNAME[name] = name
        KEY[name] = 'lattice.' + name
        CHAIN.append(name)
    try:
        counts, mined_seq = _S.scaled_counts(repo, _S.printer_for(repo, 'list'), most=60)
    except AnalysisError:
        counts, mined_seq = [_S.ALWAYS_COUNT], {}
    LIST_COUNTS[:] = counts
    _SCALED_FOR[0] = repo
    if rep is not None:
        rep.note('registry model: size constants of the lookup code %s -> a chain of %d classes; of the sequence printer %s -> lists of %s instances'
                 % ({k: v[:1] for k, v in mined.items()} or 'none', depth, {k: v[:1] for k, v in mined_seq.items()} or 'none', counts))


def _c3(name, bases, mros):
    seqs = [list(mros[b]) for b in bases] + [list(bases)]
    out = [name]
    while any(seqs):
        for s in seqs:
            if not s:
                continue
            h = s[0]
            if not any(h in t[1:] for t in seqs):
                break
        else:
            raise ValueError('no MRO')
        out.append(h)
        for s in seqs:
            if s and s[0] == h:
                del s[0]
    return out


_CLS_NODE = ast.parse('class LatticeClass:\n    pass\nclass LatticeInstance:\n    pass\n').body


class World:
    def __init__(self, repo):
        self.repo = repo
        self.m = repo.module('prettyprinter')
        self.live = DictV([])
        prims = {
            'pretty_dispatch.register': self.p_register,
            'pretty_dispatch.dispatch': self.p_dispatch,
            'pretty_dispatch': self.p_call_dispatch,
            'inspect.signature': self.p_signature,
            'signature': self.p_signature,
            'warnings.warn': lambda it, a, k, n: NONE,
            'warn': lambda it, a, k, n: NONE,
            'method:bind': self.m_bind,
            'method:pop': self.m_pop,
            'method:clear': self.m_clear,
            'repr': self.p_repr,
        }
        self.used = []
        for k in range(1, 9):
            prims['printer#%d' % k] = (lambda it, a, kw, n, k=k: (self.used.append('printer#%d' % k), Const('USED(printer#%d)' % k))[1])
        self.sigs = []
        self.spec = None
        self.invisible = []
        self.accept = {}
        for k in range(1, 5):
            prims['pred#%d' % k] = (lambda it, a, kw, n, k=k: Const(self._class_name(it.type_of(a[0])) in self.accept.get(k, ())))
        from engine.interp import Interp
        self.it = Interp(repo, prims, max_paths=16)
        self.it.concrete_context = True
        self.it.concrete_partial = True
        self.it.concrete_classes = {'PrettyContext', _roles.name(repo, 'commented_cls'), _roles.name(repo, 'trailing_cls')}
        self.it.foreign_attr = {'pretty_dispatch': self.dispatch_attr}
        self.it.globals_store[(self.m.name, _roles.name(repo, 'dispatch'))] = Prim('pretty_dispatch')
        # the class lattice
        self.cinfo = ClassInfo(None, _CLS_NODE[0])
        self.iinfo = ClassInfo(None, _CLS_NODE[1])
        self.obj = TypeV('object')
        mros = {}
        self.classes = {}
        for name, bases in LATTICE:
            mros[name] = _c3(name, bases, mros)
            c = ObjV(self.cinfo)
            self.classes[name] = c
        for name, bases in LATTICE:
            c = self.classes[name]
            c.attrs.update({'__module__': Const('lattice'), '__qualname__': Const(QUALNAME[name]), '__name__': Const(name),
                            '__mro__': TupleV([self.classes[x] for x in mros[name]] + [self.obj]),
                            '__bases__': TupleV([self.classes[x] for x in bases] or [self.obj])})
        self.mros = mros
        # what the package itself registered at import time for the built-in types (code may consult pretty_dispatch.registry[int])
        from engine import facts as _facts
        from engine.interp import FuncV as _FuncV
        for r_ in _facts.registry(repo):
            if r_.fn is not None and r_.module is self.m and isinstance(r_.key, str) and r_.key in ('int', 'float', 'str', 'bytes', 'bool', 'list', 'tuple', 'set', 'frozenset', 'dict'):
                self.live.set(TypeV(r_.key), _FuncV(r_.fn))
        self.base = self.it.global_name(self.m, _roles.name(repo, 'base_dispatch'))
        # every module-level mutable container of the module is registry state (restored between histories); the deferred store is
        # the dict the decorator writes string keys into - found by behaviour, not by name (see find_deferred)
        self.state = []
        for name, vals in self.m.assigns.items():
            if not isinstance(vals[-1], (ast.Dict, ast.List, ast.Set, ast.Call)):
                continue
            if isinstance(vals[-1], ast.Call) and not (isinstance(vals[-1].func, ast.Name) and vals[-1].func.id in
                                                       ('dict', 'list', 'set', 'OrderedDict', 'defaultdict', 'WeakKeyDictionary') and not vals[-1].args):
                continue
            try:
                v = self.it.global_name(self.m, name)
            except (Undecided, Raised):
                continue
            if isinstance(v, (DictV, ListV, SetV)):
                self.state.append((name, v))
        self.deferred = None

    # -- singledispatch model
    def _class_name(self, c):
        for n_, v in self.classes.items():
            if v is c:
                return n_
        return prov(c)

    def dispatch_attr(self, it, attr, n):
        if attr == 'registry':
            return self.live
        return Prim('pretty_dispatch.' + attr)

    def p_register(self, it, a, k, n):
        if len(a) == 1:
            raise Undecided('singledispatch.register used as a decorator factory')
        self.live.set(a[0], a[1])
        return a[1]

    def _dispatch(self, cls):
        if isinstance(cls, ObjV) and '__mro__' in cls.attrs:
            for c in cls.attrs['__mro__'].items:
                r = self.live.get(c)
                if r is not None:
                    return r
            return self.base
        if isinstance(cls, TypeV):
            # a class known by name (a builtin, a class of the package such as the comment wrappers): along its linearisation
            lin = self.it._type_mro(cls.name)
            if lin is not None:
                for name_ in lin:
                    r = self.live.get(TypeV(name_))
                    if r is not None:
                        return r
                return self.base
        raise Undecided('dispatch on %s' % prov(cls))

    def p_dispatch(self, it, a, k, n):
        return self._dispatch(a[0])

    def p_call_dispatch(self, it, a, k, n):
        impl = self._dispatch(it.type_of(a[0]))
        return it.call_function(impl, list(a), dict(k), n)

    def p_signature(self, it, a, k, n):
        self.sigs.append(a[0])
        return Sym('signature#%d' % (len(self.sigs) - 1))

    def m_bind(self, it, obj, a, k, n):
        if not (isinstance(obj, Sym) and obj.prov.startswith('signature#')):
            return NotImplemented
        fn = self.sigs[int(obj.prov.split('#')[1])]
        pre = []
        while isinstance(fn, PartialV):
            pre = list(fn.args) + pre
            fn = fn.func
        if isinstance(fn, FuncV) and fn.fn is not None:
            from engine.interp import Frame
            it.bind(fn.fn, Frame(fn.fn, fn.fn.module, fn.env), pre + list(a), dict(k))     # raises TypeError like Signature.bind
        return NONE

    def m_pop(self, it, obj, a, k, n):
        if self.deferred is None or obj is not self.deferred:
            return NotImplemented
        r = None
        for i, (kk, vv) in enumerate(obj.items):
            if DictV._same_key(kk, a[0]):
                del obj.items[i]
                r = vv
                break
        self.check_visible('after %s is removed from the deferred store (line %s)' % (prov(a[0]), getattr(n, 'lineno', '?')))
        if r is not None:
            return r
        if len(a) > 1:
            return a[1]
        raise Raised('KeyError: %s' % prov(a[0]), getattr(n, 'lineno', 0))

    def m_clear(self, it, obj, a, k, n):
        if (self.deferred is None or obj is not self.deferred) and obj is not self.live:
            return NotImplemented
        obj.items[:] = []
        self.check_visible('after a store is cleared (line %s)' % getattr(n, 'lineno', '?'))
        return NONE

    def check_visible(self, what):
        """every class with a registration is present in the live registry or in the deferred store"""
        if self.spec is None:
            return
        live, deferred, _ = self.stores()
        for c in self.spec.reg:
            if c not in live and KEY[c] not in deferred:
                self.invisible.append((what, c))

    def p_repr(self, it, a, k, n):
        if a and isinstance(a[0], ObjV) and a[0].cls is self.iinfo:
            self.used.append('repr')
            return Const('USED(repr)')
        return NotImplemented

    # -- operations
    def instance(self, cname):
        o = ObjV(self.iinfo)
        o.attrs['__class__'] = self.classes[cname]
        return o

    def _run(self, fname, args, kwargs):
        f = self.m.funcs[fname]
        self.it.paths_run = 0
        prs = self.it.explore(f, args, kwargs)
        if len(prs) != 1:
            raise Undecided('%s forks into %d abstract paths on concrete input: %s' % (fname, len(prs), [p.fact_text() for p in prs][:3]))
        return prs[0]

    def register(self, target, printer, predicate=None):
        kw = {}
        args = []
        if predicate is not None:
            kw['predicate'] = predicate
        else:
            args = [target]
        r = self._run('register_pretty', args, kw)
        if r.raised is not None:
            return r
        self.it.paths_run = 0
        prs = self.it.explore(r.value.fn, [printer], {}, closure=r.value.env) if isinstance(r.value, FuncV) else None
        if prs is None or len(prs) != 1:
            raise Undecided('register_pretty does not return a decorator function')
        return prs[0]

    def query(self, cname, flags):
        return self._run('is_registered', [self.classes[cname]], {k: Const(v) for k, v in flags.items()})

    def ctx(self):
        return self.it.construct(TypeV('PrettyContext'), [], {'indent': Const(4), 'depth_left': Const(10), 'visited': NONE,
                                                               'multiline_strategy': Sym('MS'), 'max_seq_len': Const(1000),
                                                               'sort_dict_keys': Const(False)}, None)

    def print_(self, cname, trailing=False):
        v = self.instance(cname)
        if trailing:
            v = self.it.construct(TypeV(_roles.name(self.repo, 'trailing_cls')), [v, Const('note')], {}, None)
        return self._run('pretty_python_value', [v, self.ctx()], {})

    def print_list(self, cname, count):
        # the registered list printer itself, on a list of instances (the registrations made at import time are not part of the model)
        from . import shape as _S
        fn = _S.printer_for(self.repo, 'list')
        items = ListV([self.instance(cname) for _ in range(count)])
        self.it.paths_run = 0
        prs = self.it.explore(fn, [items, self.ctx()], {})
        if len(prs) != 1:
            raise Undecided('%s forks into %d abstract paths on a list of %d instances' % (fn.name, len(prs), count))
        return prs[0]

    # -- observation
    def snapshot(self):
        return (list(self.live.items), [list(v.items) for _, v in self.state])

    def restore(self, snap):
        self.live.items[:] = list(snap[0])
        for (_, v), items in zip(self.state, snap[1]):
            v.items[:] = list(items)

    def find_deferred(self):
        """the store registration-by-name writes: the dict that gains the key when a printer is registered by name"""
        if self.deferred is not None:
            return self.deferred
        snap = self.snapshot()
        before = {name: len(v.items) for name, v in self.state}
        self.register(Const('lattice.__probe__'), Prim('printer#8'))
        grown = [v for name, v in self.state if isinstance(v, DictV) and len(v.items) > before[name]
                 and any(isinstance(k, Const) and k.v == 'lattice.__probe__' for k, _ in v.items)]
        self.restore(snap)
        if len(grown) != 1:
            raise AnalysisError('cannot identify the store of printers registered by name (%d dicts gain the key)' % len(grown))
        self.deferred = grown[0]
        return self.deferred

    def printer_id(self, v):
        """which opaque printer a stored callable stands for"""
        seen = 0
        while isinstance(v, PartialV) and seen < 5:
            v = v.args[-1] if v.args else v.func
            seen += 1
        return prov(v)

    def stores(self):
        live = {self._class_name(k): self.printer_id(v) for k, v in self.live.items}
        d = self.deferred
        deferred = {prov(k).strip("'"): self.printer_id(v) for k, v in d.items} if d is not None else {}
        rest = []
        for name, v in self.state:
            if v is d:
                continue
            rest.append((name, [prov(x) if not isinstance(x, tuple) else (prov(x[0]), prov(x[1])) for x in v.items]))
        return live, deferred, rest


# ---------------------------------------------------------------------------------------------------- histories
ALL = ['A', 'B', 'C', 'M', 'D', 'E', 'L']
FLAGS = [dict(check_superclasses=cs, check_deferred=cd, register_deferred=rd) for cs in (False, True) for cd in (False, True) for rd in (False, True)]


class Spec:
    """what the property says, over the history so far: the latest registration for a class counts, whatever its kind"""

    def __init__(self, mros):
        self.mros = mros
        self.reg = {}       # class -> (printer number, 'direct' | 'deferred')
        self.preds = []

    def copy(self):
        s = Spec(self.mros)
        s.reg, s.preds = dict(self.reg), list(self.preds)
        return s

    def printer_for(self, c):
        for x in self.mros[c]:
            if x in self.reg:
                return 'printer#%d' % self.reg[x][0], 'class'
        for accept, k in self.preds:
            if c in accept:
                return 'printer#%d' % k, 'predicate'
        return 'repr', 'repr'

    def answer(self, c, flags):
        scope = self.mros[c] if flags['check_superclasses'] else [c]
        hi = any(x in self.reg for x in scope)
        if flags['check_deferred']:
            return {hi}
        lo = any(x in self.reg and self.reg[x][1] == 'direct' for x in scope)
        return {lo, hi}     # whether a deferred printer has been promoted yet is not part of the rule


def _fl(flags):
    return ''.join('%s=%d ' % (k.split('_')[1][:5] if k != 'check_superclasses' else 'super', v) for k, v in flags.items()).strip()


def gen_histories(tier, seed):
    regs = [('RC', c) for c in ('A', 'B', 'M')] + [('RN', c) for c in ('A', 'B', 'M', 'D', 'E')] + \
        [('RP', frozenset({'C', 'D'})), ('RP', frozenset(ALL)), ('RPS',)]
    mids = [('P', 'C'), ('P', 'D'), ('P', 'M'), ('Q', 'D', FLAGS[7]), ('Q', 'C', FLAGS[6]), ('Q', 'D', FLAGS[3]), ('Q', 'B', FLAGS[2])]
    out = [[]]
    out += [[a] for a in regs]
    out += [[a, b] for a in regs for b in regs]
    out += [[a, mid, b] for a in regs for mid in mids for b in regs if not (a[0] in ('RP', 'RPS') and b[0] in ('RP', 'RPS'))]
    # the deep chain: a printer registered (by class, by name) for its root, looked up for its leaf - directly, and as the elements of lists
    if CHAIN:
        root, second, leaf = CHAIN[0], CHAIN[1], CHAIN[-1]
        sup = [f for f in FLAGS if f['check_superclasses'] and f['check_deferred']]
        for reg in (('RN', root), ('RC', root)):
            out.append([reg, ('P', leaf)])
            out.append([reg, ('Q', leaf, sup[0])])
            out.append([reg, ('Q', leaf, sup[-1]), ('P', leaf)])
            out.append([reg, ('RN', second), ('P', leaf)])
            for cnt in LIST_COUNTS:
                out.append([reg, ('PL', leaf, cnt)])
                out.append([reg, ('PL', leaf, cnt), ('P', leaf)])
                out.append([('RN', 'B'), ('PL', 'C', cnt), ('Q', 'C', sup[0])])
        for cnt in LIST_COUNTS:
            out.append([('RP', frozenset({'C', 'D'})), ('PL', 'C', cnt)])
            out.append([('PL', 'M', cnt)])
    if tier == 'thorough':
        out += [[a, b, mid, c] for a in regs for b in regs for mid in mids[:4] for c in regs[:7]]
        rng = random.Random(seed)
        for _ in range(1500):
            h = []
            for _i in range(rng.randint(4, 7)):
                r = rng.random()
                if r < 0.55:
                    h.append(rng.choice(regs))
                elif r < 0.8:
                    h.append(('P', rng.choice(ALL)))
                else:
                    h.append(('Q', rng.choice(ALL), rng.choice(FLAGS)))
            out.append(h)
    return out


def _desc(h):
    out = []
    for op in h:
        if op[0] == 'RC':
            out.append('register_pretty(%s)' % op[1])
        elif op[0] == 'RN':
            out.append("register_pretty('%s')" % KEY[op[1]])
        elif op[0] == 'RP':
            out.append('register_pretty(predicate=accepts{%s})' % ','.join(sorted(op[1])))
        elif op[0] == 'RPS':
            out.append('register_pretty(predicate=<the first predicate again>)')
        elif op[0] == 'P':
            out.append('print(%s())' % op[1])
        elif op[0] == 'PT':
            out.append('print(trailing_comment(%s(), ...))' % op[1])
        elif op[0] == 'PL':
            out.append('print([%s()] * %d)' % (op[1], op[2]))
        else:
            out.append('is_registered(%s, %s)' % (op[1], _fl(op[2])))
    return '; '.join(out) or '<no registrations>'


class Tally:
    def __init__(self, rep, where):
        self.rep, self.where = rep, where
        self.okc = {}
        self.failed = {}

    def check(self, cond, rule, construct, detail):
        key = (rule, construct)
        if cond:
            self.okc[key] = self.okc.get(key, 0) + 1
        else:
            self.failed.setdefault(key, [])
            if len(self.failed[key]) < 4:
                self.failed[key].append(detail)

    def flush(self):
        n = 0
        for (rule, construct), c in sorted(self.okc.items()):
            if (rule, construct) not in self.failed:
                self.rep.ok(rule, construct, self.where, 'held on %d interpreted steps' % c, nontrivial=True)
                n += 1
        for (rule, construct), details in sorted(self.failed.items()):
            for i, d in enumerate(details):
                self.rep.fail(rule, construct if i == 0 else '%s#%d' % (construct, i + 1), self.where, d)
                n += 1
        return n


def _run_chunk(args):
    repo, hs = args
    tally = Tally(None, '')
    steps = 0
    w = World(repo)
    empty = w.snapshot()
    w.find_deferred()
    undecided = []
    for h in hs:
        w.restore(empty)
        w.accept.clear()
        spec = Spec(w.mros)
        w.spec = spec
        try:
            for i, op in enumerate(h):
                _apply(w, spec, op, i + 1, tally, h[:i + 1])
                steps += 1
            # probes: every class printed, classes queried with every flag combination (state restored in between)
            snap = w.snapshot()
            for c in ALL:
                for op_ in (('P', c), ('PT', c)):
                    _apply(w, spec, op_, 0, tally, h + [op_], probe=True)
                    w.restore(snap)
                    steps += 1
            for c in ('C', 'D', 'M', 'B'):
                for fl in FLAGS:
                    w.spec = spec.copy()
                    _apply(w, w.spec, ('Q', c, fl), 0, tally, h + [('Q', c, fl)], probe=True)
                    w.spec = spec
                    w.restore(snap)
                    steps += 1
        except (Undecided, PathLimit) as e:
            if len(undecided) < 5:
                undecided.append('%s after %s' % (e, _desc(h)))
    return tally.okc, tally.failed, steps, undecided


_REPO = None


def _chunk_worker(hs):
    return _run_chunk((_REPO, hs))


def check_histories(repo, rep):
    """returns number of rule instances recorded"""
    global _REPO
    import multiprocessing as mp
    m = repo.module('prettyprinter')
    where = m.funcs['is_registered'].where if 'is_registered' in m.funcs else m.relpath
    scale_lattice(repo, rep)
    hs = gen_histories(rep.tier, rep.seed)
    World(repo)     # fail early (AnalysisError) in this process
    jobs = 1 if mp.current_process().daemon else min(16, mp.cpu_count() or 1)
    results = None
    if jobs > 1:
        chunks = [hs[i::jobs] for i in range(jobs)]
        try:
            _REPO = repo
            with mp.get_context('fork').Pool(jobs) as pool:
                results = pool.map(_chunk_worker, chunks)
        except (OSError, ValueError):
            results = None
        finally:
            _REPO = None
    if results is None:
        results = [_run_chunk((repo, hs))]
    tally = Tally(rep, where)
    steps = 0
    undecided = []
    for okc, failed, st, und in results:
        for k, v in okc.items():
            tally.okc[k] = tally.okc.get(k, 0) + v
        for k, v in failed.items():
            tally.failed.setdefault(k, [])
            tally.failed[k] = (tally.failed[k] + v)[:4]
        steps += st
        undecided += und
    rep.count(steps)
    rep.analysed['registry_histories'] = len(hs)
    rep.analysed['registry_steps_interpreted'] = steps
    n = tally.flush()
    for u in undecided[:5]:
        rep.undecided('C15.c', 'history-interpretable', where, u)
        n += 1
    return n


def _observe(w):
    w.find_deferred()
    live, deferred, preds = w.stores()
    eff = {}
    for k, v in deferred.items():
        eff[{v_: k_ for k_, v_ in KEY.items()}.get(k, k)] = v
    eff.update(live)
    return live, deferred, preds, eff


def _apply(w, spec, op, k, tally, hist, probe=False):
    desc = _desc(hist)
    if op[0] in ('RC', 'RN', 'RP', 'RPS'):
        printer = Prim('printer#%d' % k)
        if op[0] == 'RC':
            r = w.register(w.classes[op[1]], printer)
            spec.reg[op[1]] = (k, 'direct')
        elif op[0] == 'RN':
            r = w.register(Const(KEY[op[1]]), printer)
            spec.reg[op[1]] = (k, 'deferred')
        elif op[0] == 'RP':
            npred = len(spec.preds) + 1
            w.accept[npred] = op[1]
            r = w.register(None, printer, predicate=Prim('pred#%d' % npred))
            spec.preds.append((op[1], k))
        else:       # RPS: the first predicate object registered once more, with another printer (both stay; the first one wins)
            if not spec.preds:
                w.accept[1] = frozenset(ALL)
                r = w.register(None, Prim('printer#7'), predicate=Prim('pred#1'))
                spec.preds.append((frozenset(ALL), 7))
            r = w.register(None, printer, predicate=Prim('pred#1'))
            spec.preds.append((w.accept[1], k))
        tally.check(r.raised is None, 'C15.g', 'register:accepted', 'after %s: registration raises %s' % (desc, r.raised.what if r.raised else ''))
        tally.check(r.raised is not None or (isinstance(r.value, Prim) and r.value.name == printer.name), 'C15.g', 'register:returns-the-function',
                    'after %s: the decorator returns %s instead of the decorated function' % (desc, prov(r.value) if r.value is not None else None))
    elif op[0] == 'PL':
        want, kind = spec.printer_for(op[1])
        del w.used[:]
        r = w.print_list(op[1], op[2])
        rule = {'class': 'C15.c', 'predicate': 'C15.f', 'repr': 'C15.f'}[kind]
        got = sorted(set(w.used)) if r.raised is None else ['raised %s' % r.raised.what]
        tally.check(r.raised is None and got == [want] and len(w.used) == op[2], rule, 'print-elements:%s' % {
            'class': 'nearest-class-in-mro', 'predicate': 'first-accepting-predicate', 'repr': 'repr-when-nothing-registered'}[kind],
            'history %s: the %d elements are printed by %s (%d printer calls), but the rule calls for %s for each (%s; MRO of %s is %s)'
            % (desc, op[2], got, len(w.used), want, kind, op[1], ' > '.join(spec.mros[op[1]][:6])))
    elif op[0] in ('P', 'PT'):
        want, kind = spec.printer_for(op[1])
        r = w.print_(op[1], trailing=op[0] == 'PT')
        got = prov(r.value) if r.raised is None and r.value is not None else 'raised %s' % (r.raised.what if r.raised else '?')
        rule = {'class': 'C15.c', 'predicate': 'C15.f', 'repr': 'C15.f'}[kind]
        if probe and any(o[0] in ('P', 'PT', 'Q') for o in hist[:-1]):
            tally.check(got == repr('USED(%s)' % want), 'C15.d', 'lookups-leave-dispatch-unchanged',
                        'history %s: after the earlier lookups the value is printed by %s, but the registrations made call for %s: a lookup '
                        '(promotion of a deferred printer) changed what is dispatched' % (desc, got, want))
        tally.check(got == repr('USED(%s)' % want), rule, 'print:%s' % {'class': 'nearest-class-in-mro', 'predicate': 'first-accepting-predicate',
                                                                       'repr': 'repr-when-nothing-registered'}[kind],
                    'history %s: the value is printed by %s, but the rule calls for %s (%s; MRO of %s is %s)'
                    % (desc, got, want, kind, op[1], ' > '.join(spec.mros[op[1]])))
    else:
        c, fl = op[1], op[2]
        live0, def0, preds0, _ = _observe(w)
        r = w.query(c, fl)
        if fl['register_deferred'] and not fl['check_deferred']:
            tally.check(r.raised is not None and r.raised.what.startswith('ValueError'), 'C15.h', 'query:contradictory-flags-rejected',
                        'history %s: contradictory flags are not rejected with ValueError (result %s)' % (desc, prov(r.value) if r.value is not None else r.raised))
        else:
            want = spec.answer(c, fl)
            got = r.value.v if (r.raised is None and isinstance(r.value, Const)) else ('raised %s' % r.raised.what if r.raised else prov(r.value))
            tally.check(got in want, 'C15.e', 'query:answer[%s]' % _fl(fl),
                        'history %s: is_registered answers %s, but under the dispatch rule the answer is %s (MRO of %s is %s)'
                        % (desc, got, ' or '.join(map(str, sorted(want))), c, ' > '.join(spec.mros[c])))
        live1, def1, preds1, _ = _observe(w)
        if not fl['register_deferred']:
            tally.check((live0, def0, preds0) == (live1, def1, preds1), 'C15.b', 'query:read-only-without-register_deferred',
                        'history %s: with register_deferred=False the stores change from %s to %s' % (desc, (live0, def0), (live1, def1)))
    tally.check(not w.invisible, 'C15.i', 'registered-printer-visible-at-every-moment',
                'history %s: %s the printer registered for %s is in neither the live registry nor the deferred store - a thread '
                'printing at that moment falls back to repr' % (desc, w.invisible[0][0] if w.invisible else '', w.invisible[0][1] if w.invisible else ''))
    del w.invisible[:]
