"""C14 -- a failing printer is contained at the value it was printing."""
import ast

from engine import facts
from engine.astutil import src, call_name, dotted, Guards, enclosing_map, inside_try_body, handler_catches
from engine.flow import Flow, _walk_no_nested, default_raises
from engine.loader import AnalysisError
from . import wrapper as W

META = {
    'text': 'The wrapper pipeline interpreted (no execution) with failing printers - raising, RecursionError / MemoryError,'
            ' TypeError inside a printer that accepts the trailing comment, non-document and None return values; nested, re'
            'peated, below a cycle, with trailing comments: the failing value is replaced by repr(value) exactly there, sib'
            "lings and enclosing values are unaffected, one warning per failure naming the printer's module and qualified n"
            'ame, a non-document return value is an error attributed to the printer and contained by the enclosing printer '
            'call (a,b); typestate: every path of the wrapper ends the visit, handlers catch Exception only, the fallback c'
            'annot itself fail (may-raise inventory of the handlers); (e) nothing is remembered about a failure between cal'
            'ls (cone-write inventory).',
    'note': 'the exception hierarchy of builtins is tabled in the checker; a call of a tainted callable is assumed able to '
            'raise any Exception',
    'technique': 'static analysis: abstract interpretation of the wrapper pipeline with failing printer behaviours; typestate ov'
                 'er exception paths; effect inventory',
}
META['text'] += ' The warning template is a constant (the failure text is only substituted into it); printers that take the trailing comment through **kwargs are covered (signature objects with .parameters and .bind).'
META['text'] += ' Round 5: (e) a printer enters the live registry only as partial(<wrapper>, fn); the promotion write of the lookup is allowed under that condition.'


def run(repo, rep):
    rep.explanation = ('R-GUARD: C14.a every invocation of a user printer is exception-guarded (flow-based, '
                       'interprocedural to depth 3); C14.b fallback = repr(value) + warning helper(UserWarning, '
                       'module.qualname); C14.c visit window balanced on handler paths (C13.a machinery); C14.d '
                       'return-type validation polarity and dominance.')
    rep.not_decided = 'BaseException (the statement limits itself to Exception); the text of the warning beyond the printer name.'
    rep.assumptions = ['builtin exception hierarchy table', 'a user printer may raise any Exception']
    m = repo.module('prettyprinter')
    w, sites = W.invocation_sites(repo)
    value = w.params[1]
    rep.analysed['invocation_sites'] = ['%s:%d %s(...)' % (f.key, c.lineno, nm) for f, c, nm in sites]

    # ---------------------------------------------------------------- C14.a
    n = 0
    by_fn = {}
    for f, c, nm in sites:
        by_fn.setdefault(f.key, (f, []))[1].append((c, nm))
    for key, (f, calls) in sorted(by_fn.items()):
        par_f = enclosing_map(f.node)
        from engine.astutil import stmt_of
        stmt_line = {id(c): stmt_of(c, par_f).lineno for c, _ in calls}
        lines = set(stmt_line.values())
        tainted_names = {nm for _, nm in calls}

        def raises(st, state, _names=tainted_names):
            # every non-trivial call may raise (this is what makes handler bodies reachable);
            # escapes are attributed to their statement line below
            for nnode in _walk_no_nested(st):
                if isinstance(nnode, ast.Call) and isinstance(nnode.func, ast.Name) and nnode.func.id in _names:
                    return [(state, '*')]
            return default_raises(st, state)
        fl = Flow(lambda st, s: [s], raises)
        out = fl.run(f.node, 0)
        rep.count(fl.visited_stmts)
        escaping = sorted({ln for s, exc, ln in out.raises if ln in lines})
        for c, nm in calls:
            n += 1
            if stmt_line[id(c)] not in escaping:
                rep.ok('C14.a', '%s:call-of-%s@%s' % (f.qualname, nm, _ctx_of(f, c)), '%s:%d' % (f.module.relpath, c.lineno),
                       'no Exception from this printer call leaves %s unhandled' % f.name, nontrivial=True)
                continue
            ok, why = W.function_only_called_guarded(repo, f, w)
            rep.check(ok, 'C14.a', '%s:call-of-%s@%s' % (f.qualname, nm, _ctx_of(f, c)), '%s:%d' % (f.module.relpath, c.lineno),
                      'enclosing function only runs under an Exception guard',
                      'an Exception raised by the user printer called here escapes %s (%s): it propagates out of pformat '
                      'instead of degrading this one value to repr' % (f.name, why or 'no handler catches Exception'),
                      nontrivial=True)
    rep.floor('C14.a', n, 4)
    # the same pipeline interpreted with failing printers (raising, TypeError inside a comment-aware printer, non-document
    # return value; nested, repeated, below a cycle, with trailing comments) against the containment rule
    from . import wrapper_model
    rep.floor('C14.a:model', wrapper_model.run(repo, rep, 'C14'), 20)

    # predicates: user predicate calls also run under the wrapper
    # ---------------------------------------------------------------- C14.b
    n = 0
    warn = m.funcs.get(__import__('engine.roles', fromlist=['x']).name(repo, 'warn_helper'))
    if warn is None:
        # role: the function called in handlers with exc=
        for f in m.funcs.values():
            if any(isinstance(c, ast.Call) and call_name(c) == 'warnings.warn' for c in ast.walk(f.node)) \
                    and 'exc' in f.params:
                warn = f
    if warn is None:
        raise AnalysisError('warning helper for failing printers vanished')
    handled_fns = {f.key: f for f, _, _ in sites if f.module is m and f.name != __import__('engine.roles', fromlist=['x']).name(repo, 'base_printer')}
    for f in handled_fns.values():
        par = enclosing_map(f.node)
        result_var = None
        rets = [r for r in ast.walk(f.node) if isinstance(r, ast.Return) and isinstance(r.value, ast.Name)]
        if rets:
            result_var = rets[-1].value.id
        for h in [x for x in ast.walk(f.node) if isinstance(x, ast.ExceptHandler)]:
            # assignments to the result inside this handler body (not nested try bodies' normal path)
            for s in _direct_stmts(h.body):
                # the handler decides what stands for the failed print: ``doc = <fallback>`` or, in early-return style, ``return <fallback>``
                is_result = (isinstance(s, ast.Assign) and result_var and src(s.targets[0]) == result_var) or \
                    (isinstance(s, ast.Return) and s.value is not None and not isinstance(s.value, ast.Name))
                if is_result:
                    if isinstance(s.value, ast.Call) and isinstance(s.value.func, ast.Name) and \
                            s.value.func.id in {nm for _, _, nm in sites}:
                        continue    # the retry
                    n += 1
                    rep.check(src(s.value) == 'repr(%s)' % value, 'C14.b', '%s:fallback-doc@%d' % (f.qualname, _ordinal(f, h)),
                              '%s:%d' % (f.module.relpath, s.lineno), 'fallback document is repr(value)',
                              'after a printer failure the document becomes %s; the property requires repr(value)' % src(s.value),
                              nontrivial=True)
                    # same handler block warns with printer, value and the caught exception
                    blk = _block_of(s, h)
                    wc = [c for st in blk for c in ast.walk(st) if isinstance(c, ast.Call) and call_name(c) == warn.name]
                    n += 1
                    good = False
                    for c in wc:
                        a = [src(x) for x in c.args] + ['%s=%s' % (k.arg, src(k.value)) for k in c.keywords]
                        bound = _bound_exc_names(s, f)
                        exc_arg = [src(k.value) for k in c.keywords if k.arg == 'exc'] + ([src(c.args[2])] if len(c.args) > 2 else [])
                        good = len(c.args) >= 2 and src(c.args[0]) == w.params[0] and src(c.args[1]) == value \
                            and bool(exc_arg) and exc_arg[0] in bound
                    rep.check(good, 'C14.b', '%s:fallback-warns@%d' % (f.qualname, _ordinal(f, h)), '%s:%d' % (f.module.relpath, s.lineno),
                              'warning helper called with (printer, value, caught exception)',
                              'a printer failure is swallowed here without calling %s(%s, %s, exc=<caught exception>)'
                              % (warn.name, w.params[0], value), nontrivial=True)
    # warning helper facts
    wcalls = [c for c in ast.walk(warn.node) if isinstance(c, ast.Call) and call_name(c) == 'warnings.warn']
    n += 1
    rep.check(len(wcalls) == 1, 'C14.b', 'warn-helper:warns-once', warn.where, 'one warnings.warn', 'helper calls warnings.warn %d times' % len(wcalls))
    for c in wcalls:
        cat = src(c.args[1]) if len(c.args) > 1 else next((src(k.value) for k in c.keywords if k.arg == 'category'), 'UserWarning')
        n += 1
        rep.check(cat == 'UserWarning', 'C14.b', 'warn-helper:category', '%s:%d' % (m.relpath, c.lineno), 'category UserWarning',
                  'the failure warning is issued with category %s' % cat, nontrivial=True)
    # (that the message names the printer is decided on the interpreted pipeline: wrapper-model:warning-names-printer)
    rep.floor('C14.b', n, 5)

    # ---------------------------------------------------------------- C14.e later calls unaffected
    from . import shared_state as SS
    n_inv = SS.check_write_inventory(repo, rep, 'C14.e')[0]
    rep.floor('C14.e', n_inv, 4)
    # the warning helper itself cannot raise on an odd exception (empty message ...)
    n = 0
    for c in ast.walk(warn.node):
        if isinstance(c, ast.Subscript) and isinstance(c.ctx, ast.Load) and isinstance(c.slice, ast.Constant) \
                and isinstance(c.slice.value, int) and isinstance(c.value, ast.Call):
            n += 1
            base = c.value
            safe = isinstance(base.func, ast.Attribute) and base.func.attr in ('split', 'rsplit', 'partition', 'rpartition') and base.args
            rep.check(safe, 'C14.b', 'warn-helper:index:%s' % src(c)[:50], '%s:%d' % (warn.module.relpath, c.lineno),
                      'indexing a never-empty result', 'the warning helper evaluates %s, which raises IndexError when the sequence is empty '
                      '(e.g. an exception with an empty message): the failure handler itself fails and the error escapes the value being '
                      'printed' % src(c), nontrivial=True)
    # a format template built from the failure itself (exception text, traceback lines, the value's repr) is parsed for replacement fields:
    # a '{' or '}' in it makes str.format raise inside the handler
    wdefs = {}
    for a in ast.walk(warn.node):
        if isinstance(a, ast.Assign) and len(a.targets) == 1 and isinstance(a.targets[0], ast.Name):
            wdefs.setdefault(a.targets[0].id, []).append(a.value)

    def const_text(e, depth=0):
        if isinstance(e, ast.Constant) and isinstance(e.value, str):
            return True
        if isinstance(e, ast.BinOp) and isinstance(e.op, ast.Add):
            return const_text(e.left, depth) and const_text(e.right, depth)
        if isinstance(e, ast.Name) and depth < 4:
            ds = wdefs.get(e.id)
            if ds:
                return all(const_text(d, depth + 1) for d in ds)
            r_ = repo.resolve(warn.module, e.id)
            if r_ and r_[0] == 'const':
                return const_text(r_[2], depth + 1)
            return False
        return False
    for c in ast.walk(warn.node):
        tmpl = None
        if isinstance(c, ast.Call) and isinstance(c.func, ast.Attribute) and c.func.attr in ('format', 'format_map'):
            tmpl = c.func.value
        elif isinstance(c, ast.BinOp) and isinstance(c.op, ast.Mod) and not (isinstance(c.left, ast.Constant) and not isinstance(c.left.value, str)):
            tmpl = c.left if not isinstance(c.left, ast.Constant) or isinstance(c.left.value, str) else None
        if tmpl is None:
            continue
        n += 1
        rep.check(const_text(tmpl), 'C14.b', 'warn-helper:format-template-is-constant', '%s:%d' % (warn.module.relpath, c.lineno),
                  'the message template is a constant; the failure is only substituted into it',
                  'the warning helper uses %s as a format template, which contains text taken from the failure: a brace (or %%) in the exception '
                  'message or in a traceback line makes the formatting raise inside the handler, and the error escapes instead of degrading '
                  'the one value to its repr' % src(tmpl)[:80].replace('\n', ' '), nontrivial=True)
    rep.count(n)

    # ---------------------------------------------------------------- C14.c
    n = W.visit_pairing(repo, rep, 'C14.c')
    rep.floor('C14.c', n, 6)

    # ---------------------------------------------------------------- C14.d
    # a non-document result is an error of the printer (ValueError at top level, contained like any failure below one): decided on the
    # interpreted pipeline - scenarios "printer returning None", "non-document return value ..." of the wrapper model above (C14.a
    # instances whose label says so); a validation with the wrong polarity makes every leaf printer of every scenario fail
    n = sum(1 for i in rep.instances if i.rule == 'C14.a' and ('non-document' in i.construct or 'returning None' in i.construct))
    rep.floor('C14.d', n, 3)


def _ctx_of(f, c):
    """stable label of a call site: the chain of enclosing try/handler kinds"""
    par = enclosing_map(f.node)
    labels = []
    node = c
    p = par.get(id(node))
    while p is not None:
        if isinstance(p, ast.ExceptHandler):
            labels.append('except-' + (src(p.type) if p.type is not None else 'all'))
        elif isinstance(p, ast.Try) and any(node is s for s in p.body):
            labels.append('try')
        elif isinstance(p, ast.If):
            labels.append('if' if any(node is s for s in p.body) else 'else')
        node = p
        p = par.get(id(node))
    kws = ','.join(k.arg or '**' for k in c.keywords)
    return '/'.join(reversed(labels)) + ('[%s]' % kws if kws else '')


def _direct_stmts(body):
    """statements of a handler body including nested if/else/try-else/handlers, in order"""
    for st in body:
        yield st
        if isinstance(st, ast.If):
            yield from _direct_stmts(st.body)
            yield from _direct_stmts(st.orelse)
        elif isinstance(st, ast.Try):
            yield from _direct_stmts(st.orelse)
            yield from _direct_stmts(st.finalbody)
        elif isinstance(st, (ast.With, ast.For, ast.While)):
            yield from _direct_stmts(st.body)


def _block_of(stmt, root):
    """the statement list that directly contains stmt, searching below root"""
    for node in ast.walk(root):
        for fld in ('body', 'orelse', 'finalbody'):
            blk = getattr(node, fld, None)
            if isinstance(blk, list) and any(x is stmt for x in blk):
                return blk
    return [stmt]


def _bound_exc_names(stmt, f):
    """names bound by ``except ... as name`` handlers enclosing stmt"""
    par = enclosing_map(f.node)
    out = set()
    p = par.get(id(stmt))
    while p is not None:
        if isinstance(p, ast.ExceptHandler) and p.name:
            out.add(p.name)
        p = par.get(id(p))
    return out


def _ordinal(f, h):
    hs = [x for x in ast.walk(f.node) if isinstance(x, ast.ExceptHandler)]
    hs.sort(key=lambda x: (x.lineno, x.col_offset))
    return hs.index(h)


def _flows_to(fn, pname, call):
    """the printer name parts flow into the warn call (directly or via one temporary)"""
    txt = src(call)
    if pname + '.__qualname__' in txt:
        return True
    for s in ast.walk(fn):
        if isinstance(s, ast.Assign) and isinstance(s.targets[0], ast.Name) and (pname + '.__qualname__') in src(s.value):
            if any(isinstance(x, ast.Name) and x.id == s.targets[0].id for x in ast.walk(call)):
                return True
    return False


def _is_not_of(test):
    return isinstance(test, ast.UnaryOp) and isinstance(test.op, ast.Not)


def _strip_not(test):
    while isinstance(test, ast.UnaryOp) and isinstance(test.op, ast.Not):
        test = test.operand
    return test


def _isinstance_types(test, var):
    out = []
    nodes = test.values if isinstance(test, ast.BoolOp) and isinstance(test.op, ast.Or) else [test]
    for nnode in nodes:
        if isinstance(nnode, ast.Call) and call_name(nnode) == 'isinstance' and len(nnode.args) == 2 \
                and src(nnode.args[0]) == var:
            t = nnode.args[1]
            for e in (t.elts if isinstance(t, ast.Tuple) else [t]):
                d = dotted(e)
                if d:
                    out.append(d.split('.')[-1])
    return out
