"""C07.h -- semantic shape of the standard-library printers, by abstract interpretation.

Each printer is interpreted on a symbolic value; for every path the call it prints is compared with a per-type
specification phrased over *path facts* (what the path assumed about the value) and *provenances* (which attribute or
arithmetic expression each printed argument comes from) -- independent of how the source spells its conditions."""
import ast

from engine import docterm as D
from engine.interp import Const, Sym, SymStr, ListV, TupleV, ValueV, CtxV, DocV, TypeV, Undecided, prov
from engine.loader import AnalysisError
from . import shape as S


def _facts(pr):
    return {k: v for k, v in pr.facts}


def _is(f, a, b):
    """truth value the path assumed for 'a == b' (either orientation); None if not assumed"""
    for k, v in f.items():
        if ' == ' in k:
            l, r = k.split(' == ', 1)
            if {l, r} == {a, b}:
                return v
    return None


def _call(t):
    while isinstance(t, (D.Grp, D.Ann)):
        t = t.child
    if isinstance(t, D.Cat):
        calls = [x for x in t.items if isinstance(_call(x), D.Call)]
        return _call(calls[0]) if len(calls) == 1 else None
    return t if isinstance(t, D.Call) else None


_DEP_CACHE = {}


def attribute_dependence(repo, f):
    """names X such that the document ``f`` prints for a value, or the choice between its paths, depends on ``value.X`` (or on
    ``value.X(...)``): read off the interpreted paths of the printer, so it does not matter whether the attribute is read in the
    printer itself, in a helper, through getattr with a name from a table ...  None when the printer cannot be interpreted."""
    import re
    key = (id(repo), f.key)
    if key in _DEP_CACHE and _DEP_CACHE[key][0] is repo:
        return _DEP_CACHE[key][1]

    def p_classattr(it, a, k, nd):
        return DocV(D.Lit('classattr(%s,%s)' % (prov(a[0]), prov(a[1])), role='identifier'))
    it = S.interp(repo, 'printer', {'pretty_str': S.p_pretty_str_as_sub, 'classattr': p_classattr}, max_paths=6000)
    v = f.params[0]
    out = None
    try:
        prs = it.explore(f, [ValueV(v, TypeV('T'), None), CtxV()], {})
        text = []
        for pr in prs:
            text.append(pr.fact_text())
            if pr.raised is None:
                try:
                    text.append(D.show(it.as_term(pr.value)))
                except Exception:
                    text.append(repr(pr.value))
        out = set(re.findall(r'(?<![\w.])(?:abs\()?%s\)?\.(\w+)' % re.escape(v), ' '.join(text)))
    except Exception:
        out = None
    if len(_DEP_CACHE) > 200:
        _DEP_CACHE.clear()
    _DEP_CACHE[key] = (repo, out)
    return out


def run_shape(repo, rep):
    m = repo.module('pretty_stdlib')
    n = 0

    def p_classattr(it, a, k, nd):
        return DocV(D.Lit('classattr(%s,%s)' % (prov(a[0]), prov(a[1])), role='identifier'))
    it = S.interp(repo, 'printer', {'pretty_str': S.p_pretty_str_as_sub, 'classattr': p_classattr}, max_paths=6000)

    def paths(name):
        f = m.funcs.get(name)
        if f is None:
            raise AnalysisError('pretty_stdlib.%s vanished' % name)
        v = ValueV(f.params[0], TypeV('T'), None)
        return f, f.params[0], it.explore(f, [v, CtxV()], {})

    def check(ok, name, label, f, good, bad):
        nonlocal n
        n += 1
        rep.check(ok, 'C07.h', '%s:%s' % (name, label), f.where, good, bad, nontrivial=True)

    # ------------------------------------------------------------------ fixed-shape printers
    fixed = {
        'pretty_date': lambda v: (['%s.year' % v, '%s.month' % v, '%s.day' % v], []),
        'pretty_ordereddict': lambda v: (['list(%s.items())' % v], []),
        'pretty_counter': lambda v: (['%s.most_common()' % v], []),
        'pretty_defaultdict': lambda v: (['%s.default_factory' % v, v], []),
        'pretty_baseexception': lambda v: (['*%s.args' % v], []),
        'pretty_uuid': lambda v: (['str(%s)' % v], []),
        'pretty_mappingproxy': lambda v: ([v], []),
        'pretty_partial': lambda v: (['*([%s.func]+%s.args)' % (v, v)], [('**', '%s.keywords' % v)]),
    }
    for name, spec in fixed.items():
        try:
            f, v, prs = paths(name)
        except Undecided as e:
            rep.undecided('C07.h', name, m.relpath, str(e))
            continue
        rep.count(len(prs))
        wa, wk = spec(v)
        for pr in prs:
            t = _call(it.as_term(pr.value)) if pr.raised is None else None
            check(t is not None and t.args == wa and t.kwargs == wk and t.fn in ('ident(T)', 'ident(date)'), name, 'call{%s}' % pr.fact_text()[:40], f,
                  'prints type(value)(%s%s)' % (', '.join(wa), ''.join(', %s=%s' % kv for kv in wk)),
                  '%s prints %s, expected the constructor called with (%s%s): the printed expression no longer rebuilds an equal object'
                  % (name, D.show(t) if t is not None else (pr.raised.what if pr.raised else None), ', '.join(wa), ''.join(', %s=%s' % kv for kv in wk)))
    # enum
    try:
        f, v, prs = paths('pretty_enum')
        for pr in prs:
            t = it.as_term(pr.value) if pr.raised is None else None
            check(isinstance(t, D.Lit) and t.prov == 'classattr(T,%s.name)' % v, 'pretty_enum', 'member', f, 'Class.member_name',
                  'pretty_enum prints %s' % (D.show(t) if t is not None else None))
    except Undecided as e:
        rep.undecided('C07.h', 'pretty_enum', m.relpath, str(e))

    # ------------------------------------------------------------------ deque
    try:
        f, v, prs = paths('pretty_deque')
        for pr in prs:
            t = _call(it.as_term(pr.value)) if pr.raised is None else None
            fa = _facts(pr)
            none = _is(fa, 'None', '%s.maxlen' % v)
            want_kw = [] if none else [("'maxlen'", '%s.maxlen' % v)]
            check(t is not None and t.args == ['list(%s)' % v] and t.kwargs == want_kw and none is not None, 'pretty_deque', 'maxlen-%s' % ('none' if none else 'set'), f,
                  'deque(list(value)[, maxlen=value.maxlen]) with maxlen exactly when it is not None',
                  'on the path (%s) pretty_deque prints %s' % (pr.fact_text()[:80], D.show(t) if t is not None else None))
    except Undecided as e:
        rep.undecided('C07.h', 'pretty_deque', m.relpath, str(e))

    # ------------------------------------------------------------------ ChainMap
    try:
        f, v, prs = paths('pretty_chainmap')
        for pr in prs:
            t = _call(it.as_term(pr.value)) if pr.raised is None else None
            fa = _facts(pr)
            maps_true = fa.get('truthy(%s.maps)' % v)
            one = _is(fa, '1', 'len(%s.maps)' % v)
            first_true = fa.get('truthy(%s.maps[0])' % v)
            is_default = (maps_true is False) or (one is True and first_true is False)
            if t is not None and not t.args:
                check(is_default, 'pretty_chainmap', 'empty-call{%s}' % pr.fact_text()[:50], f,
                      'ChainMap() only for no maps / a single empty map',
                      'on the path (%s) pretty_chainmap prints the argument-less call although the value is not known to equal ChainMap(): '
                      'the parent maps are lost' % pr.fact_text()[:120])
            else:
                check(t is not None and t.args == ['*%s.maps' % v], 'pretty_chainmap', 'maps{%s}' % pr.fact_text()[:50], f, 'ChainMap(*value.maps)',
                      'pretty_chainmap prints %s' % (D.show(t) if t is not None else None))
    except Undecided as e:
        rep.undecided('C07.h', 'pretty_chainmap', m.relpath, str(e))

    # ------------------------------------------------------------------ datetime / time
    for name, fields, positional in (('pretty_datetime', ['year', 'month', 'day', 'hour', 'minute', 'second', 'microsecond'], ('year', 'month', 'day')),
                                     ('pretty_time', ['hour', 'minute', 'second', 'microsecond'], None)):
        try:
            f, v, prs = paths(name)
        except Undecided as e:
            rep.undecided('C07.h', name, m.relpath, str(e))
            continue
        rep.count(len(prs))
        bad = None
        for pr in prs:
            if pr.raised is not None:
                bad = (pr, 'raises %s' % pr.raised.what)
                break
            t = _call(it.as_term(pr.value))
            if t is None:
                bad = (pr, 'no call document')
                break
            fa = _facts(pr)
            if name == 'pretty_datetime' and any(_is(fa, '0', '%s.%s' % (v, x)) for x in ('day', 'month', 'year')):
                continue        # day / month / year of a datetime are never 0: infeasible path
            kw = dict((k.strip("'"), val) for k, val in t.kwargs)
            printed = dict(kw)
            if positional and t.args:
                if t.args != ['%s.%s' % (v, p) for p in positional]:
                    bad = (pr, 'positional arguments %s' % t.args)
                    break
                printed.update({p: '%s.%s' % (v, p) for p in positional})
            order = [k for k in kw if k in fields]
            if order != [x for x in fields if x in order]:
                bad = (pr, 'keyword order %s' % order)
                break
            seen_nonzero = False
            for fld in fields:
                if fld in printed:
                    seen_nonzero = True
                    if printed[fld] != '%s.%s' % (v, fld):
                        bad = (pr, '%s=%s' % (fld, printed[fld]))
                else:
                    if _is(fa, '0', '%s.%s' % (v, fld)) is not True:
                        bad = (pr, '%s omitted although not known to be 0' % fld)
            tz_none = _is(fa, 'None', '%s.tzinfo' % v)
            if ('tzinfo' in kw) != (tz_none is False) or (('tzinfo' in kw) and kw['tzinfo'] != '%s.tzinfo' % v):
                bad = (pr, 'tzinfo printed=%s although "tzinfo is None" assumed %s' % ('tzinfo' in kw, tz_none))
            if tz_none is None:
                bad = (pr, 'tzinfo omitted although the path never established that it is None (an aware value prints as a naive one)')
            fold_on = fa.get('truthy(%s.fold)' % v)
            if fold_on is None:
                z = _is(fa, '0', '%s.fold' % v)
                fold_on = None if z is None else (not z)
            if ('fold' in kw) != bool(fold_on):
                bad = (pr, 'fold printed=%s although fold assumed %s' % ('fold' in kw, fold_on))
            if fold_on is None:
                bad = (pr, 'fold omitted although the path never established that it is 0')
            if bad:
                break
        check(bad is None, name, 'fields', f, 'every field printed from its own attribute, omitted only when 0 / None, in constructor order',
              'on the path (%s) %s is wrong: %s' % (bad[0].fact_text()[:140] if bad else '', name, bad[1] if bad else ''))

    # ------------------------------------------------------------------ timedelta
    try:
        f, v, prs = paths('pretty_timedelta')
    except Undecided as e:
        rep.undecided('C07.h', 'pretty_timedelta', m.relpath, str(e))
        prs = []
    if prs:
        rep.count(len(prs))
        A = 'abs(%s)' % v
        expect = {
            'days': '%s.days' % A,
            'hours': '((%s.seconds//60)//60)' % A,
            'minutes': '((%s.seconds//60)%%60)' % A,
            'seconds': '(%s.seconds%%60)' % A,
            'milliseconds': '(%s.microseconds//1000)' % A,
            'microseconds': '(%s.microseconds%%1000)' % A,
        }
        bad = None
        for pr in prs:
            if pr.raised is not None:
                bad = (pr, 'raises %s' % pr.raised.what)
                break
            fa = _facts(pr)
            if pr.assumed('depth_left', True):
                continue
            term = it.as_term(pr.value)
            t = _call(term)
            if t is None:
                bad = (pr, 'no call document: %s' % D.show(term)[:80])
                break
            kw = dict((k.strip("'"), val) for k, val in t.kwargs)
            order = list(kw)
            if order != [x for x in expect if x in order]:
                bad = (pr, 'keyword order %s' % order)
                break
            for comp, e in expect.items():
                zero = _is(fa, '0', e)
                if comp in kw:
                    val = kw[comp]
                    shown = D.show(val) if isinstance(val, D.T) else str(val)
                    if comp == 'days':
                        if zero is not False:
                            bad = (pr, 'days printed although "%s == 0" assumed %s' % (e, zero))
                        # either the plain value or the years * 365 + rest decomposition of it
                        ok_plain = shown == 'Sub(%s)' % e
                        ok_split = ('(%s//365)' % e in shown or '365' in shown) and ('(%s%%365)' % e in shown or _is(fa, '0', '(%s%%365)' % e) is not None
                                                                                   or fa.get('truthy((%s%%365))' % e) is False)
                        if not (ok_plain or ok_split):
                            bad = (pr, 'days=%s' % shown[:100])
                    else:
                        if zero is not False or shown != 'Sub(%s)' % e:
                            bad = (pr, '%s=%s (expected %s, non-zero)' % (comp, shown[:60], e))
                else:
                    if zero is not True:
                        bad = (pr, '%s omitted although "%s == 0" assumed %s' % (comp, e, zero))
            neg = _is(fa, A, v)
            has_neg = isinstance(term, D.Cat) and any(D.text_of(x) == '-' for x in term.items)
            if neg is None or has_neg != (neg is False):
                bad = (pr, 'sign: "-" printed=%s although abs(delta) == delta assumed %s' % (has_neg, neg))
            if bad:
                break
        check(bad is None, 'pretty_timedelta', 'components', f,
              'each component printed from its own part of abs(delta), omitted only when that part is 0; "-" exactly for negative deltas',
              'pretty_timedelta on the path (%s): %s' % (bad[0].fact_text()[-160:] if bad else '', bad[1] if bad else ''))

    # ------------------------------------------------------------------ timezone
    try:
        f, v, prs = paths('pretty_timezone')
        for pr in prs:
            t = it.as_term(pr.value) if pr.raised is None else None
            fa = _facts(pr)
            utc = _is(fa, 'timezone.utc', v)
            c = _call(t) if t is not None else None
            if utc:
                check(t is not None and D.text_of(t) == 'datetime.timezone.utc', 'pretty_timezone', 'utc', f, 'utc printed as datetime.timezone.utc',
                      'pretty_timezone prints %s for utc' % (D.show(t) if t is not None else None))
            else:
                ok = c is not None and c.fn == 'ident(timezone)' and c.args and c.args[0] == '%s.utcoffset(None)' % v and \
                    (len(c.args) == 1 or c.args[1] == '%s.tzname(None)' % v)
                check(ok, 'pretty_timezone', 'offset{%s}' % pr.fact_text()[-40:], f, 'timezone(offset[, name]) from the public accessors',
                      'pretty_timezone prints %s' % (D.show(t) if t is not None else None))
    except Undecided as e:
        rep.undecided('C07.h', 'pretty_timezone', m.relpath, str(e))

    # ------------------------------------------------------------------ pytz zones
    # a zone is printed by name - pytz.utc, pytz.timezone(zone) - only on paths that established that this expression is equal to
    # the value (pytz keeps one canonical object per name; the per-period objects that localize() attaches carry the same name but
    # are different zones); everything else is rebuilt from its state
    it.prims['pytz.timezone'] = lambda it_, a, k, nd: Sym('pytz.timezone(%s)' % prov(a[0]))
    for name in ('pretty_pytz_dst_timezone', 'pretty_pytz_timezone'):
        if name not in m.funcs:
            continue
        try:
            f, v, prs = paths(name)
        except Undecided as e:
            rep.undecided('C07.h', name, m.relpath, str(e))
            continue
        rep.count(len(prs))
        for pr in prs:
            t = it.as_term(pr.value) if pr.raised is None else None
            fa = _facts(pr)
            c = _call(t) if t is not None else None
            txt = D.text_of(t) if t is not None and c is None else None
            if txt == 'pytz.utc':
                ok, want = _is(fa, 'pytz.utc', v) is True, 'pytz.utc == value established'
            elif c is not None and c.fn == 'ident(pytz.timezone)':
                ok = c.args == ['%s.zone' % v] and not c.kwargs and \
                    (name == 'pretty_pytz_timezone' or _is(fa, 'pytz.timezone(%s.zone)' % v, v) is True)
                want = 'pytz.timezone(value.zone) == value established'
            elif c is not None and c.fn == 'ident(pytz.tzinfo.DstTzInfo)':
                ok = c.args == ['[%s._utcoffset,%s._dst,%s._tzname]' % (v, v, v)] and not c.kwargs
                want = 'rebuilt from (utcoffset, dst, tzname)'
            else:
                ok, want = False, 'a by-name expression or the constructor from the state'
            check(ok, name, 'zone{%s}' % pr.fact_text()[-50:], f, want,
                  'on the path (%s) %s prints %s although it is not known to denote the value (%s): the printed zone is a different zone - '
                  'e.g. the LMT period of the name instead of the period attached by localize()' % (
                      pr.fact_text()[:120], name, D.show(t) if t is not None else (pr.raised.what if pr.raised else None), want))
    return n
