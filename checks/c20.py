"""C20 -- concurrent printing from several threads is safe (static race detection)."""
import ast

from engine import effects
from engine.astutil import src, call_name, dotted, Guards, enclosing_map
from engine.loader import AnalysisError
from . import shared_state as SS

META = {
    'text': 'Static race detection for a for-all-schedules property: over the complete inventory of module-level '
            'mutable objects written by functions reachable from the printing pipeline (call graph from '
            'python_to_sdocs, every registered printer, layout, renderer), (a) no check-then-act pair - a membership / '
            'get / truthiness test followed in the same function by pop(k) without default, a keyed read or del on an '
            'object that has a remover anywhere, with no common module-level lock held - exists; (a2) promotion '
            'publishes the printer in the live registry before retracting it from the deferred store on every path, '
            'so a concurrent reader finds it in at least one store; (b) every remaining write in the cone is a single '
            'container operation from an allow-list with a history-independence reason; (c) shared document constants '
            'are never mutated. Lockset is empty (the package holds no lock), so every pair counts. The outcome of a '
            'concrete interleaving is NOT decided; CPython single-operation atomicity and functools.singledispatch '
            'internals are trusted.',
    'note': 'assumes the GIL makes single dict/list operations atomic; cpprint\'s palette mutation is outside the property',
    'technique': 'static analysis: lockset / check-then-act detection over an effect inventory restricted to the print '
                 'cone (call-graph reachability), must-precede ordering by guard facts and statement order',
}
META['text'] += ' Round 5: (a) no Python-level loop over a shared dict / set that the printing pipeline resizes; (c) the immutability model includes the scaled documents.'


def run(repo, rep):
    rep.explanation = ('R-RACE: C20.a check-then-act pairs on shared state in the print cone; C20.a2 publish-before-retract '
                       'ordering of promotion; C20.b remaining writes from the allow-list; C20.c shared documents immutable.')
    rep.not_decided = 'behaviour under a concrete schedule; races inside functools / weakref.'
    rep.assumptions = ['CPython GIL: single dict / list operations are atomic', 'functools.singledispatch trusted']
    n_inv, cone, shared, sites, cone_sites = SS.check_write_inventory(repo, rep, 'C20.b')
    rep.floor('C20.b', n_inv, 4)
    rep.floor('C20.b:promotion', SS.promotion_consistency(repo, rep, 'C20.b'), 3)
    rep.floor('C20.d', SS.fresh_visited(repo, rep, 'C20.d'), 8)
    lock_names = {name for (_, name) in SS.locks(repo)}
    rep.analysed['locks'] = sorted(lock_names)
    # C20.e: locks are waited for.  A try-lock (acquire(False) / acquire(blocking=False) / a timeout) inside the printing pipeline has a
    # branch for "somebody else holds it" - on that branch the thread goes on without the work the lock protects (a promotion that is
    # skipped: the printer is in neither registry for this call), which is exactly an interleaving-dependent result.
    ne = 0
    fns_ = {f.key: f for f in repo.all_functions()}
    for k_ in sorted(cone):
        f = fns_.get(k_)
        if f is None:
            continue
        for c in ast.walk(f.node):
            if isinstance(c, ast.Call) and isinstance(c.func, ast.Attribute) and c.func.attr == 'acquire':
                ne += 1
                nonblocking = any(k.arg in ('blocking', 'timeout') and not (k.arg == 'blocking' and isinstance(k.value, ast.Constant) and k.value.value is True)
                                  for k in c.keywords) or \
                    (c.args and not (isinstance(c.args[0], ast.Constant) and c.args[0].value is True))
                rep.check(not nonblocking, 'C20.e', '%s:acquire:%s' % (f.qualname, src(c.func.value)), '%s:%d' % (f.module.relpath, c.lineno),
                          'blocking acquire', '%s tries %s without waiting (%s): when another thread holds the lock this call goes on without the '
                          'protected step, so its result depends on the interleaving' % (f.key, src(c.func.value), src(c)), nontrivial=True)
    rep.count(ne)
    written = {s.obj.key for s in cone_sites if s.kind == 'write'}
    removers = {}
    for s in sites:
        if s.kind == 'write' and s.detail in SS.REMOVERS:
            removers.setdefault(s.obj.key, []).append(s)

    # ---------------------------------------------------------------- C20.a
    n = 0
    by_fn = {}
    for s in cone_sites:
        if s.obj.key in written:
            by_fn.setdefault((s.fn.key, s.obj.key), []).append(s)
    for (fk, ok), ss in sorted(by_fn.items()):
        ss.sort(key=lambda s: (s.node.lineno, s.node.col_offset))
        tests = [s for s in ss if s.kind == 'read' and (s.detail in ('in', 'get') or s.detail.startswith('in'))]
        for t in tests:
            for a in ss:
                if a.node.lineno < t.node.lineno or a is t:
                    continue
                risky = None
                if a.kind == 'write' and a.detail == 'pop' and len(a.node.args) < 2 and not a.node.keywords:
                    risky = 'pop(%s) without default raises KeyError when another thread popped the key first' % src(a.node.args[0])
                elif a.kind == 'write' and a.detail == 'delitem' :
                    risky = 'del raises KeyError when another thread removed the key first'
                elif a.kind == 'write' and a.detail == 'remove':
                    risky = 'remove raises when another thread removed the element first'
                elif a.kind == 'read' and a.detail == 'getitem' and removers.get(ok):
                    risky = 'keyed read raises KeyError when another thread removed the key (removers: %s)' % [r.where for r in removers[ok]]
                if risky is None:
                    continue
                n += 1
                common = SS.held_locks(t.node, t.fn.node, lock_names) & SS.held_locks(a.node, a.fn.node, lock_names)
                rep.check(bool(common), 'C20.a', '%s:check-then-act:%s:%s->%s' % (t.fn.qualname, t.obj.name, t.detail, a.detail),
                          a.where, 'test and act under a common lock',
                          'unsynchronised check-then-act on shared %s in %s: test at line %d, then %s (no lock is held across both)'
                          % (t.obj.key, t.fn.key, t.node.lineno, risky), nontrivial=True)
    # iterate-while-resized: a Python-level loop (for / comprehension) over a shared dict or set - or over a view of it - inside the
    # printing pipeline, when some function of the pipeline adds or removes keys of that object: another thread's print resizes it
    # between two steps of the loop and the loop raises RuntimeError (dictionary changed size during iteration).  A snapshot taken by
    # one call (list(d), tuple(d), sorted(d), d.copy()) is a single operation and is not a loop over the live object.
    for f, o, lp, w0 in _iterates_while_resized(repo, cone, shared, cone_sites):
        n += 1
        common = SS.held_locks(lp.iter, f.node, lock_names) & SS.held_locks(w0.node, w0.fn.node, lock_names)
        rep.check(bool(common), 'C20.a', '%s:iterates-while-resized:%s' % (f.qualname, o.name), '%s:%d' % (f.module.relpath, lp.iter.lineno),
                  'loop and resizing write under a common lock',
                  '%s loops over the shared %s %s (%s) while %s %s it at %s: a concurrent print resizes it between two steps of the loop, which '
                  'then raises RuntimeError (changed size during iteration)' % (f.key, o.kind, o.key, src(lp.iter), w0.fn.key, w0.detail, w0.where), nontrivial=True)
    # positive control of that rule (its expected count on the tree is zero)
    n += 1
    ctl2 = _control_iterates()
    rep.check(ctl2, 'C20.a', 'control:loop-over-resized-dict-is-recognised', 'selfcheck', 'rule matches its positive example',
              'the iterate-while-resized matcher no longer recognises "for k in D: ..." next to "D.pop(k)"')
    if not ctl2:
        rep.error('positive control of C20.a (iterate-while-resized) failed')
    # positive control: the rule must still recognise the classic shape (kept as an in-memory example)
    ctl = _control_fires()
    n += 1
    rep.check(ctl, 'C20.a', 'control:classic-check-then-pop-is-recognised', 'selfcheck', 'rule matches its positive example',
              'the check-then-act matcher no longer recognises "if k in D: D.pop(k)"')
    if not ctl:
        rep.error('positive control of C20.a failed')
    rep.floor('C20.a', n, 1)

    # ---------------------------------------------------------------- C20.a2 publish before retract
    n = 0
    m = repo.module('prettyprinter')
    for f in repo.all_functions():
        if f.key not in cone or f.module is not m:
            continue
        pops = [c for c in ast.walk(f.node) if isinstance(c, ast.Call) and call_name(c) == __import__('engine.roles', fromlist=['x']).name(repo, 'deferred_store') + '.pop']
        if not pops:
            continue
        par = enclosing_map(f.node)
        for p in sorted(pops, key=lambda c: c.lineno):
            n += 1
            rep.check(len(p.args) >= 2, 'C20.a2',
                      '%s:retract-tolerates-concurrent-retract@%s' % (f.qualname, 'scan' if any(isinstance(x, ast.For) for x in _anc(p, par)) else 'exact'),
                      '%s:%d' % (f.module.relpath, p.lineno),
                      'removal tolerates a concurrent removal (pop with a default)',
                      'the deferred entry is removed with pop(k) without a default: when two threads promote the same class the second '
                      'pop raises KeyError', nontrivial=True)
    # ordering, semantically: in every interpreted registration history the printer registered for a class is, after every
    # single store mutation, in the live registry or in the deferred store (C15.i)
    n += SS.promotion_consistency(repo, rep, 'C20.a2', rules=('C15.i',),
                                  why='a thread arriving in between finds the printer in neither registry (falls back to repr)')
    rep.floor('C20.a2', n, 2)

    # ---------------------------------------------------------------- C20.c
    n = SS.doc_object_stores(repo, rep, 'C20.c')
    rep.floor('C20.c', n, 6)
    rep.count(len(cone_sites))


def _anc(node, par):
    out = []
    p = par.get(id(node))
    while p is not None:
        out.append(p)
        p = par.get(id(p))
    return out


def _block_containing(node, root):
    best = None
    for nn in ast.walk(root):
        for fld in ('body', 'orelse', 'finalbody'):
            blk = getattr(nn, fld, None)
            if isinstance(blk, list) and any(node in list(ast.walk(s)) for s in blk):
                best = blk
    return best


def _iterates_while_resized(repo, cone, shared, cone_sites):
    """[(function, shared object, loop / comprehension node, one resizing write)]: Python-level loops over a shared dict / set (or a
    view of it) in the cone, where some function of the cone adds or removes keys of that object"""
    RESIZERS = set(SS.REMOVERS) | {'setitem', 'delitem', 'update', 'setdefault', 'add', 'discard', 'clear', 'popitem'}
    resized = {}
    for s in cone_sites:
        if s.kind == 'write' and s.detail in RESIZERS and s.obj.kind in ('dict', 'set'):
            resized.setdefault(s.obj.key, []).append(s)
    fns_by_key = {f.key: f for f in repo.all_functions()}
    out = []
    for fk in sorted(cone):
        f = fns_by_key.get(fk)
        if f is None:
            continue
        shared_names = {o.name: o for (mn, nm), o in shared.items() if o.module is f.module} if isinstance(shared, dict) else {}
        for lp in ast.walk(f.node):
            if not isinstance(lp, (ast.For, ast.comprehension)):
                continue
            itx = lp.iter
            if isinstance(itx, ast.Call) and isinstance(itx.func, ast.Attribute) and itx.func.attr in ('items', 'keys', 'values') and not itx.args:
                itx = itx.func.value
            if not isinstance(itx, ast.Name):
                continue
            o = shared_names.get(itx.id)
            if o is None or o.key not in resized:
                continue
            out.append((f, o, lp, resized[o.key][0]))
    return out


def _control_iterates():
    from engine.loader import Repo
    ctl_src = (
        "_D = {}\n"
        "def f():\n"
        "    return [k for k in _D.keys() if k]\n"
        "def g(k):\n"
        "    _D.pop(k, None)\n"
    )
    try:
        repo = Repo(None, {'prettyprinter/_verif_control.py': ctl_src})
        shared = effects.shared_objects(repo)
        sites = effects.sites(repo, shared)
        cone = {f.key for f in repo.all_functions()}
        found = _iterates_while_resized(repo, cone, shared, [s for s in sites if s.fn is not None])
    except Exception:
        return False
    return len(found) == 1 and found[0][0].name == 'f' and found[0][1].name == '_D'


def _control_fires():
    """tiny positive example for a rule whose expected count on the tree is zero"""
    from engine.loader import Repo
    import os
    ctl_src = (
        "_D = {}\n"
        "def f(k):\n"
        "    if k in _D:\n"
        "        return _D.pop(k)\n"
    )
    try:
        repo = Repo(None, {'prettyprinter/_verif_control.py': ctl_src})
    except Exception:
        return False
    shared = effects.shared_objects(repo)
    ss = [s for s in effects.sites(repo, shared) if s.obj.name == '_D']
    kinds = {(s.kind, s.detail) for s in ss}
    return ('read', 'in') in kinds and ('write', 'pop') in kinds
