"""Shared analyses of the printer wrapper (the function every registered printer runs under):
visit pairing (C13.a / C14.c) and guarded invocation of user printers (C14.a)."""
import ast

from engine import facts
from engine.astutil import src, call_name, dotted, Guards, enclosing_map, inside_try_body, handler_catches
from engine.flow import Flow, default_raises, _walk_no_nested
from engine.loader import AnalysisError


def context_roles(repo):
    """acquire / release / test methods of the context class, by what they do to the
    visited set: returns dict(cls, field, acquire, release, test)"""
    m = repo.module('prettyprinter')
    for cname, ci in m.classes.items():
        acq = rel = tst = None
        field = None
        for mname, meth in ci.methods.items():
            for n in ast.walk(meth.node):
                if isinstance(n, ast.Call) and isinstance(n.func, ast.Attribute) \
                        and n.func.attr in ('add', 'remove', 'discard') and len(n.args) == 1 \
                        and src(n.func.value).startswith('self.') and 'visit' in mname:
                    f = src(n.func.value)[5:]
                    if n.func.attr == 'add':
                        acq, field = meth, f
                    else:
                        rel = meth
                if isinstance(n, ast.Compare) and len(n.ops) == 1 and isinstance(n.ops[0], ast.In) \
                        and isinstance(n.left, ast.Call) and call_name(n.left) == 'id' \
                        and src(n.comparators[0]).startswith('self.'):
                    tst = meth
        if acq is not None:
            return {'cls': ci, 'field': field, 'acquire': acq, 'release': rel, 'test': tst}
    raise AnalysisError('no context class with an id()-keyed visited set found')


def _event_calls(st, names):
    out = []
    for n in _walk_no_nested(st):
        if isinstance(n, ast.Call) and isinstance(n.func, ast.Attribute) and n.func.attr in names:
            out.append(n)
    return out


def desugar_with(repo, f):
    """a copy of the function in which ``with C(args): body`` - C a context-manager class of the package whose __init__ stores its
    parameters, whose __exit__ never swallows an exception - is written out as  <__enter__ body>; try: body; finally: <__exit__ body>
    with ``self.<attr>`` replaced by the constructor arguments.  Anything else is left alone."""
    import copy
    node = copy.deepcopy(f.node)

    class Sub(ast.NodeTransformer):
        def __init__(self, env):
            self.env = env

        def visit_Attribute(self, n):
            if isinstance(n.value, ast.Name) and n.value.id == 'self' and n.attr in self.env and isinstance(n.ctx, ast.Load):
                return copy.deepcopy(self.env[n.attr])
            return self.generic_visit(n)

    def expand(w):
        if len(w.items) != 1 or not isinstance(w.items[0].context_expr, ast.Call) or not isinstance(w.items[0].context_expr.func, ast.Name):
            return None
        call = w.items[0].context_expr
        r = repo.resolve(f.module, call.func.id)
        if not r or r[0] != 'class':
            return None
        ci = r[1]
        init, ent, ext = ci.methods.get('__init__'), ci.methods.get('__enter__'), ci.methods.get('__exit__')
        if not (init and ent and ext):
            return None
        params = [p for p in init.params if p != 'self']
        bound = dict(zip(params, call.args))
        bound.update({k.arg: k.value for k in call.keywords if k.arg})
        env = {}
        for st in init.node.body:
            if isinstance(st, ast.Assign) and len(st.targets) == 1 and isinstance(st.targets[0], ast.Attribute) \
                    and isinstance(st.targets[0].value, ast.Name) and st.targets[0].value.id == 'self' \
                    and isinstance(st.value, ast.Name) and st.value.id in bound:
                env[st.targets[0].attr] = bound[st.value.id]
            elif not (isinstance(st, ast.Expr) and isinstance(st.value, ast.Constant)):
                return None
        # __exit__ must not swallow: every return is False / None / absent
        for x in ast.walk(ext.node):
            if isinstance(x, ast.Return) and x.value is not None and not (isinstance(x.value, ast.Constant) and not x.value.value):
                return None

        def body_of(meth):
            out = []
            for st in meth.node.body:
                if isinstance(st, ast.Return):
                    break
                if isinstance(st, ast.Expr) and isinstance(st.value, ast.Constant):
                    continue
                out.append(ast.fix_missing_locations(ast.copy_location(Sub(env).visit(copy.deepcopy(st)), w)))
            return out
        pre, post = body_of(ent), body_of(ext)
        if not post:
            return None
        tr = ast.copy_location(ast.Try(body=w.body, handlers=[], orelse=[], finalbody=post), w)
        return pre + [ast.fix_missing_locations(tr)]

    class With(ast.NodeTransformer):
        def visit_With(self, w):
            self.generic_visit(w)
            new = expand(w)
            return new if new is not None else w
    node = With().visit(node)
    ast.fix_missing_locations(node)
    return node


def visit_pairing(repo, rep, rule):
    """R-PAIR over the wrapper: 0 outstanding visits at entry, +1 at acquire, -1 at release,
    0 at every return and at every exceptional exit whose exception an enclosing
    ``except Exception`` could catch."""
    roles = context_roles(repo)
    w = facts.wrapper_function(repo)
    value = w.params[1]
    ctx = w.params[2]
    acq, rel, tst = roles['acquire'].name, roles['release'].name if roles['release'] else None, \
        roles['test'].name if roles['test'] else None
    where = w.where
    wnode = desugar_with(repo, w)
    n = 0
    if rel is None:
        rep.fail(rule, 'context:no-release-method', roles['cls'].where,
                 'the context class has no method removing an id from the visited set')
        return 0
    problems = []

    def transfer(st, state):
        cnt = state
        # order of events inside one statement: source order
        evs = sorted(_event_calls(st, {acq, rel}), key=lambda c: (c.lineno, c.col_offset))
        for c in evs:
            arg = src(c.args[0]) if c.args else None
            if arg != value or src(c.func.value) != ctx:
                problems.append((c.lineno, '%s(%s) on %s: visit events must concern the wrapper\'s own value %s'
                                 % (c.func.attr, arg, src(c.func.value), value)))
            if c.func.attr == acq:
                cnt = min(cnt + 1, 2)
            else:
                if cnt == 0:
                    problems.append((c.lineno, 'release without a matching acquire'))
                cnt = max(cnt - 1, 0)
        return [cnt]

    def raises(st, state):
        # acquire / release themselves are trusted not to raise
        if _event_calls(st, {acq, rel}) and not any(
                isinstance(n, ast.Call) and not (isinstance(n.func, ast.Attribute) and n.func.attr in (acq, rel))
                and dotted(n.func) not in ('id',) for n in _walk_no_nested(st)):
            return []
        return default_raises(st, state)

    # statements that run the printer (directly or through a helper the printer is forwarded to)
    runner_lines = []
    pfn = w.params[0]

    def may_run(callee, pname, depth=0):
        """the package function calls its parameter ``pname`` (or hands it to a package function that does)"""
        if depth > 3:
            return True
        for c2 in ast.walk(callee.node):
            if not isinstance(c2, ast.Call):
                continue
            if isinstance(c2.func, ast.Name) and c2.func.id == pname:
                return True
            r2 = repo.resolve(callee.module, c2.func.id) if isinstance(c2.func, ast.Name) else None
            if r2 and r2[0] == 'func':
                for i2, a2 in enumerate(c2.args):
                    if isinstance(a2, ast.Name) and a2.id == pname and i2 < len(r2[1].params) and may_run(r2[1], r2[1].params[i2], depth + 1):
                        return True
                for k2 in c2.keywords:
                    if isinstance(k2.value, ast.Name) and k2.value.id == pname and k2.arg in r2[1].params and may_run(r2[1], k2.arg, depth + 1):
                        return True
        return False

    def transfer_outer(st, state):
        for c in _walk_no_nested(st):
            if not isinstance(c, ast.Call):
                continue
            if isinstance(c.func, ast.Name) and c.func.id == pfn:
                runner_lines.append((c, state))
                continue
            handed = [('pos', i, a) for i, a in enumerate(c.args) if isinstance(a, ast.Name) and a.id == pfn] + \
                     [('kw', k.arg, k.value) for k in c.keywords if isinstance(k.value, ast.Name) and k.value.id == pfn]
            if not handed:
                continue
            r = repo.resolve(w.module, c.func.id) if isinstance(c.func, ast.Name) else None
            if r and r[0] == 'func':
                # handed to a package function: it runs the printer only if that function (transitively) calls the parameter
                runs = any((kind == 'pos' and key < len(r[1].params) and may_run(r[1], r[1].params[key])) or
                           (kind == 'kw' and key in r[1].params and may_run(r[1], key)) for kind, key, _ in handed)
                if runs:
                    runner_lines.append((c, state))
            # handed to something outside the package (inspect.signature, partial): inspecting or wrapping is not running
        return transfer(st, state)
    fl = Flow(transfer_outer, raises)
    out = fl.run(wnode, 0)
    rep.count(fl.visited_stmts)
    g0 = Guards(wnode)
    for st, state in runner_lines:
        if state >= 1:
            continue
        n += 1
        ok, why = _leaf_fast_path(repo, w, g0.of(st), value)
        rep.check(ok, rule, 'wrapper:printer-runs-inside-visit-window@%s' % ('leaf-fast-path' if ok else 'line'), '%s:%d' % (w.module.relpath, st.lineno),
                  'printer invoked outside the visit window only for acyclic leaf types (%s)' % why,
                  'the printer is invoked at line %d without the value having been marked as visited (%s): a cycle through such a '
                  'value is not cut at the back-reference' % (st.lineno, why), nontrivial=True)
    acquires = [c for c in ast.walk(wnode) if isinstance(c, ast.Call) and isinstance(c.func, ast.Attribute)
                and c.func.attr == acq]
    n += 1
    rep.check(len(acquires) >= 1, rule, 'wrapper:acquires-visit', where, 'wrapper marks the value as being visited',
              'the wrapper never calls %s: cycles are not detected' % acq, nontrivial=True)
    for ln, msg in sorted(set(problems)):
        n += 1
        rep.fail(rule, 'wrapper:visit-event', '%s:%d' % (w.module.relpath, ln), msg)
    bad_ret = sorted({ln for s, ln in out.returns if s != 0})
    n += 1
    rep.check(not bad_ret, rule, 'wrapper:balanced-at-return', where, 'no outstanding visit at any return',
              'return at line(s) %s leaves the value marked as visited (acquire without release on that path)'
              % bad_ret, nontrivial=True)
    bad_raise = sorted({(ln, exc) for s, exc, ln in out.raises
                        if s != 0 and exc not in ('KeyboardInterrupt', 'SystemExit', 'GeneratorExit')})
    n += 1
    rep.check(not bad_raise, rule, 'wrapper:balanced-at-exceptional-exit', where,
              'no outstanding visit when an exception leaves the wrapper',
              'an exception raised at %s leaves the wrapper with the value still in the visited set; an enclosing '
              "printer's 'except Exception' catches it, printing continues and later occurrences of the same "
              'object are reported as recursion' % ', '.join('line %d (%s)' % (ln, 'any Exception' if e == '*' else e)
                                                            for ln, e in bad_raise[:6]), nontrivial=True)
    # marker return happens before the acquire and under the positive visited test
    g = Guards(wnode)
    for a in acquires:
        n += 1
        ok = tst is not None and any((not f.pol) and call_name_in(f.test, tst) for f in g.of(a))
        rep.check(ok, rule, 'wrapper:test-before-acquire', '%s:%d' % (w.module.relpath, a.lineno),
                  'visited test (negative) dominates the acquire',
                  'the visit is started without first testing that the value is not already being visited '
                  '(every value would be reported as, or never be recognised as, a back-reference)', nontrivial=True)
    markers = [r for r in ast.walk(wnode) if isinstance(r, ast.Return) and r.value is not None
               and isinstance(r.value, ast.Call) and 'recursion' in call_name(r.value).lower()]
    n += 1
    rep.check(len(markers) >= 1, rule, 'wrapper:marker-return', where, 'recursion marker returned for a back-reference',
              'the wrapper no longer returns a recursion marker')
    for r in markers:
        n += 1
        ok = tst is not None and any(f.pol and call_name_in(f.test, tst) for f in g.of(r))
        rep.check(ok and src(r.value.args[0]) == value if r.value.args else False, rule, 'wrapper:marker-only-when-visited',
                  '%s:%d' % (w.module.relpath, r.lineno), 'marker only under the positive visited test',
                  'the recursion marker is returned without the "value is being visited" test', nontrivial=True)
    return n


LEAF_TYPES = {'int', 'float', 'bool', 'str', 'bytes', 'complex', 'NoneType', 'type(None)', 'type(...)', 'type(Ellipsis)',
              'type(NotImplemented)', 'range', 'bytearray'}


def _leaf_fast_path(repo, w, facts_, value):
    """a dominating test ``type(value) in X`` / ``type(value) is T`` with only acyclic leaf types"""
    from engine.astutil import compare_parts
    for f in facts_:
        if not f.pol:
            continue
        cp = compare_parts(f.test, True)
        if not cp:
            continue
        l, op, r = cp
        if src(l) != 'type(%s)' % value:
            continue
        types = None
        if op in ('is', '=='):
            types = [src(r)]
        elif op == 'in':
            e = r
            if isinstance(e, ast.Name):
                rr = repo.resolve(w.module, e.id)
                if rr and rr[0] == 'const':
                    e = rr[2]
            if isinstance(e, ast.Call) and e.args:
                e = e.args[0]
            if isinstance(e, (ast.Tuple, ast.List, ast.Set)):
                types = [src(x) for x in e.elts]
        if types is None:
            return False, 'test %s not resolvable to a set of types' % f.text
        bad = [t for t in types if t not in LEAF_TYPES]
        if bad:
            return False, 'fast path covers %s, which can take part in reference cycles' % bad
        return True, ', '.join(types)
    return False, 'no type test'


def call_name_in(test, name):
    for c in ast.walk(test):
        if isinstance(c, ast.Call) and isinstance(c.func, ast.Attribute) and c.func.attr == name:
            return True
    return False


# --------------------------------------------------------------------------------------
def invocation_sites(repo, depth=3):
    """call sites of user-supplied printer callables.  Returns list of
    (FunctionInfo, call node, tainted name).  Taint: first parameter of the wrapper, parameters
    it is forwarded to in package callees, and the printer element of predicate registry
    entries / the promoted deferred printer."""
    w = facts.wrapper_function(repo)
    m = w.module
    tainted = {(w.key, w.params[0])}
    work = [(w, w.params[0], 0)]
    sites = []
    seen_fn = set()
    while work:
        f, pname, d = work.pop()
        if (f.key, pname) in seen_fn:
            continue
        seen_fn.add((f.key, pname))
        for c in ast.walk(f.node):
            if not isinstance(c, ast.Call):
                continue
            if isinstance(c.func, ast.Name) and c.func.id == pname:
                sites.append((f, c, pname))
                continue
            # forwarded as an argument to a package function
            r = None
            if isinstance(c.func, ast.Name):
                r = repo.resolve(m, c.func.id)
            if r and r[0] == 'func' and d < depth:
                callee = r[1]
                for i, a in enumerate(c.args):
                    if isinstance(a, ast.Name) and a.id == pname and i < len(callee.params):
                        work.append((callee, callee.params[i], d + 1))
                for k in c.keywords:
                    if isinstance(k.value, ast.Name) and k.value.id == pname and k.arg in callee.params:
                        work.append((callee, k.arg, d + 1))
    # predicate registry entries: ``for predicate, fn in REG: ... fn(value, ctx)`` - REG itself, a copy of it, or an accessor
    # function that returns it
    store_ = __import__('engine.roles', fromlist=['x']).name(repo, 'predicate_store')

    def is_store(e, depth=0):
        if isinstance(e, ast.Name):
            return e.id == store_
        if isinstance(e, ast.Attribute):
            return is_store(e.value, depth)
        if isinstance(e, ast.Call):
            cn = call_name(e)
            if cn in ('list', 'tuple', 'iter', 'reversed') and e.args:
                return is_store(e.args[0], depth)
            if isinstance(e.func, ast.Attribute) and e.func.attr in ('copy', 'items', 'values'):
                return is_store(e.func.value, depth)
            r_ = repo.resolve(m, e.func.id) if isinstance(e.func, ast.Name) else None
            if r_ and r_[0] == 'func' and depth < 3:
                rets = [x for x in ast.walk(r_[1].node) if isinstance(x, ast.Return) and x.value is not None]
                return bool(rets) and all(is_store(x.value, depth + 1) for x in rets)
        return False
    for f in m.funcs.values():
        for lp in ast.walk(f.node):
            if isinstance(lp, ast.For) and is_store(lp.iter) and isinstance(lp.target, ast.Tuple):
                names = [e.id for e in lp.target.elts if isinstance(e, ast.Name)]
                for c in ast.walk(lp):
                    if isinstance(c, ast.Call) and isinstance(c.func, ast.Name) and c.func.id in names:
                        sites.append((f, c, c.func.id))
    return w, sites


def exception_guarded(f, call):
    """is ``call`` lexically inside a try body with a handler catching Exception?"""
    par = enclosing_map(f.node)
    for t in inside_try_body(call, par):
        if any(handler_catches(h, 'Exception') for h in t.handlers):
            return True
    return False


def function_only_called_guarded(repo, f, wrapper, depth=3, _seen=None):
    """every use of package function f is (a) a direct call inside try/except Exception,
    (b) being handed to the wrapper as the printer (partial(wrapper, f) / registration), or
    (c) a call from a function that itself satisfies this (bounded depth)"""
    _seen = _seen or set()
    if f.key in _seen or depth < 0:
        return False, 'recursion/depth'
    _seen = _seen | {f.key}
    uses = 0
    for g in repo.all_functions():
        mod = g.module
        r0 = repo.resolve(mod, f.name) if '.' not in f.qualname else None
        if not (r0 and r0[0] == 'func' and r0[1] is f):
            continue
        par = enclosing_map(g.node)
        for nnode in ast.walk(g.node):
            if isinstance(nnode, ast.Name) and nnode.id == f.name and isinstance(nnode.ctx, ast.Load):
                # skip names inside nested functions indexed separately
                p = par.get(id(nnode))
                uses += 1
                if isinstance(p, ast.Call) and p.func is nnode:
                    if exception_guarded(g, p):
                        continue
                    if g is f:
                        continue
                    ok, why = function_only_called_guarded(repo, g, wrapper, depth - 1, _seen)
                    if ok:
                        continue
                    return False, 'called unguarded from %s:%d' % (g.key, p.lineno)
                if isinstance(p, ast.Call) and call_name(p) == 'partial' and p.args and \
                        isinstance(p.args[0], ast.Name) and p.args[0].id == wrapper.name and nnode in p.args[1:]:
                    continue
                return False, 'escapes as a value in %s:%d' % (g.key, nnode.lineno)
    # module-level uses
    for mod in repo.modules.values():
        r0 = repo.resolve(mod, f.name) if '.' not in f.qualname else None
        if not (r0 and r0[0] == 'func' and r0[1] is f):
            continue
        for st in mod.tree.body:
            if isinstance(st, (ast.FunctionDef, ast.ClassDef, ast.AsyncFunctionDef)):
                continue
            par = enclosing_map(st)
            for nnode in ast.walk(st):
                if isinstance(nnode, ast.Name) and nnode.id == f.name and isinstance(nnode.ctx, ast.Load):
                    p = par.get(id(nnode))
                    uses += 1
                    if isinstance(p, ast.Call) and call_name(p) == 'partial' and p.args and \
                            isinstance(p.args[0], ast.Name) and p.args[0].id == wrapper.name:
                        continue
                    return False, 'module-level use at %s:%d' % (mod.relpath, nnode.lineno)
    if uses == 0:
        return False, 'no use found'
    return True, ''
