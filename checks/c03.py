"""C03 -- width, ribbon and indent change only the layout, never the content."""
import ast

from engine import docterm as D
from engine import facts
from engine.astutil import src, call_name, dotted, Guards, names_in, enclosing_map
from engine.interp import DocV
from engine.loader import AnalysisError
from . import shape as S

META = {
    'text': 'A two-part non-interference argument carried by static analysis: (a) the layout configuration (ctx.indent and the four '
            'arguments of every contextual evaluator) flows only into nest amounts, arithmetic, comparisons and the splitter\'s '
            'max_len - never into a text position, a name, a format argument or an annotation (def-use taint over the core and '
            'stdlib printers); every branch that depends on it lies inside the layout engine or the string evaluator; (b) at every '
            'flat_choice the printers build (all element patterns up to 3, commented or not; dict keys/values; call arguments; '
            'top-level comment) the flat and the broken alternative carry the same content atoms in the same order, for every '
            'layout of nested groups; the string evaluator returns the same literal pieces under every multiline strategy, the '
            'strategies differing only by parentheses and indentation; (c) every nest amount is exactly ctx.indent and no bundled '
            'printer uses align/hang, so every line is indented by a multiple of the indent setting (with C04.c). That the layout '
            'engine honours the document is the subject of C04.',
    'note': 'small-scope abstraction as in C09; comments and whitespace-only text are excluded from the content comparison',
    'technique': 'static analysis: forbidden-flow taint (def-use), abstract interpretation over a doc-shape domain with '
                 'flat/broken content agreement, canonical nest amounts',
}
META['text'] += ' The same sub-value is printed at the same nesting depth in both alternatives of a choice; the configuration is followed into package helpers it is passed to; (e) the layout engine emits a rendering of the document under some choice of flat / broken for its groups and fill separators (interpreted layouts, shared with C04.n): nothing is dropped or replaced when a separator breaks.'
META['text'] += ' Round 5: the string, layout and comment models run scenarios scaled past the size constants mined from the code they interpret.'

SOURCES_EVAL = ('indent', 'column', 'page_width', 'ribbon_width')
_MOD = None


def run(repo, rep):
    rep.explanation = ('R-TAINT configuration -> content (C03.a), R-SHAPE flat/broken agreement at every choice point and strategy '
                       'agreement of the string evaluator (C03.b), R-LIN nest amounts (C03.c).')
    rep.not_decided = 'that the layout engine honours the document (C04); comment placement (C09).'
    rep.assumptions = ['element lists of length 0..3 representative (uniform loops)']
    global _MOD
    m = repo.module('prettyprinter')
    _MOD = m

    # ---------------------------------------------------------------- C03.a taint
    n = 0
    mods = [m, repo.module('pretty_stdlib')]
    for mod in mods:
        for f in mod.funcs.values():
            # context parameter name
            ctxn = 'ctx' if 'ctx' in f.params or (f.parent is not None and 'ctx' in f.parent.params) else None
            tainted = set()
            is_eval = f.parent is not None and any(
                isinstance(c, ast.Call) and call_name(c) in ('contextual', 'Contextual') and c.args and src(c.args[0]) == f.name
                for c in ast.walk(f.parent.node))
            if is_eval:
                tainted |= set(f.params[:4])
            par = enclosing_map(f.node)
            # seeds: ctx.indent reads
            seeds = [a for a in ast.walk(f.node) if isinstance(a, ast.Attribute) and a.attr == 'indent' and isinstance(a.value, ast.Name)
                     and a.value.id in ('ctx', 'nested_ctx') and isinstance(a.ctx, ast.Load)]
            # closure variables of the enclosing printer that alias ctx.indent
            if f.parent is not None:
                for s in ast.walk(f.parent.node):
                    if isinstance(s, ast.Assign) and src(s.value) in ('ctx.indent',) and isinstance(s.targets[0], ast.Name):
                        tainted.add(s.targets[0].id)
            for _ in range(6):
                before = set(tainted)
                for s in ast.walk(f.node):
                    if isinstance(s, ast.Assign) and len(s.targets) == 1 and isinstance(s.targets[0], ast.Name):
                        if (names_in(s.value) & tainted or any(x in seeds for x in ast.walk(s.value))) and _arith(s.value):
                            tainted.add(s.targets[0].id)
                if tainted == before:
                    break
            uses = [nm for nm in ast.walk(f.node) if isinstance(nm, ast.Name) and nm.id in tainted and isinstance(nm.ctx, ast.Load)]
            for u in uses + seeds:
                ok, why = _config_use_ok(u, par)
                n += 1
                rep.check(ok, 'C03.a', '%s:use-of-%s:%s' % (f.qualname, src(u), why[:40]), '%s:%d' % (mod.relpath, u.lineno),
                          'layout configuration used as: %s' % why,
                          '%s lets the layout configuration (%s) flow into %s: width / ribbon / indent must influence only line breaks '
                          'and indentation, never the content' % (f.key, src(u), why), nontrivial=True)
            # choice points outside the inventory
            if (tainted or seeds) and not is_eval:
                for t in ast.walk(f.node):
                    test = t.test if isinstance(t, (ast.If, ast.IfExp, ast.While)) else None
                    if test is not None and (names_in(test) & tainted or any(x in seeds for x in ast.walk(test))):
                        n += 1
                        rep.undecided('C03.b', '%s:uncovered-choice-point' % f.qualname, '%s:%d' % (mod.relpath, t.lineno),
                                      'a branch in %s depends on the layout configuration (%s) outside the layout engine / string evaluator: '
                                      'the non-interference argument does not cover it' % (f.qualname, src(test)))
    rep.floor('C03.a', n, 12)
    # the string builder ignores its ``indent`` parameter for content
    sl = m.funcs.get('pretty_single_line_str')
    if sl is not None and 'indent' in sl.params:
        uses = [x for x in ast.walk(sl.node) if isinstance(x, ast.Name) and x.id == 'indent' and isinstance(x.ctx, ast.Load)]
        rep.check(not uses, 'C03.a', 'pretty_single_line_str:indent-unused', sl.where, 'the literal builder does not look at the indent',
                  'pretty_single_line_str uses its indent argument (%d uses): the literal text would depend on the configuration' % len(uses))

    # ---------------------------------------------------------------- C03.b flat/broken agreement
    from .c09 import builder_terms
    from engine.interp import Undecided
    try:
        terms = builder_terms(repo, rep)
    except Undecided as e:
        rep.undecided('C03.b', 'builders:interpretation', m.relpath, str(e))
        terms = []
    n = 0
    seen = set()
    allnests = []
    for label, where, pr in terms:
        if pr.raised is not None or not isinstance(pr.value, DocV):
            continue
        t = pr.value.t
        allnests.extend((label, where, x) for x in S.nests(t))
        for fc in S.flat_choices(t):
            k = fc.key()
            if k in seen:
                continue
            seen.add(k)
            ok, fl, br = S.fc_agreement(fc)
            n += 1
            rep.count(1)
            rep.check(ok, 'C03.b', '%s:flat=broken:%s' % (label.split('[')[0].split('{')[0], _fcl(fc)), where,
                      'same content whether laid out flat or broken',
                      'a flat_choice built in scenario %s shows %s when flat but %s when broken: the content depends on the width'
                      % (label, sorted(fl)[:2], sorted(br)[:2]), nontrivial=True)
            okc, whyc = S.fc_context_agreement(fc)
            n += 1
            rep.check(okc, 'C03.b', '%s:flat=broken:same-depth:%s' % (label.split('[')[0].split('{')[0], _fcl(fc)), where,
                      'a value is printed at the same nesting depth whether laid out flat or broken',
                      'a flat_choice built in scenario %s: %s - with a depth limit the content depends on the width' % (label, whyc), nontrivial=True)
    rep.floor('C03.b:choices', n, 8)
    # string evaluator: same pieces under every strategy
    from .c08 import string_printer_paths, STRATEGIES
    n = 0
    for base in ('str', 'bytes'):
        by_key = {}
        for lab, pr, t, fn in string_printer_paths(repo, base, True, lines=(1, 2, 3)):
            if pr.raised is not None or t is None or pr.assumed('depth_left', True):
                continue
            allnests.extend((lab, fn.where, x) for x in S.nests(t))
            strat = lab.split(',')[1]
            pieces = lab.split('pieces=')[1].split(']')[0]
            fits = pr.assumed('<=', True) and not any('len(' in k and v for k, v in pr.facts if False)
            sig = tuple(a for a in S.content_sig(D.linearise(t, 'break', lambda g: 'break')) if not (a[0] == 'Text' and a[1] in ('(', ')')))
            parens = tuple(a for a in S.content_sig(D.linearise(t, 'break', lambda g: 'break')) if a[0] == 'Text' and a[1] in ('(', ')'))
            by_key.setdefault((pieces, _factsig(pr)), {})[strat] = (sig, parens, fn.where)
        for (pieces, fsig), d in sorted(by_key.items()):
            sigs = {s for s, _, _ in d.values()}
            n += 1
            rep.check(len(sigs) == 1, 'C03.b', 'pretty_str[%s,pieces=%s,%s]:strategies-agree' % (base, pieces, fsig[:40]), next(iter(d.values()))[2],
                      'same literal pieces under every multiline strategy',
                      'the multiline strategies print different content for %s pieces: %s' % (pieces, {k: v[0] for k, v in d.items()}), nontrivial=True)
            for strat, (sig, parens, where) in d.items():
                if parens:
                    n += 1
                    rep.check(strat == 'PARENS' and parens == (('Text', '('), ('Text', ')')), 'C03.b',
                              'pretty_str[%s,pieces=%s,%s]:only-parens-differ' % (base, pieces, strat), where,
                              'only the PARENS strategy adds one pair of parentheses', 'strategy %s adds %s' % (strat, parens))
    # a str/bytes subclass instance is wrapped on every width-dependent path or on none
    for base in ('str', 'bytes'):
        shapes = {}
        for lab, pr, t, fn in string_printer_paths(repo, base, False, lines=(0, 1, 2)):
            if pr.raised is not None or t is None or pr.assumed('depth_left', True):
                continue
            shapes.setdefault(isinstance(t, D.Call), []).append(lab)
        n += 1
        rep.check(len(shapes) == 1, 'C03.b', 'pretty_str[%s subclass]:wrapper-independent-of-width' % base, m.relpath,
                  'the constructor wrapper does not depend on the available width',
                  'a %s subclass instance is wrapped in its constructor on some width-dependent paths (%s) but not on others (%s): the '
                  'syntax tree changes with the width' % (base, shapes.get(True, [])[:1], shapes.get(False, [])[:1]), nontrivial=True)
    rep.floor('C03.b:strings', n, 8)

    # ---------------------------------------------------------------- C03.c nest amounts
    n = 0
    amounts = {}
    for label, where, x in allnests:
        amounts.setdefault(x.amount, (label, where))
    it = S.interp(repo, 'printer', {'pretty_str': S.p_pretty_str_as_sub})
    for amt, (label, where) in sorted(amounts.items()):
        n += 1
        rep.check(amt == 'ctx.indent', 'C03.c', 'nest-amount:%s' % amt, where, 'nest amount is the indent setting',
                  'a document built in scenario %s nests by %s: lines would not be indented by a multiple of the indent setting' % (label, amt),
                  nontrivial=True)
    # every nest(...) call site in the printers (incl. paths the scenarios may not reach)
    for mod in mods + [repo.module('extras.attrs'), repo.module('extras.dataclasses')]:
        for f in mod.funcs.values():
            for c in ast.walk(f.node):
                if isinstance(c, ast.Call) and call_name(c) in ('nest', 'Nest') and c.args:
                    a = src(c.args[0])
                    alias_ok = _is_indent_setting(repo, c.args[0], f, 0)
                    n += 1
                    rep.check(alias_ok, 'C03.c', '%s:nest(%s)' % (f.qualname, a), '%s:%d' % (mod.relpath, c.lineno), 'nest(ctx.indent, ...)',
                              '%s nests by %s instead of ctx.indent' % (f.key, a), nontrivial=True)
                if isinstance(c, ast.Call) and call_name(c) in ('align', 'hang'):
                    n += 1
                    rep.fail('C03.c', '%s:uses-%s' % (f.qualname, call_name(c)), '%s:%d' % (mod.relpath, c.lineno),
                             '%s uses %s: continuation lines are aligned to a column, not to a multiple of the indent setting' % (f.key, call_name(c)))
    # the engine turns Nest amounts into line indentation exactly (C04.c instances)
    from engine.report import Report
    from . import c04
    sub = Report('C04', rep.tier, rep.seed, quiet=True, write=False)
    c04.run(repo, sub)
    for i in sub.instances:
        if i.rule == 'C04.c' and (':Nest:indent' in i.construct or 'HARDLINE' in i.construct or 'indent-unchanged' in i.construct):
            n += 1
            if i.verdict == 'holds':
                rep.ok('C03.c', 'engine:' + i.construct, i.where, i.detail)
            elif i.verdict == 'VIOLATED':
                rep.fail('C03.c', 'engine:' + i.construct, i.where, 'line indentation is no longer the sum of the enclosing nest amounts: ' + i.detail)
    from . import docmodel, strmodel
    n += docmodel.run(repo, rep, {'normalisation': 'C03.c', 'constructors': 'C03.c'})
    # a string laid out in pieces (narrow widths) is the same string: pieces concatenate to the value and each piece is escaped
    # for the quote chosen for the whole value (string model)
    n += strmodel.run(repo, rep, {'pieces': 'C03.b', 'escaping': 'C03.b'})
    rep.floor('C03.c', n, 14)
    # C03.e: what the engine emits is a rendering of the document under some choice of flat / broken for its groups and fill
    # separators (interpreted layouts: nothing is dropped, duplicated or replaced when a separator or a group breaks)
    from . import layoutmodel
    rep.floor('C03.e', layoutmodel.run(repo, rep, {'C04': 'C03.e'}), 1)
    # C03.f: a comment stays a comment in every layout: wherever the comment builder breaks a text (or leaves a line end of the text
    # itself in place), the continuation starts with '#' - otherwise its words are code at the widths where it wraps (home: C09.b)
    from . import docmodel as _dm
    rep.floor('C03.f', _dm.comments(repo, rep, 'C03.f'), 1)

    # ---------------------------------------------------------------- C03.d one set of settings for every variant of a value
    # the flat and the broken rendering of a value are produced under contexts that differ at most in what the context model
    # verifies (depth, strategy, user values): nobody rebuilds a context by hand
    from . import ctxmodel
    nd = ctxmodel.construction_sites(repo, rep, 'C03.d', 'a variant rendered under a rebuilt context can differ in content (key order, truncation) from '
                                     'the variant chosen at another width')
    nd += ctxmodel.report(repo, rep, 'C03.d', lambda k: ':keeps:' in k, 'a derived context must keep every other setting')
    rep.floor('C03.d', nd, 10)


def _fcl(fc):
    fl = S.content_sig(D.linearise(fc.flat, 'flat', lambda g: 'flat'))
    return '/'.join('%s' % (a[1] if isinstance(a, tuple) and len(a) > 1 else a,) for a in fl)[:60]


def _factsig(pr):
    keep = []
    for k, v in pr.facts:
        if 'depth' in k:
            continue
        keep.append(('' if v else '!') + k[:24])
    return ','.join(keep)


def _arith(e):
    """expression is arithmetic over numbers (the only legitimate way configuration propagates)"""
    for x in ast.walk(e):
        if isinstance(x, (ast.JoinedStr, ast.FormattedValue)):
            return False
        if isinstance(x, ast.Call) and call_name(x) not in ('min', 'max', 'len', 'round', 'int', 'abs'):
            return False
        if isinstance(x, ast.Constant) and isinstance(x.value, str):
            continue
    return True


def _is_indent_setting(repo, expr, f, depth):
    """the expression is the indent setting of the context: ctx.indent itself, a local (or enclosing) name bound to it, or a parameter
    of a module-level helper that every caller in the package binds to the indent setting"""
    a = src(expr)
    if a in ('ctx.indent', 'nested_ctx.indent'):
        return True
    if not isinstance(expr, ast.Name) or depth > 3:
        return False
    scope = f.parent.node if f.parent is not None else f.node
    if any(isinstance(s, ast.Assign) and src(s.targets[0]) == a and src(s.value) == 'ctx.indent' for s in ast.walk(scope)):
        return True
    if f.parent is None and a in f.params and f.cls is None:
        i = f.params.index(a)
        sites = []
        for g in repo.all_functions():
            for c in ast.walk(g.node):
                if isinstance(c, ast.Call) and isinstance(c.func, ast.Name) and c.func.id == f.name:
                    r = repo.resolve(g.module, f.name)
                    if r and r[0] == 'func' and r[1] is f:
                        sites.append((g, c))
        if not sites:
            return False
        for g, c in sites:
            arg = c.args[i] if i < len(c.args) and not any(isinstance(x, ast.Starred) for x in c.args[:i + 1]) else \
                next((k.value for k in c.keywords if k.arg == a), None)
            if arg is None or not _is_indent_setting(repo, arg, g, depth + 1):
                return False
        return True
    return False


def _param_uses_ok(callee, pn, depth):
    """the configuration handed to a package helper as parameter ``pn`` is used there only in the sanctioned ways (followed through
    simple arithmetic assignments and further helpers, depth-bounded)"""
    if depth > 3:
        return False, 'passed on too deep to follow'
    par = enclosing_map(callee.node)
    tainted = {pn}
    for _ in range(6):
        before = set(tainted)
        for s in ast.walk(callee.node):
            if isinstance(s, ast.Assign) and len(s.targets) == 1 and isinstance(s.targets[0], ast.Name) and names_in(s.value) & tainted and _arith(s.value):
                tainted.add(s.targets[0].id)
        if tainted == before:
            break
    whys = set()
    for x in ast.walk(callee.node):
        if isinstance(x, ast.Name) and x.id in tainted and isinstance(x.ctx, ast.Load):
            ok, why = _config_use_ok(x, par, depth + 1)
            if not ok:
                return False, '%s in %s' % (why, callee.name)
            whys.add(why.split(' (')[0])
    return True, 'parameter %s of %s (%s)' % (pn, callee.name, ', '.join(sorted(whys)) or 'never read')


def _config_use_ok(u, par, depth=0):
    p = par.get(id(u))
    child = u
    while isinstance(p, (ast.BinOp, ast.UnaryOp)) or (isinstance(p, ast.Call) and call_name(p) in ('min', 'max', 'round', 'int', 'abs')):
        if isinstance(p, ast.BinOp) and isinstance(p.op, (ast.Mod,)) and isinstance(p.left, ast.Constant) and isinstance(p.left.value, str):
            return False, 'string formatting'
        if isinstance(p, ast.BinOp) and isinstance(p.op, ast.Mult) and any(isinstance(s, ast.Constant) and isinstance(s.value, str) for s in (p.left, p.right)):
            return False, 'string repetition'
        child = p
        p = par.get(id(p))
    if isinstance(p, ast.Compare):
        return True, 'comparison'
    if isinstance(p, ast.Assign):
        return True, 'assignment (propagated)'
    if isinstance(p, ast.AugAssign):
        return True, 'arithmetic update'
    if isinstance(p, ast.Call):
        cn = call_name(p)
        if cn in ('nest', 'Nest') and p.args and p.args[0] is child:
            return True, 'nest amount'
        if cn in ('bracket',):
            return True, 'bracket'
        callee = _MOD.funcs.get(cn) if _MOD is not None else None
        if callee is not None and child in p.args:
            i = p.args.index(child)
            if i < len(callee.params):
                pn = callee.params[i]
                if pn == 'max_len' and cn == 'str_to_lines':
                    return True, 'max_len of str_to_lines'
                if cn in ('nest', 'Nest') and i == 0:
                    return True, 'nest amount' 
                ok_, why_ = _param_uses_ok(callee, pn, depth)
                if ok_:
                    return True, why_
                return False, 'argument of %s(...): %s' % (cn, why_)
        return False, 'argument of %s(...)' % cn
    if isinstance(p, ast.keyword):
        pp = par.get(id(p))
        cn = call_name(pp) if isinstance(pp, ast.Call) else '?'
        if p.arg in ('max_len', 'indent') and cn in ('str_to_lines', 'pretty_single_line_str', 'PrettyContext', 'Nest', 'nest'):
            return True, '%s= of %s' % (p.arg, cn)
        if p.arg in ('max_width', 'max_seq_length'):
            return True, '%s=' % p.arg
        callee = _MOD.funcs.get(cn) if _MOD is not None else None
        if callee is not None and p.arg in callee.params and p.value is child:
            ok_, why_ = _param_uses_ok(callee, p.arg, depth)
            if ok_:
                return True, why_
            return False, 'keyword %s= of %s: %s' % (p.arg, cn, why_)
        return False, 'keyword %s= of %s' % (p.arg, cn)
    if isinstance(p, (ast.If, ast.IfExp, ast.While)) and getattr(p, 'test', None) is child:
        return True, 'test'
    if isinstance(p, ast.Return):
        return False, 'returned'
    if isinstance(p, (ast.List, ast.Tuple)):
        return False, 'element of a sequence (document position)'
    if isinstance(p, (ast.JoinedStr, ast.FormattedValue)):
        return False, 'f-string'
    if isinstance(p, ast.Attribute):
        return True, 'attribute base'
    return False, type(p).__name__
