"""Doc-shape analyses shared by C01, C02, C03, C08, C09, C17 (E6 clients).

Two levels of abstraction, each checked against the one below:
  * builder level: sequence_of_docs / build_fncall / bracket / the dict printer's own loops
    are interpreted down to the primitive combinators; sub-documents and comment documents
    are opaque atoms (Sub / Cmt);
  * printer level: the per-type printers are interpreted with the builders as primitives
    (Seq / Call terms), so that what a printer asks the builders for can be read off.
"""
import ast
import re

from engine import docterm as D
from engine import facts
from engine.astutil import src
from engine.interp import (Interp, Const, Sym, SymStr, ListV, TupleV, FuncV, Prim, TypeV, ValueV, CtxV,
                           DocV, AnnotV, Undecided, NONE, TRUE, FALSE, prov)
from engine.loader import AnalysisError

PUNCT = 'Token.PUNCTUATION'


# ---------------------------------------------------------------------------- primitives
def p_commentdoc(it, a, k, n):
    """commentdoc(text): opaque comment document; records whether the text was known to be non-empty at the call
    (an empty text makes the real function raise ValueError)"""
    t = a[0] if a else k.get('text')
    known = (isinstance(t, SymStr) and t.nonempty is True) or (isinstance(t, Const) and bool(t.v)) or \
        it.memo.get('truthy(%s)' % prov(t)) is True
    log = getattr(it, 'commentdoc_calls', None)
    if log is None:
        log = it.commentdoc_calls = []
    log.append((prov(t), bool(known), getattr(n, 'lineno', 0)))
    return DocV(D.Cmt(prov(t)))


def p_pretty_python_value(it, a, k, n):
    v = a[0] if a else k.get('value')
    ctx = a[1] if len(a) > 1 else k.get('ctx')
    cdesc = ctx.describe() if isinstance(ctx, CtxV) else prov(ctx)
    return DocV(D.Sub(prov(v), cdesc))


def p_pretty_str_as_sub(it, a, k, n):
    v = a[0] if a else k.get('s')
    ctx = a[1] if len(a) > 1 else k.get('ctx')
    cdesc = ctx.describe() if isinstance(ctx, CtxV) else prov(ctx)
    return DocV(D.Sub(prov(v), cdesc, commented=False))


def p_general_identifier(it, a, k, n):
    return DocV(D.Ann('name', D.Lit('ident(%s)' % prov(a[0]), role='identifier')))


def _result_fields(repo, fname):
    """field names when the package function returns instances of a collections.namedtuple class defined in its module, else None"""
    m = repo.module('prettyprinter')
    f = m.funcs.get(fname)
    if f is None:
        return None
    for r in ast.walk(f.node):
        if isinstance(r, ast.Return) and isinstance(r.value, ast.Call) and isinstance(r.value.func, ast.Name):
            vals = m.assigns.get(r.value.func.id)
            if vals and isinstance(vals[-1], ast.Call) and src(vals[-1].func).split('.')[-1] == 'namedtuple' and len(vals[-1].args) >= 2:
                spec = vals[-1].args[1]
                if isinstance(spec, ast.Constant) and isinstance(spec.value, str):
                    return r.value.func.id, spec.value.replace(',', ' ').split()
                if isinstance(spec, (ast.List, ast.Tuple)) and all(isinstance(e, ast.Constant) for e in spec.elts):
                    return r.value.func.id, [e.value for e in spec.elts]
    return None


def p_unwrap_comments(it, a, k, n):
    v = a[0]
    items = [Sym('unwrapped(%s)' % prov(v)), Sym('comment-of(%s)' % prov(v)), Sym('trailing-comment-of(%s)' % prov(v))]
    nt = _result_fields(it.repo, 'unwrap_comments')
    if nt is not None and len(nt[1]) == 3:
        from engine.interp import NamedTupleV, NTClassV
        return NamedTupleV(NTClassV(nt[0], nt[1]), items)     # the same three values, also reachable by field name
    return TupleV(items)


def p_is_namedtuple(it, a, k, n):
    return FALSE


def _term(it, v, n):
    return it.as_term(v, n)


def p_sequence_of_docs(it, a, k, n):
    names = ['ctx', 'left', 'docs', 'right', 'dangle', 'force_break']
    b = dict(zip(names, a))
    b.update(k)
    items = [_term(it, x, n) for x in it.iterate(b['docs'], n)]
    dangle = b.get('dangle', FALSE)
    force = b.get('force_break', FALSE)
    return DocV(D.Seq(_term(it, b['left'], n), items, _term(it, b['right'], n),
                      dangle.v if isinstance(dangle, Const) else prov(dangle),
                      force.v if isinstance(force, Const) else prov(force)))


def p_build_fncall(it, a, k, n):
    names = ['ctx', 'fndoc', 'argdocs', 'kwargdocs', 'hug_sole_arg', 'trailing_comment']
    b = dict(zip(names, a))
    b.update(k)
    fnd = b['fndoc']
    if isinstance(fnd, (TypeV, FuncV, Prim)) or (isinstance(fnd, Sym)):
        fn = 'ident(%s)' % prov(fnd)
    else:
        t = _term(it, fnd, n)
        t = D.strip_ann(t)
        fn = t.prov if isinstance(t, D.Lit) else D.show(t)
    args = [_term(it, x, n) for x in it.iterate(b.get('argdocs', TupleV([])), n)]
    kwargs = []
    for item in it.iterate(b.get('kwargdocs', TupleV([])), n):
        kk, vv = it.iterate(item, n)
        kwargs.append((prov(kk), _term(it, vv, n)))
    hug = b.get('hug_sole_arg', FALSE)
    tc = b.get('trailing_comment', NONE)
    ctx = b.get('ctx')
    return DocV(D.Call(fn, args, kwargs, hug=bool(isinstance(hug, Const) and hug.v),
                       trailing=None if (isinstance(tc, Const) and tc.v is None) else prov(tc),
                       via='build_fncall', ctx=ctx.describe() if isinstance(ctx, CtxV) else None))


def p_pretty_call_alt(it, a, k, n):
    names = ['ctx', 'fn', 'args', 'kwargs']
    b = dict(zip(names, a))
    b.update(k)
    a_ = b.get('args', TupleV([]))
    if isinstance(a_, (TupleV, ListV)):
        args = [prov(x) for x in a_.items]
    else:
        args = ['*' + prov(a_)]
    kw = b.get('kwargs', TupleV([]))
    kwargs = []
    if isinstance(kw, (TupleV, ListV)):
        for item in kw.items:
            kk, vv = it.iterate(item, n)
            kwargs.append((prov(kk), prov(vv)))
    else:
        kwargs.append(('**', prov(kw)))
    ctx = b.get('ctx')
    return DocV(D.Call('ident(%s)' % prov(b['fn']), args, kwargs, via='pretty_call_alt',
                       ctx=ctx.describe() if isinstance(ctx, CtxV) else None))


def p_pretty_call(it, a, k, n):
    ctx, fn = a[0], a[1]
    kws = [(kk, prov(v)) for kk, v in k.items() if kk != '**pairs']
    kws += [(prov(kk), prov(v)) for kk, v in k.get('**pairs', [])]
    return DocV(D.Call('ident(%s)' % prov(fn), [prov(x) for x in a[2:]], kws,
                       via='pretty_call', ctx=ctx.describe() if isinstance(ctx, CtxV) else None))


def p_single_line_str(it, a, k, n):
    names = ['s', 'indent', 'use_quote']
    b = dict(zip(names, a))
    b.update(k)
    q = b.get('use_quote', NONE)
    qd = 'auto' if (isinstance(q, Const) and q.v is None) else prov(q)
    return DocV(D.Lit('strlit(%s;quote=%s)' % (prov(b['s']), qd), role='strlit'))


def p_determine_quote(it, a, k, n):
    return SymStr('quote-of(%s)' % prov(a[0]), nonempty=True)


BUILDER_PRIMS = {
    'commentdoc': p_commentdoc,
    'pretty_python_value': p_pretty_python_value,
    'general_identifier': p_general_identifier,
    'unwrap_comments': p_unwrap_comments,
}
PRINTER_PRIMS = dict(BUILDER_PRIMS)
PRINTER_PRIMS.update({
    'sequence_of_docs': p_sequence_of_docs,
    'build_fncall': p_build_fncall,
    'pretty_call_alt': p_pretty_call_alt,
    'pretty_call': p_pretty_call,
    '_is_namedtuple': p_is_namedtuple,
    '_is_cnamedtuple': p_is_namedtuple,
    'pretty_single_line_str': p_single_line_str,
    'determine_quote_strategy': p_determine_quote,
})


def interp(repo, level='builder', extra=None, max_paths=2000):
    prims = dict(BUILDER_PRIMS if level == 'builder' else PRINTER_PRIMS)
    prims.update(extra or {})
    return Interp(repo, prims, max_paths=max_paths)


# ---------------------------------------------------------------------------- helpers
def punct(text):
    return DocV(D.Ann(PUNCT, D.Text(text)))


def sub(name, commented=False, ctx=None):
    """an element document: plain, or carrying a comment annotation"""
    s = D.Sub(name, ctx, commented=False)
    if commented:
        return DocV(D.Ann(('comment', 'comment-of:' + name), s))
    return DocV(s)


def norm_prov(p):
    return p.replace('/uncommented', '')


def content_sig(seq):
    """content of one linearisation with provenance-identified atoms (see DESIGN C03.b)"""
    out = []
    for a in D.content_atoms(seq):
        if isinstance(a, D.Sub):
            out.append(('Sub', norm_prov(a.prov)))
        elif isinstance(a, D.Text):
            out.append(('Text', a.s.strip()))
        elif isinstance(a, D.Lit):
            out.append(('Lit', a.prov))
        elif isinstance(a, D.T):
            out.append(a.key())
        else:
            out.append(a)
    return tuple(out)


def flat_choices(t, out=None):
    out = [] if out is None else out
    if isinstance(t, D.FC):
        out.append(t)
        flat_choices(t.broken, out)
        flat_choices(t.flat, out)
    elif isinstance(t, (D.Cat, D.Fill)):
        for i in t.items:
            flat_choices(i, out)
    elif isinstance(t, (D.Nest, D.Grp, D.AB, D.Ann)):
        flat_choices(t.child, out)
    return out


def nests(t, out=None):
    out = [] if out is None else out
    if isinstance(t, D.Nest):
        out.append(t)
        nests(t.child, out)
    elif isinstance(t, (D.Cat, D.Fill)):
        for i in t.items:
            nests(i, out)
    elif isinstance(t, (D.Grp, D.AB, D.Ann)):
        nests(t.child, out)
    elif isinstance(t, D.FC):
        nests(t.broken, out)
        nests(t.flat, out)
    return out


def fc_agreement(fc):
    """content of the flat alternative = content of the broken alternative, for every layout of
    nested groups.  Returns (ok, flat_sigs, broken_sigs)"""
    fl = {content_sig(s) for s in D.all_layouts(fc.flat, 'flat')}
    br = {content_sig(s) for s in D.all_layouts(fc.broken, 'break')}
    return (len(fl) == 1 and fl == br), fl, br


def fc_context_agreement(fc):
    """the same sub-value is printed under the same nesting depth in the flat and in the broken alternative (the strategy may
    differ: it only selects how a long string is wrapped).  Returns (ok, description)"""
    def depths(t):
        out = {}
        for seq in D.all_layouts(t, 'break'):
            for a in D.content_atoms(seq):
                if isinstance(a, D.Sub) and isinstance(a.ctx, str) and '+' in a.ctx:
                    out.setdefault(norm_prov(a.prov), set()).add(a.ctx.split(':')[0])
        return out
    fl, br = depths(fc.flat), depths(fc.broken)
    for p_ in sorted(set(fl) & set(br)):
        if fl[p_] != br[p_]:
            return False, '%s is printed under %s when flat but under %s when broken' % (p_, sorted(fl[p_]), sorted(br[p_]))
    return True, ''


def comment_followers(t, top='break'):
    """(layout index, Cmt, follower) for every comment occurrence in every layout"""
    out = []
    for i, seq in enumerate(D.all_layouts(t, top)):
        for c, nxt in D.follow_of_comments(seq):
            out.append((i, c, nxt, seq))
    return out


def show_seq(seq):
    return ' '.join(D.show(a) for a in seq if isinstance(a, D.T))


# ---------------------------------------------------------------------------- scenarios
def seq_scenarios(max_n=3):
    """element lists for the sequence builders: every commented/plain pattern up to max_n"""
    out = []
    for n in range(0, max_n + 1):
        for bits in range(1 << n):
            out.append([bool((bits >> i) & 1) for i in range(n)])
    return out


def _is_boundary(expr, fn_node, loop):
    """``expr`` denotes the first or the last position of the enumerated sequence: 0, 1, len(xs) - 1, len(xs) (through names assigned
    once outside the loop)"""
    from engine.linear import form, Lin, NotLinear
    from .ctxuse import single_defs
    inside = {id(x) for x in ast.walk(loop)}
    defs = {k: v[0] for k, v in single_defs(fn_node).items() if len(v) == 1 and id(v[0]) not in inside}
    try:
        fm = form(expr, defs)
    except (NotLinear, Exception):
        return False
    if not isinstance(fm, Lin):
        return False
    if not fm.terms:
        return fm.const in (0, 1)
    if len(fm.terms) == 1:
        (atom_, coef), = fm.terms.items()
        return coef == 1 and atom_.startswith('len(') and fm.const in (0, -1)
    return False


def uniform_in_index(fn_node, loop):
    """the loop body looks at the loop index only through ``last = idx == len(xs) - 1``"""
    if not (isinstance(loop.target, ast.Tuple) and isinstance(loop.iter, ast.Call) and
            src(loop.iter.func) == 'enumerate'):
        return True, ''
    idx = loop.target.elts[0]
    if not isinstance(idx, ast.Name):
        return False, 'index target is not a name'
    from engine.astutil import assigned_names, enclosing_map
    assigned = set()
    for st in loop.body:
        assigned |= assigned_names(st)
    assigned |= {n.id for n in ast.walk(loop.target) if isinstance(n, ast.Name)}
    par = enclosing_map(ast.Module(body=loop.body, type_ignores=[]))
    xs = loop.iter.args[0]
    bad = 0
    for st in loop.body:
        for n in ast.walk(st):
            if not (isinstance(n, ast.Name) and n.id == idx.id):
                continue
            p = par.get(id(n))
            # position test: idx compared with a loop-invariant boundary position (first / last element), however it is spelled:
            # idx == len(xs) - 1, idx < last_idx, idx != 0, idx >= 1 ...
            if isinstance(p, ast.Compare) and len(p.ops) == 1 and isinstance(p.ops[0], (ast.Eq, ast.NotEq, ast.Lt, ast.LtE, ast.Gt, ast.GtE)):
                other = p.comparators[0] if p.left is n else p.left
                names = {x.id for x in ast.walk(other) if isinstance(x, ast.Name)}
                if not (names & assigned) and (isinstance(p.ops[0], (ast.Eq, ast.NotEq)) or _is_boundary(other, fn_node, loop)):
                    continue
            # a parallel list read at the current position: flags = [f(x) for x in xs] ... flags[idx]  is  f(current element)
            if isinstance(p, ast.Subscript) and p.slice is n and isinstance(p.ctx, ast.Load) and isinstance(p.value, ast.Name):
                from .ctxuse import single_defs as _sd
                ds_ = _sd(fn_node).get(p.value.id, [])
                if len(ds_) == 1 and isinstance(ds_[0], ast.ListComp) and len(ds_[0].generators) == 1 \
                        and src(ds_[0].generators[0].iter) == src(xs) and not ds_[0].generators[0].ifs:
                    continue
            # in-place replacement of the current element: xs[idx] = ...
            if isinstance(p, ast.Subscript) and p.slice is n and isinstance(p.ctx, ast.Store):
                continue
            bad += 1
    if bad == 0:
        return True, ''
    return False, 'loop index %s is used beyond position tests against loop-invariant expressions (%d other uses)' % (idx.id, bad)


# ---------------------------------------------------------------------------- printer level
BASES = {'list': 'list', 'tuple': 'tuple', 'set': 'set', 'dict': 'dict', 'frozenset': 'frozenset',
         'str': 'str', 'bytes': 'bytes', 'int': 'int', 'float': 'float', 'bool': 'bool'}


def type_scenario(base, native):
    return TypeV(base) if native else TypeV('Sub_' + base, base=base)


def printer_for(repo, key):
    for r in facts.registry(repo):
        if r.key == key and r.fn is not None and '.extras' not in r.module.name:
            return r.fn
    raise AnalysisError('no printer registered for %s' % key)


def run_printer(repo, it, fn, value, ctx=None, **kw):
    """all paths of one printer on one abstract value; evaluates a returned contextual
    document's closure too (with symbolic layout arguments) and returns
    [(PathResult, term or None, phase)] where phase is 'direct' or 'layout-time'"""
    ctx = ctx or CtxV()
    out = []
    for pr in it.explore(fn, [value, ctx], kw):
        if pr.raised is not None or not isinstance(pr.value, (DocV, Const, SymStr)):
            out.append((pr, None, 'direct'))
            continue
        t = it.as_term(pr.value)
        out.append((pr, t, 'direct'))
    return out


def eval_contextual(repo, it, closure_fnv):
    """paths of a contextual evaluator with symbolic (indent, column, page_width, ribbon_width)"""
    args = [Sym('L.indent', 'int'), Sym('L.column', 'int'), Sym('L.page_width', 'int'), Sym('L.ribbon_width', 'int')]
    return it.explore(closure_fnv.fn, args, {}, closure=closure_fnv.env)


def bound(rep, quick, thorough):
    """scenario bound for the current tier"""
    return thorough if getattr(rep, 'tier', 'quick') == 'thorough' else quick


# ---------------------------------------------------------------------------- scaled sequences
ALWAYS_COUNT = 9
ELEMENT_KINDS = ('int', 'float', 'Sub_int', None)


def scaled_counts(repo, fn, most=300):
    """element counts one past every size constant that ``fn`` and the module functions it calls compare against (engine.thresholds),
    plus a fixed small count: a branch of a container printer that is only taken for "more than N elements" is run with more than N.
    Returns (counts, mined)."""
    from engine import thresholds
    from engine.astutil import call_name as _cn
    todo, seen = [fn], {}
    while todo:
        f = todo.pop()
        if f.key in seen:
            continue
        seen[f.key] = f
        for c in ast.walk(f.node):
            if isinstance(c, ast.Call):
                g = f.module.funcs.get(_cn(c).split('.')[-1])
                if g is not None and g.key not in seen and g.name.startswith('_'):
                    todo.append(g)
    mined, _ = thresholds.mine([fn.module], fns=[f.node for f in seen.values()], most=most)
    return sorted({ALWAYS_COUNT} | {t + 1 for t in mined}), mined


def typed_elements(n, kind, prefix='x'):
    """n element values of one kind: None = nothing known; 'int' / 'float' = exactly that built-in type; 'Sub_int' = an int subclass"""
    if kind is None:
        return [Sym('%s%d' % (prefix, i)) for i in range(n)]
    tv = TypeV(kind, base=kind[4:]) if kind.startswith('Sub_') else TypeV(kind)
    return [ValueV('%s%d' % (prefix, i), tv, None) for i in range(n)]


_ELEM_RE = re.compile(r'\b([a-z]\d+)\b')


def element_view(items):
    """[(element name or None, 'dispatch' | 'literal' | 'other', item)], one entry per element document of a sequence term: an element
    handed to the recursive print entry, a text computed from it directly (repr(x3), str(x3), ...), or something else (a placeholder)"""
    out = []
    for i in items:
        if isinstance(i, D.Sub):
            out.append((i.prov, 'dispatch', i))
            continue
        j = D.strip_ann(i)
        m = _ELEM_RE.search(j.prov or '') if isinstance(j, D.Lit) else None
        out.append((m.group(1), 'literal', i) if m else (None, 'other', i))
    return out


def in_order(view, nel, pr):
    """every element once and in iteration order: the i-th element document is about the i-th element (where that can be told), and
    there are as many documents as elements (not counted on a path that assumes the value is longer than max_seq_len: that is C10)"""
    if any(nm is not None and nm != 'x%d' % i for i, (nm, how, it_) in enumerate(view)):
        return False
    return len(view) == nel or pr.assumed('max_seq_len <', True)


def exactly_int(name, kind, pr):
    """the element is known to be exactly an int: by the scenario, or by the path condition (``type(el) is int`` was tested)"""
    return kind == 'int' or any(pol and text in ('int == type(%s)' % name, 'type(%s) == int' % name) for text, pol in pr.facts)


def implies_depth_at_least(pr, k):
    """the path condition of pr bounds ctx.depth_left from below by k"""
    for text, pol in pr.facts:
        m = re.match(r'^(-?\d+) (<|<=) ctx\.depth_left(?:-0)?$', text)
        if m and pol and int(m.group(1)) + (1 if m.group(2) == '<' else 0) >= k:
            return True
        m = re.match(r'^ctx\.depth_left(?:-0)? (<|<=) (-?\d+)$', text)
        if m and not pol and int(m.group(2)) + (0 if m.group(1) == '<' else 1) >= k:
            return True
    return False


def sequence_builder_content(repo, rep, rule, counts=None):
    """The sequence builder on n plain elements - 2, 3, and one more than every size constant it compares against: in every layout the
    content is the opening bracket, the elements in order separated by single commas, the closing bracket.  Returns the count."""
    m = repo.module('prettyprinter')
    sod = m.funcs.get('sequence_of_docs')
    if sod is None:
        raise AnalysisError('sequence_of_docs vanished')
    itb = interp(repo, 'builder')
    if counts is None:
        counts, mined = scaled_counts(repo, sod)
        rep.note('sequence builder: size constants %s; element counts %s' % ({k: v[:1] for k, v in mined.items()} or 'none', [2, 3] + counts))
    n = 0
    for nel in [2, 3] + [c for c in counts if c > 3]:
        docs = [sub('e%d' % i) for i in range(nel)]
        try:
            prs = itb.explore(sod, [CtxV(), punct('['), ListV(docs), punct(']')], {'dangle': Const(False), 'force_break': Const(False)})
        except Undecided as e:
            n += 1
            rep.undecided(rule, 'sequence_of_docs[n=%d]:content' % nel, sod.where, str(e))
            continue
        for pr in prs:
            if pr.raised is not None or not isinstance(pr.value, DocV):
                n += 1
                rep.fail(rule, 'sequence_of_docs[n=%d]:content' % nel, sod.where, 'the sequence builder raises %s / returns no document for %d elements'
                         % (pr.raised.what if pr.raised else None, nel))
                continue
            for seq in D.all_layouts(pr.value.t):
                sig = content_sig(seq)
                want = [('Text', '[')]
                for i in range(nel):
                    want.append(('Sub', 'e%d' % i))
                    if i < nel - 1:
                        want.append(('Text', ','))
                want.append(('Text', ']'))
                n += 1
                ok = list(sig) == want
                k = next((j for j, (x, y) in enumerate(zip(sig, want)) if x != y), min(len(sig), len(want))) if not ok else 0
                rep.check(ok, rule, 'sequence_of_docs[n=%d]:content' % nel, sod.where, 'elements separated by single commas',
                          'the content of a %d-element sequence is not "[ e0 , e1 , ... ]": at position %d it has %s where %s is due'
                          % (nel, k, list(sig[k:k + 3]), want[k:k + 3]), nontrivial=True)
    return n
