"""C05 -- a group laid out on one line never overflows the page or the ribbon."""
from .layout_arith import run_arith

META = {
    'text': 'Static conformance of the width arithmetic: at the group and fill decisions the width handed to the '
            'fitting predicate has the canonical linear form min(width - column, indent + ribbon - column); the '
            'ribbon is max(0, min(width, round(frac * width))) at all three sites and frac = min(1, ribbon/width); '
            'both predicates charge exactly len(text), continue only while budget >= 0, succeed only at end of '
            'line / input and fail when the budget is exhausted; the predicate sees a copy of the rest of the line '
            'plus the group in flat mode. A larger budget than the formula (the <= direction) lets a flat group '
            'overflow, so each equality is a necessary condition. That emitted lines actually fit is a run-time '
            'quantity and is NOT decided.',
    'note': 'canonical-form equality over integers with min/max; trusts round() and len(); fill look-ahead '
            'measures one item by design; does not decide that the traversal counts the right text (partly C04)',
    'technique': 'static analysis: canonical linear normal forms (min/max) of program expressions compared with '
                 'the formula in the property statement; branch-fact extraction from the stack machines',
}
META['text'] += " The stack-machine arithmetic applies while a loop is in the recognised dispatch form; the interpreted layout model (L.m: every flat group's whole line within page and ribbon) decides independently of the form."
META['text'] += ' Round 5: the interpreted layouts include documents scaled past every size constant of the layout engine; the ribbon fraction computed by the entry gives back the requested ribbon on a grid of page / ribbon widths (L.b).'


def run(repo, rep):
    rep.explanation = ('R-LIN arithmetic conformance for the <= direction (budget not larger than the admissible '
                       'width): L.a available width at group and fill decisions, L.b ribbon formula at 3 sites + '
                       'ribbon fraction, L.c budget discipline of both predicates, L.d predicate input is a copy '
                       'of the rest of the line plus the flat group, L.e forced breaks fail the predicate.')
    rep.not_decided = 'that the lines produced for a concrete document fit; fill and smart look-ahead optimality.'
    rep.assumptions = ['integer arithmetic; round() and len() opaque', 'ast parser']
    run_arith(repo, rep, 'C05')
