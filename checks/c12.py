"""C12 -- printing terminates and its work grows polynomially with the input."""
import ast

from engine import effects, facts
from engine.astutil import src, call_name, dotted, Guards, enclosing_map, names_in
from engine.linear import form, NotLinear, Lin, MinMax
from engine.loader import AnalysisError
from engine.switch import enumerate_paths, find_machine
from engine.flow import Flow, _walk_no_nested
from .ctxuse import print_sites, single_defs

META = {
    'text': 'Termination and cost, statically: (a) no function of the printing pipeline hands the same sub-value to a recur'
            "sive print entry twice on one path (alias-aware, path-sensitive multiplicity; the dict printer's commented val"
            'ue is the recorded finding); normalising nested flat_choice documents that share a sub-document takes a number'
            ' of normalize calls linear in the nesting depth (document model, depths 1-4); each normalize touches each chil'
            'd once; (b) loop inventory: every for loop iterates a finite iterable, every while loop makes progress on ever'
            'y feasible path (advances an iterator, pops, yields, shortens the piece in hand, descends into a smaller objec'
            't); (c) the width handed to the string splitter has a constant lower bound >= 1 and the splitter refuses non-p'
            'ositive widths; (d) the look-ahead shortcut of the sequence builder is a lower bound of the real width; (e) on'
            ' every cyclic object graph of the wrapper model the interpreted pipeline reaches the recursion marker; (f) a co'
            'mparison of two sort keys creates no further sort keys (no recursive, both-orders comparison of nested tuple '
            'keys). The degree of the polynomial is NOT decided.',
    'note': "multiplicity 2 on a child gives T(depth) >= 2 T(depth-1); the dict printer's second render of a commented valu"
            'e is a listed known finding',
    'technique': 'static analysis: multiplicity dataflow, loop classification over feasible paths, linear lower bounds, small-sc'
                 'ope interpretation of normalisation cost and of cyclic values',
}
META['text'] += ' Round 5: (b) every interpreted layout terminates, including fills of T+2 words where the indentation has reached the page width and documents scaled past every size constant of the layout engine; the splitter terminates on texts scaled past its size constants.'

INFINITE = {'cycle', 'count', 'repeat', 'itertools.cycle', 'itertools.count', 'itertools.repeat'}


def _exclusive(g, a, b):
    fa = {(f.text, f.pol) for f in g.of(a)}
    fb = {(f.text, f.pol) for f in g.of(b)}
    return any((t, not p) in fb for t, p in fa)


def run(repo, rep):
    rep.explanation = ('R-MULT recursion / normalisation multiplicity (C12.a), R-LOOP loop inventory (C12.b), progress floor of '
                       'the string splitter (C12.c), configuration-independent monotone shortcut (C12.d).')
    rep.not_decided = 'the polynomial degree / growth factor; cost of foreign __repr__; exponential behaviour arising only from layout decisions.'
    rep.assumptions = ['equal value expressions inside one function denote the same sub-value']
    cone, graph, fns = effects.print_cone(repo)
    m = repo.module('prettyprinter')

    # ---------------------------------------------------------------- C12.a
    n = 0
    for k in sorted(cone):
        f = fns[k]
        if '.extras' in f.module.name:
            continue
        sites = [(c, v, e) for c, v, ctxe, e in print_sites(f.node) if v is not None]
        if not sites:
            continue
        canon = _canoniser(f.node)
        site_of = {}
        for c, v, e in sites:
            site_of[id(c)] = (src(v), canon(v))
        clashes = {}

        def transfer(st, state, _site_of=site_of, _clashes=clashes):
            cur = set(state)
            if getattr(st, '_loop_target', False):
                # a new iteration: elements of the iterated container are new sub-values
                # (also anything computed from the loop variables: they are rebound)
                bound = {n_.id for n_ in ast.walk(st) if isinstance(n_, ast.Name) and isinstance(n_.ctx, ast.Store)}
                cur = {x for x in cur if x[0] in ('#none', '#some') or not x[1].startswith('elem(') and
                       not ({n_.id for n_ in ast.walk(ast.parse(x[0], mode='eval')) if isinstance(n_, ast.Name)} & bound)}
                return [frozenset(cur)]
            # None-ness of local names bound by plain assignments (els = None ... if els is None:): markers ('#none', name, 0) /
            # ('#some', name, 0) ride along in the state and let the branch hook drop the infeasible side
            if isinstance(st, ast.Assign) and len(st.targets) == 1 and isinstance(st.targets[0], ast.Name):
                nm_ = st.targets[0].id
                cur = {x for x in cur if not (x[0] in ('#none', '#some') and x[1] == nm_)}
                v_ = st.value
                if isinstance(v_, ast.Constant) and v_.value is None:
                    cur.add(('#none', nm_, 0))
                elif isinstance(v_, (ast.List, ast.Tuple, ast.Dict, ast.Set, ast.ListComp, ast.GeneratorExp, ast.SetComp, ast.DictComp, ast.JoinedStr)) or \
                        (isinstance(v_, ast.Constant) and v_.value is not None):
                    cur.add(('#some', nm_, 0))
            calls = [c for c in _walk_no_nested(st) if id(c) in _site_of]
            calls.sort(key=lambda c: (c.lineno, c.col_offset))
            for c in calls:
                raw, cv = _site_of[id(c)]
                for (r0, c0, ln0) in cur:
                    if r0 in ('#none', '#some'):
                        continue
                    if (r0 == raw or c0 == cv) and not isinstance(ast.parse(raw, mode='eval').body, ast.Constant):
                        _clashes.setdefault(raw if r0 == raw else cv, set()).update({ln0, c.lineno})
                cur.add((raw, cv, c.lineno))
            return [frozenset(cur)]
        def branch(test, state):
            # (states where the test can be true, states where it can be false)
            neg = False
            t_ = test
            if isinstance(t_, ast.UnaryOp) and isinstance(t_.op, ast.Not):
                neg, t_ = True, t_.operand
            if isinstance(t_, ast.Compare) and len(t_.ops) == 1 and isinstance(t_.ops[0], (ast.Is, ast.IsNot)) and isinstance(t_.left, ast.Name) \
                    and isinstance(t_.comparators[0], ast.Constant) and t_.comparators[0].value is None:
                is_none_test = isinstance(t_.ops[0], ast.Is) != neg
                nm_ = t_.left.id
                if ('#none', nm_, 0) in state:
                    return ([state], []) if is_none_test else ([], [state])
                if ('#some', nm_, 0) in state:
                    return ([], [state]) if is_none_test else ([state], [])
            return [state], [state]
        fl = Flow(transfer, lambda st, s_: [], branch=branch)
        try:
            fl.run(f.node, frozenset())
        except RecursionError:
            pass
        rep.count(fl.visited_stmts)
        seen_sets = []
        for val in sorted({r for r, _ in site_of.values()} | {c for _, c in site_of.values()}):
            lines = clashes.get(val)
            if lines and any(lines == s0 for s0 in seen_sets):
                continue
            if lines:
                seen_sets.append(lines)
            n += 1
            rep.check(not lines, 'C12.a', '%s:prints-once:%s' % (f.qualname, val[:40]), f.where,
                      'sub-value printed at most once per path',
                      '%s hands the sub-value %s to a recursive print entry twice on one path (lines %s): the work doubles at '
                      'every nesting level' % (f.name, val, sorted(lines) if lines else ''), nontrivial=True)
    # normalize(): each child normalised once
    dt = repo.module('doctypes')
    for cname, ci in sorted(dt.classes.items()):
        nm = ci.methods.get('normalize')
        if nm is None:
            continue
        g = Guards(nm.node)
        calls = [c for c in ast.walk(nm.node) if isinstance(c, ast.Call) and call_name(c) in ('normalize_doc',)
                 or (isinstance(c, ast.Call) and isinstance(c.func, ast.Attribute) and c.func.attr == 'normalize')]
        groups = {}
        for c in calls:
            arg = src(c.args[0]) if c.args else src(c.func.value)
            groups.setdefault(arg, []).append(c)
        n += 1
        bad = [a for a, cs in groups.items() if any(not _exclusive(g, cs[i], cs[j]) for i in range(len(cs)) for j in range(i + 1, len(cs)))]
        rep.check(not bad, 'C12.a', '%s.normalize:each-child-once' % cname, nm.where, 'each child normalised at most once',
                  '%s.normalize normalises %s more than once on a path' % (cname, bad), nontrivial=True)
        if cname == 'FlatChoice':
            n += 1
            reads = [a for a in ast.walk(nm.node) if isinstance(a, ast.Attribute) and a.attr in ('when_broken', 'when_flat')]
            rep.check(not reads, 'C12.a', 'FlatChoice.normalize:no-accessor-read', nm.where, 'normalize does not touch the lazy accessors',
                      'FlatChoice.normalize reads %s: the accessors normalise their alternative, so normalisation is eager again '
                      '(both subtrees of every choice are normalised: exponential in the nesting depth)' % sorted({a.attr for a in reads}),
                      nontrivial=True)
            n += 1
            rep.check(not calls, 'C12.a', 'FlatChoice.normalize:lazy', nm.where, 'neither alternative normalised eagerly',
                      'FlatChoice.normalize normalises %s eagerly: both subtrees are normalised although the layout uses one '
                      '(the 0.15.0 exponential blow-up)' % [src(c) for c in calls], nontrivial=True)
    fc = dt.classes.get('FlatChoice')
    if fc is None:
        raise AnalysisError('FlatChoice vanished')
    for prop, flag in (('when_broken', '_broken_normalized'), ('when_flat', '_flat_normalized')):
        meth = fc.methods.get(prop)
        if meth is None:
            continue
        g = Guards(meth.node)
        norms = [s for s in ast.walk(meth.node) if isinstance(s, ast.Assign) and isinstance(s.value, ast.Call)
                 and call_name(s.value) == 'normalize_doc']
        for s in norms:
            n += 1
            guarded = any((not ff.pol) and ff.text == 'self.' + flag for ff in g.of(s))
            blk = _block_of(s, meth.node)
            sets_flag = any(isinstance(x, ast.Assign) and src(x.targets[0]) == 'self.' + flag and src(x.value) == 'True' for x in blk)
            rep.check(guarded and sets_flag, 'C12.a', 'FlatChoice.%s:normalises-once' % prop, meth.where,
                      'alternative normalised at most once (flag tested and set)',
                      'FlatChoice.%s re-normalises its alternative on every access (flag %s not tested/set)' % (prop, flag), nontrivial=True)
    # layout: contextual result normalised once per evaluation
    rep.floor('C12.a', n, 22)
    # normalisation work is linear in the nesting depth (document model), and printing a cyclic value terminates (wrapper model:
    # the interpreted pipeline reaches the recursion marker on every cyclic scenario)
    from . import docmodel, wrapper_model
    rep.floor('C12.a:normalisation-cost', docmodel.cost(repo, rep, 'C12.a'), 3)
    rep.floor('C12.e', wrapper_model.run(repo, rep, 'C12'), 5)

    # ---------------------------------------------------------------- C12.b loops
    n = 0
    for k in sorted(cone):
        f = fns[k]
        if '.extras' in f.module.name:
            continue
        from engine.astutil import expand_ifexp
        for lp in _own_loops(expand_ifexp(f.node)):
            if isinstance(lp, ast.While):
                n += 1
                kind, why = _classify_while(lp, f)
                rep.check(kind is not None, 'C12.b', '%s:while:%s' % (f.qualname, src(lp.test)[:40]), '%s:%d' % (f.module.relpath, lp.lineno),
                          'terminating loop kind: %s' % kind,
                          'while loop in %s is not of a terminating kind: %s' % (f.name, why), nontrivial=True)
            else:
                its = [lp.iter]
                n += 1
                bad = _infinite_iter(lp.iter)
                rep.check(not bad, 'C12.b', '%s:for:%s' % (f.qualname, src(lp.iter)[:40]), '%s:%d' % (f.module.relpath, lp.lineno),
                          'finite iterable', 'for loop in %s iterates the infinite iterator %s' % (f.name, src(lp.iter)))
        for comp in ast.walk(f.node):
            if isinstance(comp, ast.comprehension):
                bad = _infinite_iter(comp.iter)
                if bad:
                    n += 1
                    rep.fail('C12.b', '%s:comprehension:%s' % (f.qualname, src(comp.iter)[:40]), '%s:%d' % (f.module.relpath, comp.iter.lineno),
                             'comprehension in %s iterates the infinite iterator %s' % (f.name, src(comp.iter)))
    rep.floor('C12.b', n, 20)
    # ... and the string splitter, whose progress argument is the subtlest of these loops, is run on the string corpus (texts with
    # quotes, escapes, wide gaps, runs of combining marks; widths 1..13) by the interpreter with a bound of 4000 iterations per call:
    # a call that is still looping then does not terminate for that text
    from . import strmodel
    rep.floor('C12.b:splitter', strmodel.run(repo, rep, {'terminates': 'C12.b'}), 1)
    from . import layoutmodel
    rep.floor('C12.b:layout', layoutmodel.run(repo, rep, {'loop': 'C12.b'}), 1)

    # ---------------------------------------------------------------- C12.c progress floor
    n = 0
    ps = None
    for r in facts.registry(repo):
        if r.key == 'str' and r.fn is not None:
            ps = r.fn
    if ps is None:
        raise AnalysisError('string printer not found in the registry')
    ev = None
    for q, f in ps.module.funcs.items():
        if f.parent is ps:
            ev = f
    if ev is None:
        raise AnalysisError('string printer has no layout-time evaluator')
    from engine.astutil import bind_args
    calls = [c for c in ast.walk(ps.node) if isinstance(c, ast.Call) and call_name(c) == 'str_to_lines']
    defs = {k_: v[0] for k_, v in single_defs(ev.node).items() if len(v) == 1}
    for c in calls:
        ml = bind_args(c, m.funcs['str_to_lines']).get('max_len')
        n += 1
        lb = None
        try:
            fm = form(_fold_len(ml, defs, m))
            lb = _lower_bound(fm)
        except (NotLinear, TypeError, AttributeError):
            lb = None
        rep.check(lb is not None and lb >= 1, 'C12.c', 'str-evaluator:width-floor', '%s:%d' % (ev.module.relpath, c.lineno),
                  'width given to the splitter >= %s' % lb,
                  'the width handed to the string splitter (%s) has no constant lower bound >= 1: with no width left the '
                  'splitter cannot make progress (assertion / endless loop)' % (src(ml) if ml is not None else None), nontrivial=True)
    stl = m.funcs.get('str_to_lines')
    if stl is not None:
        n += 1
        asserts = [a for a in ast.walk(stl.node) if isinstance(a, ast.Assert) and src(a.test).replace(' ', '') in ('%s>0' % stl.params[0], '%s>=1' % stl.params[0])]
        rep.check(bool(asserts), 'C12.c', 'str_to_lines:asserts-positive-width', stl.where, 'splitter refuses a non-positive width',
                  'str_to_lines no longer asserts max_len > 0')
    rep.floor('C12.c', n, 2)

    # ---------------------------------------------------------------- C12.d
    n = 0
    sod = m.funcs.get('sequence_of_docs')
    if sod is None:
        raise AnalysisError('sequence_of_docs vanished')
    defs = {k_: v[0] for k_, v in single_defs(sod.node).items() if len(v) == 1}
    n += 1
    ok = False
    detail = 'no comparison of a minimum output length with a constant'
    # wherever it is written (a named flag, an if statement, an early return):  <linear in len(docs), increasing> > CONST
    for p in ast.walk(sod.node):
        if isinstance(p, ast.Compare) and len(p.ops) == 1 and isinstance(p.ops[0], (ast.Gt, ast.GtE, ast.Lt, ast.LtE)):
            big, small = (p.left, p.comparators[0]) if isinstance(p.ops[0], (ast.Gt, ast.GtE)) else (p.comparators[0], p.left)
            try:
                fm = form(_fold_len(big, defs))
            except (NotLinear, AttributeError):
                continue
            names = set(fm.terms) if isinstance(fm, Lin) else set()
            if isinstance(fm, Lin) and names == {'len(docs)'}:
                if fm.terms['len(docs)'] > 0:
                    ok = True
                detail = 'minimum length = %s' % fm.text()
    rep.check(ok, 'C12.d', 'sequence_of_docs:shortcut-monotone-in-len', sod.where,
              'shortcut depends only on len(docs), increasing', 'the long-sequence shortcut is computed as %s' % detail, nontrivial=True)
    rep.floor('C12.d', n, 1)
    # ---------------------------------------------------------------- C12.f the sort key compares in one step
    # sorted() calls the key's __lt__ O(n log n) times; a comparison that wraps the members of its operands in new keys and compares
    # those (twice each: a < b, then b < a) does work exponential in the nesting depth of tuple keys
    from engine import roles
    sk = m.classes.get(roles.name(repo, 'sortable_cls'))
    n = 0
    if sk is not None:
        for mname, meth in sorted(sk.methods.items()):
            n += 1
            rec = [c for c in ast.walk(meth.node) if isinstance(c, ast.Call) and ((isinstance(c.func, ast.Name) and c.func.id == sk.name) or
                                                                                  src(c.func) in ('type(self)', 'self.__class__'))]
            rep.check(not rec, 'C12.f', '%s.%s:no-nested-sort-keys' % (sk.name, mname), meth.where,
                      'a comparison of two sort keys does not create further sort keys',
                      '%s.%s wraps parts of its operands in new %s objects (line %s) and compares those: the comparison recurses into the keys, '
                      'with both orders tried at every level the work is exponential in the nesting depth of the keys'
                      % (sk.name, mname, sk.name, [c.lineno for c in rec]), nontrivial=True)
    rep.floor('C12.f', n, 2)
    rep.count(len(cone))


def shortcut_counts_elements_only(repo, rep, rule):
    """C06: the printers force a break on their own for very long sequences only - a threshold on the *number* of elements (more
    than 50: such a sequence cannot fit 150 columns whatever its elements are).  A threshold that looks at the elements (their
    widths, their kinds) breaks sequences that fit on a wide page.  Every ordering comparison of sequence_of_docs that involves the
    element list must be linear in len(docs) alone.  Returns the number of comparisons examined."""
    m = repo.module('prettyprinter')
    sod = m.funcs.get('sequence_of_docs')
    if sod is None:
        raise AnalysisError('sequence_of_docs vanished')
    defs = {k_: v[0] for k_, v in single_defs(sod.node).items() if len(v) == 1}
    n = 0
    for p in ast.walk(sod.node):
        if not (isinstance(p, ast.Compare) and len(p.ops) == 1 and isinstance(p.ops[0], (ast.Gt, ast.GtE, ast.Lt, ast.LtE))):
            continue
        folded = [_fold_len(x, defs) for x in (p.left, p.comparators[0])]
        if not any(isinstance(x, ast.Name) and x.id == 'docs' for f_ in folded for x in ast.walk(f_)):
            continue
        if any(isinstance(x, ast.Name) and x.id in ('idx', 'i') for f_ in folded for x in ast.walk(f_)):
            continue        # a position test inside the element loop
        n += 1
        ok = True
        detail = ''
        for f_ in folded:
            if not any(isinstance(x, ast.Name) and x.id == 'docs' for x in ast.walk(f_)):
                continue
            try:
                fm = form(f_)
                names = set(fm.terms) if isinstance(fm, Lin) else {'?'}
                if names != {'len(docs)'}:
                    ok, detail = False, fm.text() if isinstance(fm, Lin) else src(f_)[:80]
            except (NotLinear, AttributeError):
                ok, detail = False, src(f_)[:120].replace('\n', ' ')
        rep.check(ok, rule, 'sequence_of_docs:forced-break-threshold-counts-elements', '%s:%d' % (m.relpath, p.lineno),
                  'threshold on the number of elements only',
                  'sequence_of_docs compares %s with a threshold: the decision to force a break looks at the elements themselves, so a sequence '
                  'that fits on a wide page is broken all the same' % detail, nontrivial=True)
    return n


def _canoniser(fn):
    """canonical description of a sub-value expression: aliases of 'an element of container X' agree"""
    defs, loops = {}, {}
    for s in ast.walk(fn):
        if isinstance(s, ast.Assign) and len(s.targets) == 1 and isinstance(s.targets[0], ast.Name):
            defs.setdefault(s.targets[0].id, []).append(s.value)
        if isinstance(s, (ast.For, ast.comprehension)) and isinstance(s.target, ast.Name):
            loops.setdefault(s.target.id, []).append(s.iter)

    def base_iter(it, depth=0):
        while isinstance(it, ast.Call) and call_name(it) in ('take', 'islice', 'enumerate', 'reversed', 'iter', 'list', 'tuple', 'sorted') and it.args:
            it = it.args[1] if call_name(it) == 'take' and len(it.args) > 1 else it.args[0]
        return canon(it, depth + 1)

    def canon(e, depth=0):
        if depth > 6:
            return src(e)
        if isinstance(e, ast.Name):
            if len(loops.get(e.id, [])) == 1 and e.id not in defs:
                return 'elem(%s)' % base_iter(loops[e.id][0], depth)
            if len(defs.get(e.id, [])) == 1 and e.id not in loops and e.id not in names_in(defs[e.id][0]):
                return canon(defs[e.id][0], depth + 1)
            return e.id
        if isinstance(e, ast.Subscript) and isinstance(e.slice, ast.Constant) and isinstance(e.slice.value, int):
            return 'elem(%s)' % base_iter(e.value, depth)
        return src(e)
    return canon


def _block_of(stmt, root):
    for node in ast.walk(root):
        for fld in ('body', 'orelse', 'finalbody'):
            blk = getattr(node, fld, None)
            if isinstance(blk, list) and any(x is stmt for x in blk):
                return blk
    return [stmt]


def _own_loops(fn_node):
    stack = list(fn_node.body)
    while stack:
        nd = stack.pop()
        if isinstance(nd, (ast.FunctionDef, ast.AsyncFunctionDef, ast.ClassDef, ast.Lambda)):
            continue
        if isinstance(nd, (ast.While, ast.For)):
            yield nd
        stack.extend(ast.iter_child_nodes(nd))


def _infinite_iter(it):
    if isinstance(it, ast.Call):
        cn = call_name(it)
        if cn in INFINITE:
            if cn.endswith('repeat') and len(it.args) >= 2:
                return False
            return True
        if cn in ('zip',):
            return bool(it.args) and all(_infinite_iter(a) for a in it.args)
        if cn in ('enumerate', 'iter', 'map', 'filter', 'chain', 'intersperse', 'reversed'):
            args = it.args[1:] if cn in ('map', 'filter', 'intersperse') else it.args
            return any(_infinite_iter(a) for a in args)
    return False


def _classify_while(lp, f):
    body = lp.body
    # local names bound to the pop method of a list (``pop = stack.pop``): calling them pops that list
    pop_alias = {a_.targets[0].id: src(a_.value.value) for a_ in ast.walk(f.node)
                 if isinstance(a_, ast.Assign) and len(a_.targets) == 1 and isinstance(a_.targets[0], ast.Name)
                 and isinstance(a_.value, ast.Attribute) and a_.value.attr == 'pop'}
    # stack-pop machine: (optional emptiness exit) then unconditional ``a, b, c = S.pop()``
    for st in body[:3]:
        is_pop = isinstance(st, ast.Assign) and isinstance(st.value, ast.Call) and not st.value.args and (
            (isinstance(st.value.func, ast.Attribute) and st.value.func.attr == 'pop') or
            (isinstance(st.value.func, ast.Name) and st.value.func.id in pop_alias))
        if is_pop:
            stack = src(st.value.func.value) if isinstance(st.value.func, ast.Attribute) else pop_alias[st.value.func.id]
            t = src(lp.test)
            exits = t == stack or any(isinstance(s, ast.If) and src(s.test) in ('not ' + stack, 'len(%s) == 0' % stack)
                                      and s.body and isinstance(s.body[0], (ast.Return, ast.Break)) for s in body[:2])
            if exits:
                return 'stack-pop machine (one pop per iteration, exit on empty stack)', ''
            return None, 'pops %s each iteration but has no exit on an empty stack' % stack
    # counter loop: the test bounds a variable from below (above) and every path through the body lowers (raises) it by a positive
    # constant:  while 0 < i < n and ...: i -= 1
    tests_ = lp.test.values if isinstance(lp.test, ast.BoolOp) and isinstance(lp.test.op, ast.And) else [lp.test]
    lower, upper = set(), set()
    for t_ in tests_:
        if isinstance(t_, ast.Compare):
            terms_ = [t_.left] + list(t_.comparators)
            for a_, op_, b_ in zip(terms_, t_.ops, terms_[1:]):
                if isinstance(op_, (ast.Lt, ast.LtE)):
                    if isinstance(b_, ast.Name):
                        lower.add(b_.id)        # a < x : x is bounded from below
                    if isinstance(a_, ast.Name):
                        upper.add(a_.id)        # x < b : x is bounded from above
                if isinstance(op_, (ast.Gt, ast.GtE)):
                    if isinstance(a_, ast.Name):
                        lower.add(a_.id)
                    if isinstance(b_, ast.Name):
                        upper.add(b_.id)
    if lower or upper:
        cpaths = enumerate_paths(body, '__none__', {})
        for x_, sign_ in [(v_, '-=') for v_ in sorted(lower)] + [(v_, '+=') for v_ in sorted(upper)]:
            def steps(p_):
                return [e for e in p_.events if e[0] == 'set' and e[1] == x_]
            if all(p_.end in ('return', 'break', 'raise') or
                   (len(steps(p_)) >= 1 and all(e[2] == sign_ and e[3].isdigit() and int(e[3]) > 0 for e in steps(p_))) for p_ in cpaths):
                return 'counter loop: %s moves by a positive constant towards the bound in the loop test on every path' % x_, ''
    # unwrap loop: while isinstance(x, ...): every path rebinds x to x.<attr>
    if isinstance(lp.test, ast.Call) and call_name(lp.test) == 'isinstance' and isinstance(lp.test.args[0], ast.Name):
        x = lp.test.args[0].id
        paths = enumerate_paths(body, '__none__', {})
        ok = all(any(e[0] == 'set' and e[1] == x and e[3].startswith(x + '.') for e in p.events) or p.end in ('return', 'break', 'raise')
                 for p in paths)
        # paths that contradict the loop test cannot occur: require every if/elif arm to rebind
        arms = [p for p in paths if not any(e[0] == 'set' and e[1] == x for e in p.events) and p.end == 'fall']
        covered = all(_contradicts_test(p, lp.test) for p in arms)
        if ok or covered:
            return 'unwrap loop on a strictly smaller wrapped value', ''
        return None, 'some path through the body does not unwrap %s' % x
    # any other loop: every feasible path through the body that does not leave the loop makes progress of a recognised kind -
    # it advances an iterator / pops, yields (the flushed line is emptied: the piece in hand is consumed on the next round), drops or
    # shortens the piece in hand, or descends into a strictly smaller object (x = x.attr / a proper slice of x)
    paths = enumerate_paths(body, '__none__', {})
    held = None
    for s in ast.walk(lp):
        if isinstance(s, ast.Assign) and isinstance(s.value, ast.Call) and call_name(s.value) == 'next' and isinstance(s.targets[0], ast.Tuple):
            held = s.targets[0].elts[0].id
        if isinstance(s, ast.Assign) and isinstance(s.value, ast.Call) and call_name(s.value) == 'next' and isinstance(s.targets[0], ast.Name):
            held = s.targets[0].id
    if held is None and isinstance(lp.test, ast.Name):
        held = lp.test.id      # ``while piece:`` - the piece in hand is the loop's own condition
    halves = set()
    for s in ast.walk(lp):
        if isinstance(s, ast.Assign) and isinstance(s.targets[0], ast.Tuple) and len(s.targets[0].elts) == 2:
            if isinstance(s.value, ast.Call) and call_name(s.value) == 'split_at':
                halves.add(src(s.targets[0].elts[1]))
            # x[:k], x[k:]  - the second is the right half
            if isinstance(s.value, ast.Tuple) and len(s.value.elts) == 2 and all(isinstance(e_, ast.Subscript) and isinstance(e_.slice, ast.Slice) for e_ in s.value.elts) \
                    and s.value.elts[1].slice.lower is not None and s.value.elts[1].slice.upper is None:
                halves.add(src(s.targets[0].elts[1]))
    bad = []
    for p in paths:
        if not _path_feasible(p):
            continue
        progress = p.end in ('break', 'return', 'raise')
        for e in p.events:
            if e[0] == 'yield':
                progress = True
            if e[0] == 'call' and (e[1] == 'next' or e[1].endswith(('.pop', '.popleft'))):
                progress = True
            if e[0] == 'set' and e[3].startswith(e[1] + '.'):
                progress = True     # x = x.attr: descent into a strictly smaller object
            if e[0] == 'set' and held and e[1] == held and (e[3] in ('None',) or e[3].endswith(' or None') and e[3][:-8] in halves):
                progress = True
            if e[0] == 'set' and held and e[1] == held and __import__('re').fullmatch(
                    __import__('re').escape(held) + r'\[[^\[\]:]+:\](?: or None)?', e[3]):
                progress = True     # shortened to its own tail  x = x[k:]  (the head x[:k] is what was put on the line: non-empty by C12.c)
            if e[0] == 'set' and held and e[1] == held and ((e[3].startswith('split_at(') and e[3].endswith('[1]')) or
                                                            ('split_at' in e[3] and not e[3].endswith(']')) or e[3] in halves):
                progress = True     # shortened to the right half of a split (non-empty left half: C12.c floor)
        if not progress:
            bad.append(p.cond_text()[:120])
    if not bad:
        return 'every feasible path advances an iterator, yields, exits, shortens the piece in hand or descends into a smaller object', ''
    return None, 'path(s) %s neither advance, yield, exit, shorten the held piece nor descend' % bad[:2]


def _path_feasible(p):
    """cheap contradiction test over emptiness / length facts of one variable: ``X`` falsy with ``len(X) > k``, ``X`` truthy with
    ``len(X) == 0`` ...; a test and its negation on the same path"""
    import re
    lo, hi = {}, {}
    seen = {}
    conds = []
    from engine.astutil import atomise
    for t, pol in p.conds:
        try:
            atoms = atomise(ast.parse(t, mode='eval').body, pol)
        except SyntaxError:
            atoms = []
        if atoms:
            conds.extend((a_.text, a_.pol) for a_ in atoms)
        else:
            conds.append((t, pol))
    for t, pol in conds:
        key = t.replace(' ', '')
        if seen.get(key, pol) != pol:
            return False
        seen[key] = pol
        m_ = re.fullmatch(r'len\((\w+)\)(<=|>=|==|<|>|!=)(\d+)', key)
        if m_:
            x, op, k = m_.group(1), m_.group(2), int(m_.group(3))
            if not pol:
                op = {'<=': '>', '>=': '<', '==': '!=', '<': '>=', '>': '<=', '!=': '=='}[op]
            if op == '>':
                lo[x] = max(lo.get(x, 0), k + 1)
            elif op == '>=':
                lo[x] = max(lo.get(x, 0), k)
            elif op == '<':
                hi[x] = min(hi.get(x, 10 ** 9), k - 1)
            elif op == '<=':
                hi[x] = min(hi.get(x, 10 ** 9), k)
            elif op == '==':
                lo[x] = max(lo.get(x, 0), k)
                hi[x] = min(hi.get(x, 10 ** 9), k)
        elif re.fullmatch(r'\w+', key):
            if pol:
                if any(('len(%s)' % key) in t2 for t2, _ in conds):
                    lo[key] = max(lo.get(key, 0), 1)
            elif any(('len(%s)' % key) in t2 for t2, _ in conds):
                hi[key] = min(hi.get(key, 10 ** 9), 0)
    return all(lo.get(x, 0) <= hi.get(x, 10 ** 9) for x in set(lo) | set(hi))



def _try_next(body, path):
    # ``try: x = next(it) except StopIteration: break`` is a Try statement: enumerate_paths treats it as simple;
    # the call event for next() is recorded, so this is only a fallback
    return False


def _contradicts_test(path, test):
    """a path whose conditions say 'not isinstance(x, A)' for every class A of the loop test"""
    if not (isinstance(test, ast.Call) and len(test.args) == 2):
        return False
    classes = [src(e) for e in (test.args[1].elts if isinstance(test.args[1], ast.Tuple) else [test.args[1]])]
    x = src(test.args[0])
    neg = {t for t, pol in path.conds if not pol}
    return all('isinstance(%s, %s)' % (x, c) in neg for c in classes)


def _fold_len(node, defs, module=None):
    """replace len('<const>') by its value so that constant lower bounds are visible"""
    import copy

    class T(ast.NodeTransformer):
        def visit_Call(self, n):
            self.generic_visit(n)
            if isinstance(n.func, ast.Name) and n.func.id == 'len' and len(n.args) == 1 and \
                    isinstance(n.args[0], ast.Constant) and isinstance(n.args[0].value, (str, bytes)):
                return ast.copy_location(ast.Constant(value=len(n.args[0].value)), n)
            return n

        def visit_Name(self, n):
            if isinstance(n.ctx, ast.Load) and n.id in defs and depth[0] < 6 \
                    and n.id not in names_in(defs[n.id]):
                depth[0] += 1
                r = self.visit(copy.deepcopy(defs[n.id]))
                depth[0] -= 1
                return r
            # a module-level constant (an upper-case name bound once at module level): its defining expression
            if isinstance(n.ctx, ast.Load) and n.id not in defs and module is not None and n.id.isupper() and depth[0] < 6 \
                    and len(module.assigns.get(n.id, ())) == 1:
                depth[0] += 1
                r = self.visit(copy.deepcopy(module.assigns[n.id][0]))
                depth[0] -= 1
                return r
            return n
    depth = [0]
    return T().visit(copy.deepcopy(node))


def _lower_bound(fm):
    """constant lower bound of a canonical form, if one is visible"""
    if isinstance(fm, Lin):
        return fm.const if fm.is_const() else None
    if isinstance(fm, MinMax):
        bounds = [_lower_bound(i) for i in fm.items]
        if fm.kind == 'max':
            known = [b for b in bounds if b is not None]
            return max(known) if known else None
        if all(b is not None for b in bounds):
            return min(bounds)
    return None
