"""C19 -- output depends only on the value and the settings; inputs are never modified."""
import ast

from engine import effects, facts
from engine.astutil import src, call_name, dotted, names_in, enclosing_map, Guards
from engine.loader import AnalysisError
from . import shared_state as SS

META = {
    'text': 'Static effect analysis: (a) the complete inventory of writes to module-level state made by functions '
            'reachable from the printing pipeline is a subset of an allow-list whose every entry carries its '
            'idempotence argument (any new cache, counter or memo is a violation); (b) in every bundled printer the '
            'value parameter, its aliases and elements drawn from it are never the receiver of a mutating method nor '
            'the target of a subscript / attribute store or del, and keyed reads on mapping parameters use keys drawn '
            'from the mapping\'s own iteration; (c) id() flows only into the visited set and the recursion marker, and '
            'no clock, random, environment or terminal query is reachable from the pipeline; (d) documents handed to the '
            'layout (and the module-level constants inside them) are unchanged by normalisation and by both layout '
            'strategies: decided on interpreted layouts of the model documents with before/after snapshots of everything '
            'reachable, object identities included; the shared constants are built without the self-normalising flag. '
            'Within (a): what the pipeline remembers per class (the struct-sequence field-name cache) is keyed by the class, '
            'originates only from one extractor call - never from a caught exception or anything else derived from the '
            'particular value -, is stored once, and the extractor returns the field names whatever the elements look like '
            '(interpreted on reprs with commas, = and calls inside elements). User printers and foreign __repr__ are NOT '
            'covered.',
    'note': 'mutator and environment-call tables are part of the checker; call graph is name-resolved (no dynamic dispatch '
            'beyond the registry, ctx methods and normalize())',
    'technique': 'static analysis: effect inventory over the call-graph cone, receiver-mutation taint on value parameters, '
                 'forbidden-call reachability, guard facts',
}
META['text'] += " Round 5: (c) only the determinism facts of the sort-key model are selected; (d) the immutability model includes the scaled documents; (e) a body read in a helper is judged at the helper's call sites."

ENV_CALLS = {'time.time', 'time.monotonic', 'time.perf_counter', 'datetime.now', 'datetime.utcnow', 'datetime.today',
             'random.random', 'random.choice', 'random.shuffle', 'random.randint', 'os.getenv', 'os.environ.get',
             'shutil.get_terminal_size', 'get_terminal_width', 'os.urandom', 'uuid.uuid4', 'uuid.uuid1', 'os.getpid',
             'date.today', 'time.time_ns', 'random.sample'}
MAPPING_KEYS = {'dict', 'defaultdict', 'OrderedDict', 'Counter', 'ChainMap', "'builtins.mappingproxy'"}
FRESH = {'dict', 'list', 'sorted', 'tuple', 'set', 'frozenset', 'OrderedDict', 'str', 'repr', 'abs', 'divmod', 'len'}
TRANSPARENT = {'iter', 'reversed', 'chain', 'take', 'zip', 'enumerate', 'islice', 'dropwhile', 'filter', 'map'}


from engine.astutil import strip_stdlib_prefix as _strip
_ENV = set(ENV_CALLS) | {_strip(x) for x in ENV_CALLS}      # call names are normalised (``shutil.get_terminal_size`` = ``get_terminal_size``)


def run(repo, rep):
    rep.explanation = ('R-EFF: C19.a write inventory of the print cone vs allow-list; C19.b value parameters are never '
                       'mutated; C19.c identity / environment do not reach the output; C19.d shared documents immutable.')
    rep.not_decided = 'user printers; __repr__ / __eq__ of foreign objects; hash-seed dependent set order (constant within one interpreter).'
    rep.assumptions = ['mutating-method table', 'call graph resolved by name']
    n_inv, cone, shared, sites, cone_sites = SS.check_write_inventory(repo, rep, 'C19.a')
    rep.floor('C19.a', n_inv, 4)
    rep.floor('C19.a:promotion', SS.promotion_consistency(repo, rep, 'C19.a'), 3)
    rep.floor('C19.a:visited', SS.fresh_visited(repo, rep, 'C19.a'), 8)
    regs = facts.registry(repo)

    # ---------------------------------------------------------------- C19.b
    n = 0
    printers = {}
    reg_keys = {}
    for r in regs:
        if r.fn is not None and '.extras' not in r.module.name:
            printers[r.fn.key] = r.fn
            reg_keys.setdefault(r.fn.key, set()).add(r.key)
    m = repo.module('prettyprinter')
    for name in ('pretty_namedtuple', 'pretty_cnamedtuple', 'pretty_call_alt', 'pretty_call', 'build_fncall',
                 'sequence_of_docs', 'pretty_python_value', 'unwrap_comments', 'python_to_sdocs',
                 'pretty_pytz_timezone', 'pretty_pytz_dst_timezone'):
        for mod in (m, repo.module('pretty_stdlib')):
            if name in mod.funcs:
                printers[mod.funcs[name].key] = mod.funcs[name]
    for f in sorted(printers.values(), key=lambda x: x.key):
        if not f.params:
            continue
        value = f.params[0] if f.name not in ('pretty_call_alt', 'pretty_call', 'build_fncall', 'sequence_of_docs') else None
        tainted = set()
        if value:
            tainted.add(value)
        if f.name in ('pretty_call_alt', 'pretty_call'):
            tainted |= {'args', 'kwargs'}
        # alias propagation to a fixpoint
        for _ in range(6):
            before = set(tainted)
            for s in ast.walk(f.node):
                if isinstance(s, ast.Assign):
                    if _derives(s.value, tainted):
                        for t in s.targets:
                            tainted |= names_in(t)
                elif isinstance(s, (ast.For, ast.comprehension)):
                    if _derives(s.iter, tainted):
                        tainted |= names_in(s.target)
            if tainted == before:
                break
        bad = []
        for s in ast.walk(f.node):
            if isinstance(s, ast.Call) and isinstance(s.func, ast.Attribute) and s.func.attr in effects.MUTATORS:
                base = s.func.value
                if _rooted(base, tainted):
                    bad.append((s.lineno, '%s.%s(...)' % (src(base), s.func.attr)))
            if isinstance(s, (ast.Assign, ast.AugAssign, ast.Delete)):
                tg = s.targets if not isinstance(s, ast.AugAssign) else [s.target]
                for t in tg:
                    for tt in (t.elts if isinstance(t, (ast.Tuple, ast.List)) else [t]):
                        if isinstance(tt, (ast.Subscript, ast.Attribute)) and _rooted(tt.value, tainted):
                            bad.append((s.lineno, 'store/del on %s' % src(tt)))
        n += 1
        rep.check(not bad, 'C19.b', '%s:no-input-mutation' % f.qualname, f.where,
                  'value parameter and what is drawn from it are only read',
                  '%s mutates its input: %s' % (f.key, '; '.join('line %d %s' % b for b in bad)), nontrivial=True)
        # keyed reads on the mapping parameter
        if value:
            is_mapping = bool(reg_keys.get(f.key, set()) & MAPPING_KEYS)
            for s in ast.walk(f.node):
                if isinstance(s, ast.Subscript) and isinstance(s.ctx, ast.Load) and \
                        src(s.value) in (value, value + '.__dict__'):
                    if isinstance(s.slice, ast.Name):
                        k = s.slice.id
                        src_iter = _iter_source_of(f.node, k)
                        ok = src_iter is not None and _keys_of(src_iter, src(s.value), f.node)
                    elif is_mapping and not isinstance(s.slice, ast.Slice):
                        k = src(s.slice)
                        ok = False
                    else:
                        continue
                    n += 1
                    rep.check(ok, 'C19.b', '%s:keyed-read-own-keys:%s[%s]' % (f.qualname, src(s.value), k),
                              '%s:%d' % (f.module.relpath, s.lineno), 'keys come from the mapping\'s own iteration',
                              '%s reads %s[%s] but %s is not drawn from iterating that mapping (a defaultdict would insert a key)'
                              % (f.key, src(s.value), k, k), nontrivial=True)
    rep.floor('C19.b', n, 25)

    # ---------------------------------------------------------------- C19.c
    n = 0
    from .wrapper import context_roles
    roles = context_roles(repo)
    allowed_id = {roles['acquire'].key, roles['release'].key if roles['release'] else None,
                  roles['test'].key if roles['test'] else None}
    for f in repo.all_functions():
        if f.key not in cone and not (f.cls is not None and f.module is m):
            continue
        for c in ast.walk(f.node):
            if isinstance(c, ast.Call) and call_name(c) == 'id':
                n += 1
                marker = 'recursion' in f.name.lower()
                if not (f.key in allowed_id or marker):
                    # id(x) asked only whether x is being visited (`id(x) in ctx.visited`, directly or through a local name of the
                    # set): the question is_visited asks; the answer does not depend on the number
                    from engine.astutil import enclosing_map as _em
                    p_ = _em(f.node).get(id(c))
                    if isinstance(p_, ast.Compare) and len(p_.ops) == 1 and isinstance(p_.ops[0], (ast.In, ast.NotIn)) and p_.left is c:
                        cont = p_.comparators[0]
                        fld = roles['field']
                        alias_ok = isinstance(cont, ast.Name) and any(
                            isinstance(s_, ast.Assign) and len(s_.targets) == 1 and isinstance(s_.targets[0], ast.Name) and s_.targets[0].id == cont.id
                            and isinstance(s_.value, ast.Attribute) and s_.value.attr == fld for s_ in ast.walk(f.node))
                        if (isinstance(cont, ast.Attribute) and cont.attr == fld) or alias_ok:
                            marker = True
                rep.check(f.key in allowed_id or marker, 'C19.c', '%s:id()' % f.qualname, '%s:%d' % (f.module.relpath, c.lineno),
                          'identity used only for the visited set / recursion marker',
                          '%s uses id(%s): object identity must not influence ordering or text (the allocator history '
                          'would change the output)' % (f.key, src(c.args[0]) if c.args else ''), nontrivial=True)
            if isinstance(c, ast.Call) and (call_name(c) in _ENV or call_name(c).split('.', 1)[-1] in _ENV):
                if f.key in cone:
                    n += 1
                    rep.fail('C19.c', '%s:env:%s' % (f.qualname, call_name(c)), '%s:%d' % (f.module.relpath, c.lineno),
                             '%s calls %s inside the printing pipeline: the output would depend on the environment' % (f.key, call_name(c)))
            if isinstance(c, ast.Attribute) and src(c) in ('os.environ', 'sys.argv') and f.key in cone:
                n += 1
                rep.fail('C19.c', '%s:env:%s' % (f.qualname, src(c)), '%s:%d' % (f.module.relpath, c.lineno),
                         '%s reads %s inside the printing pipeline' % (f.key, src(c)))
    # sort keys: comparable keys by their own order, the others by kind - never by identity (interpreted on pairs of constants)
    from .common import report_sortkey
    n += report_sortkey(repo, rep, 'C19.c', lambda label: label.startswith(('no-identity', 'total-fallback', 'defines-order')))
    rep.floor('C19.c', n, 4)

    # ---------------------------------------------------------------- C19.e the requests extra does not read a body nobody has read
    # (foreign fact, requests.models.Response: .content / .text / .json() / .apparent_encoding / .iter_content() / .iter_lines() read
    # the body from the network stream and mark the response consumed - printing an unread response would change it, and a later
    # .iter_content() of the caller gets nothing).  Each such access must be dominated by a test that the content was already consumed.
    CONSUMING = {'content', 'text', 'json', 'apparent_encoding', 'iter_content', 'iter_lines', 'raw'}
    try:
        rq = repo.module('extras.requests')
    except AnalysisError:
        rq = None
    ne = 0
    if rq is not None:
        def established(fn, node, depth=0):
            """the content is known to have been consumed where ``node`` of ``fn`` runs: by a dominating test there, or - for a
            helper that is only called by other functions of the module - at every one of its call sites"""
            g = Guards(fn.node)
            flags = {src(s.targets[0]) for s in ast.walk(fn.node) if isinstance(s, ast.Assign) and len(s.targets) == 1
                     and '_content_consumed' in src(s.value)}
            if any((ff.pol and (ff.text in flags or '_content_consumed' in ff.text)) or
                   ((not ff.pol) and ff.text.startswith('not ') and (ff.text[4:] in flags or '_content_consumed' in ff.text))
                   for ff in g.of(node)):
                return True
            if depth >= 3:
                return False
            sites = [(h, c) for h in rq.funcs.values() if h is not fn for c in ast.walk(h.node)
                     if isinstance(c, ast.Call) and call_name(c).split('.')[-1] == fn.name]
            # a function that is also handed around by name (registered as a printer) is entered without any call site here
            by_name = any(isinstance(n, ast.Name) and n.id == fn.name and isinstance(n.ctx, ast.Load) and
                          not any(isinstance(c, ast.Call) and c.func is n for c in ast.walk(rq.tree))
                          for n in ast.walk(rq.tree))
            return bool(sites) and not by_name and all(established(h, c, depth + 1) for h, c in sites)
        for f in rq.funcs.values():
            if not f.params or 'resp' not in f.params[0].lower():
                continue
            resp = f.params[0]
            for a in ast.walk(f.node):
                if isinstance(a, ast.Attribute) and isinstance(a.ctx, ast.Load) and src(a.value) == resp and a.attr in CONSUMING:
                    ne += 1
                    ok = established(f, a)
                    rep.check(ok, 'C19.e', '%s:reads-body:%s' % (f.qualname, a.attr), '%s:%d' % (rq.relpath, a.lineno),
                              'read only after the content was consumed by the caller',
                              '%s reads %s.%s on a path that has not established that the body was already read: for a streamed response this '
                              'pulls the body from the connection and marks it consumed - printing changes the object (and the caller\'s later '
                              'iter_content() is empty)' % (f.key, resp, a.attr), nontrivial=True)
    rep.floor('C19.e', ne, 2)

    # ---------------------------------------------------------------- C19.d
    n = SS.doc_object_stores(repo, rep, 'C19.d')
    rep.floor('C19.d', n, 6)
    rep.count(len(cone_sites))


def _rooted(expr, tainted):
    """expr is a tainted name or an attribute/subscript chain on one (not a call result)"""
    while isinstance(expr, (ast.Attribute, ast.Subscript)):
        expr = expr.value
    return isinstance(expr, ast.Name) and expr.id in tainted


def _derives(expr, tainted):
    """value expression is (part of) the user's object graph rather than a fresh copy"""
    if isinstance(expr, ast.Name):
        return expr.id in tainted
    if isinstance(expr, (ast.Attribute, ast.Subscript)):
        return _rooted(expr, tainted)
    if isinstance(expr, ast.Call):
        cn = call_name(expr).split('.')[-1]
        if cn in FRESH:
            # elements of a fresh container are still the user's objects
            return any(_derives(a, tainted) for a in expr.args) and cn in ('list', 'tuple', 'sorted', 'dict', 'set')
        if cn in TRANSPARENT or cn in ('items', 'keys', 'values', 'most_common', 'getattr'):
            if isinstance(expr.func, ast.Attribute) and _rooted(expr.func.value, tainted):
                return True
            return any(_derives(a, tainted) for a in expr.args)
        return False
    if isinstance(expr, (ast.Tuple, ast.List)):
        return any(_derives(e, tainted) for e in expr.elts)
    if isinstance(expr, ast.IfExp):
        return _derives(expr.body, tainted) or _derives(expr.orelse, tainted)
    if isinstance(expr, ast.Starred):
        return _derives(expr.value, tainted)
    return False


def _iter_source_of(fn, name):
    for s in ast.walk(fn):
        if isinstance(s, (ast.For, ast.comprehension)) and name in names_in(s.target):
            return s.iter
    return None


def _keys_of(it, mapping, fn, depth=0):
    """iterable expression yields keys of ``mapping``"""
    if depth > 5:
        return False
    t = src(it)
    if t in (mapping, mapping + '.keys()'):
        return True
    if isinstance(it, ast.Call):
        cn = call_name(it).split('.')[-1]
        if cn in ('sorted', 'take', 'islice', 'list', 'tuple', 'iter', 'reversed'):
            return any(_keys_of(a, mapping, fn, depth + 1) for a in it.args)
    if isinstance(it, ast.IfExp):
        return _keys_of(it.body, mapping, fn, depth + 1) and _keys_of(it.orelse, mapping, fn, depth + 1)
    if isinstance(it, ast.Name):
        defs = [s.value for s in ast.walk(fn) if isinstance(s, ast.Assign) and any(src(tg) == it.id for tg in s.targets)]
        return bool(defs) and all(_keys_of(d, mapping, fn, depth + 1) for d in defs)
    return False
