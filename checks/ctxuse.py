"""Helpers shared by C10 / C11 / C12: how printers derive and use the context."""
import ast

from engine.astutil import src, call_name, dotted, names_in

RECURSIVE_ENTRIES = {'pretty_python_value', 'pretty_dispatch', 'pretty_str'}
CALL_BUILDERS = {'pretty_call', 'pretty_call_alt'}


def single_defs(fn_node):
    """name -> list of value exprs assigned to it in this function (simple targets)"""
    out = {}
    for s in ast.walk(fn_node):
        if isinstance(s, ast.Assign) and len(s.targets) == 1 and isinstance(s.targets[0], ast.Name):
            out.setdefault(s.targets[0].id, []).append(s.value)
    return out


def ctx_chain(expr, defs, depth=0):
    """resolve a context expression to (base name, [method names applied])
    e.g. ``ctx.nested_call().use_multiline_strategy(X)`` -> ('ctx', ['nested_call',
    'use_multiline_strategy']); None if not of that shape"""
    methods = []
    cur = expr
    while True:
        if isinstance(cur, ast.Call) and isinstance(cur.func, ast.Attribute):
            methods.append(cur.func.attr)
            cur = cur.func.value
            continue
        if isinstance(cur, ast.Name):
            ds = defs.get(cur.id)
            if ds and depth < 4 and len(ds) == 1:
                inner = ctx_chain(ds[0], defs, depth + 1)
                if inner:
                    return inner[0], inner[1] + list(reversed(methods))
            return cur.id, list(reversed(methods))
        return None


def print_sites(fn_node):
    """calls that print a sub-value: (call, value_expr, ctx_expr, entry name)"""
    out = []
    for c in ast.walk(fn_node):
        if not isinstance(c, ast.Call):
            continue
        cn = call_name(c)
        if cn in RECURSIVE_ENTRIES:
            val = c.args[0] if c.args else None
            ctxe = c.args[1] if len(c.args) > 1 else None
            for k in c.keywords:
                if k.arg == 'ctx':
                    ctxe = k.value
                if k.arg in ('value', 's'):
                    val = k.value
            out.append((c, val, ctxe, cn))
    return out


def attr_reads(repo, attr, core_only=True):
    """every ``<expr>.<attr>`` load in the package: (FunctionInfo, node)"""
    out = []
    for f in repo.all_functions(core_only=core_only):
        for n in ast.walk(f.node):
            if isinstance(n, ast.Attribute) and n.attr == attr and isinstance(n.ctx, ast.Load):
                out.append((f, n))
    return out
