"""C18 -- all entry points and configuration layers agree (wiring rules on __init__.py)."""
import ast

from engine.astutil import src, call_name, Guards, compare_parts, names_in, dotted
from engine.loader import AnalysisError

META = {
    'text': 'Static wiring rules over prettyprinter/__init__.py: the three entry points pass the printed object '
            'first and all six settings, each under its own name, through the merge helper into python_to_sdocs; '
            'the name sets (merge parameters = keys of the default table = keywords passed = parameters of '
            'python_to_sdocs) agree; per key the merged value is the argument unless it is the sentinel; defaults '
            'are read at call time; pprint/cpprint write the rendering of the same sdocs to the chosen stream '
            'then the end string; set_default_config stores exactly the keys it is given, each under its own '
            'name and guard; nobody else writes the default table; the PrettyPrinter shim forwards its argument; '
            'pretty_repr returns pformat(instance). This property is almost entirely wiring, so the structural '
            'clauses cover it except for the behaviour of python_to_sdocs itself (other properties).',
    'note': 'trusts the ast parser; locals()-indexed merge idiom and the explicit per-key idiom are both recognised',
    'technique': 'static analysis: sibling agreement of call wiring, name-set agreement, guard facts, who-may-write',
}

SETTINGS_MIN = 6


def _sentinel_name(m):
    # the module-level object used as "argument not given"
    for name, vals in m.assigns.items():
        v = vals[-1]
        if isinstance(v, ast.Call) and call_name(v) in ('UnsetSentinel', 'object') and 'SENTINEL' in name.upper():
            return name
    raise AnalysisError('cannot identify the unset sentinel in prettyprinter/__init__.py')


def _is_sentinel_test(test, pol, var, sent):
    """does (test, pol) say ``var is not sentinel``?"""
    cp = compare_parts(test, pol)
    if not cp:
        return False
    l, op, r = cp
    pair = {src(l), src(r)}
    return pair == {var, sent} and op in ('is not', '!=')


def _merge_fn(repo, m):
    merge = m.funcs.get('_merge_defaults')
    if merge is None:
        for f in m.funcs.values():
            for c in ast.walk(f.node):
                if isinstance(c, ast.Call) and call_name(c) == 'python_to_sdocs':
                    for k in c.keywords:
                        if k.arg is None and isinstance(k.value, ast.Call):
                            r = m.funcs.get(call_name(k.value))
                            if r:
                                merge = r
    if merge is None:
        raise AnalysisError('merge helper vanished')
    return merge


def check_merge(repo, rep, rule):
    """sentinel merge: name sets agree, explicit argument (including an explicit None) wins over the
    default, defaults read at call time.  Shared with C10 (None must reach python_to_sdocs)."""
    m = repo.module('')
    sent = _sentinel_name(m)
    pts = repo.func('prettyprinter', 'python_to_sdocs')
    settings = pts.params[1:]
    merge = _merge_fn(repo, m)
    dc = m.assigns.get('_default_config')
    if not dc or not isinstance(dc[0], ast.Dict):
        raise AnalysisError('_default_config is no longer a dict literal')
    default_keys = [k.value for k in dc[0].keys if isinstance(k, ast.Constant)]
    # ---------------------------------------------------------------- C18.b name sets
    n = 0
    mparams = merge.params
    n += 1
    rep.check(set(mparams) == set(default_keys) == set(settings), rule, 'name-sets-agree', merge.where,
              'merge parameters = default keys = python_to_sdocs settings',
              'setting name sets differ: merge helper %s, _default_config %s, python_to_sdocs %s'
              % (sorted(mparams), sorted(default_keys), sorted(settings)), nontrivial=True)
    a = merge.node.args
    n += 1
    rep.check(not a.defaults and all(d is None for d in a.kw_defaults), rule, 'merge:no-captured-defaults',
              merge.where, 'merge helper has no definition-time defaults',
              'the merge helper declares default values (captured at definition time)')
    # body shape
    uses_locals = any(isinstance(c, ast.Call) and call_name(c) == 'locals' for c in ast.walk(merge.node))
    comp = [c for c in ast.walk(merge.node) if isinstance(c, ast.DictComp)]
    loads_default_at_call = any(isinstance(x, ast.Name) and x.id == '_default_config' for x in ast.walk(merge.node))
    n += 1
    rep.check(loads_default_at_call, rule, 'merge:defaults-read-at-call-time', merge.where,
              '_default_config loaded inside the function body',
              'the merge helper does not read _default_config when called: a later set_default_config is not seen',
              nontrivial=True)
    if comp and uses_locals:
        c = comp[0]
        gen = c.generators[0]
        ok_iter = src(gen.iter) == '_default_config.items()' and isinstance(gen.target, ast.Tuple) \
            and len(gen.target.elts) == 2
        n += 1
        rep.check(ok_iter, rule, 'merge:iterates-default-items', '%s:%d' % (m.relpath, c.lineno),
                  'every default key is merged', 'merge comprehension iterates %s' % src(gen.iter))
        if ok_iter:
            kvar, dvar = (e.id for e in gen.target.elts)
            lv = None
            for s in ast.walk(merge.node):
                if isinstance(s, ast.Assign) and isinstance(s.value, ast.Call) and call_name(s.value) == 'locals':
                    lv = s.targets[0].id
            arg = '%s[%s]' % (lv, kvar)
            v = c.value
            n += 1
            good = src(c.key) == kvar and isinstance(v, ast.IfExp)
            if good:
                if _is_sentinel_test(v.test, True, arg, sent):
                    good = src(v.body) == arg and src(v.orelse) == dvar
                elif _is_sentinel_test(v.test, False, arg, sent):
                    good = src(v.orelse) == arg and src(v.body) == dvar
                else:
                    good = False
            rep.check(good, rule, 'merge:explicit-overrides-default', '%s:%d' % (m.relpath, c.lineno),
                      'argument unless it is the sentinel, else the default',
                      'merged value is %s for key %s: an explicit argument must win unless it is the sentinel %s'
                      % (src(v), src(c.key), sent), nontrivial=True)
            # locals() taken before any other local is bound
            first = merge.node.body[0]
            if isinstance(first, ast.Expr) and isinstance(first.value, ast.Constant):
                first = merge.node.body[1]
            n += 1
            rep.check(isinstance(first, ast.Assign) and isinstance(first.value, ast.Call)
                      and call_name(first.value) == 'locals', rule, 'merge:locals-first', merge.where,
                      'locals() captured first', 'locals() is not captured before other locals are bound')
    else:
        # explicit per-key idiom: x if x is not S else D['x']
        for key in default_keys:
            n += 1
            found = False
            for e in ast.walk(merge.node):
                if isinstance(e, ast.IfExp):
                    for pol, mine, other in ((True, e.body, e.orelse), (False, e.orelse, e.body)):
                        if _is_sentinel_test(e.test, pol, key, sent) and src(mine) == key \
                                and src(other) in ("_default_config['%s']" % key, '_default_config["%s"]' % key):
                            found = True
            rep.check(found, rule, 'merge:explicit-overrides-default:%s' % key, merge.where,
                      'argument unless sentinel else default',
                      'no "%s if %s is not %s else _default_config[%r]" found for setting %s' % (key, key, sent, key, key),
                      nontrivial=True)
    return n



def run(repo, rep):
    rep.explanation = ('R-SIB / R-GUARD / R-WHO wiring rules over __init__.py: C18.a sibling entry points, C18.b '
                       'sentinel merge with name-set agreement and call-time defaults, C18.c exact '
                       'set_default_config, C18.d PrettyPrinter forwards its argument, C18.e pretty_repr.')
    rep.not_decided = 'the behaviour of python_to_sdocs itself (decided under other properties).'
    rep.assumptions = ['ast parser', 'dict comprehension / locals() semantics of CPython']
    m = repo.module('')
    sent = _sentinel_name(m)
    pts = repo.func('prettyprinter', 'python_to_sdocs')
    settings = pts.params[1:]
    rep.analysed['settings'] = settings
    if len(settings) < SETTINGS_MIN:
        raise AnalysisError('python_to_sdocs takes %s: fewer settings than the property names' % settings)
    merge = m.funcs.get('_merge_defaults')
    if merge is None:
        # role-based fallback: the function whose result is splatted into python_to_sdocs
        for f in m.funcs.values():
            for c in ast.walk(f.node):
                if isinstance(c, ast.Call) and call_name(c) == 'python_to_sdocs':
                    for k in c.keywords:
                        if k.arg is None and isinstance(k.value, ast.Call):
                            r = m.funcs.get(call_name(k.value))
                            if r:
                                merge = r
    if merge is None:
        raise AnalysisError('merge helper vanished')
    dc = m.assigns.get('_default_config')
    if not dc or not isinstance(dc[0], ast.Dict):
        raise AnalysisError('_default_config is no longer a dict literal')
    default_keys = [k.value for k in dc[0].keys if isinstance(k, ast.Constant)]

    rep.floor('C18.b', check_merge(repo, rep, 'C18.b'), 5)

    # ---------------------------------------------------------------- C18.a entry points
    n = 0
    renderers = {'pformat': 'default_render_to_stream', 'pprint': 'default_render_to_stream',
                 'cpprint': 'colored_render_to_stream'}
    for ename, rname in renderers.items():
        f = m.funcs.get(ename)
        if f is None:
            raise AnalysisError('entry point %s vanished' % ename)
        obj = f.params[0]
        # defaults of settings are the sentinel
        a = f.node.args
        pos = a.posonlyargs + a.args
        defaults = dict(zip([x.arg for x in pos[len(pos) - len(a.defaults):]], a.defaults))
        defaults.update({k.arg: d for k, d in zip(a.kwonlyargs, a.kw_defaults) if d is not None})
        for s_ in settings:
            n += 1
            rep.check(s_ in defaults and src(defaults[s_]) == sent, 'C18.a', '%s:default-is-sentinel:%s' % (ename, s_),
                      f.where, 'setting defaults to the sentinel',
                      '%s(%s=...) defaults to %s instead of the sentinel: the configured default is bypassed'
                      % (ename, s_, src(defaults[s_]) if s_ in defaults else 'nothing (parameter missing)'))
        calls = [c for c in ast.walk(f.node) if isinstance(c, ast.Call) and call_name(c) == 'python_to_sdocs']
        n += 1
        if len(calls) != 1:
            rep.fail('C18.a', '%s:calls-pipeline' % ename, f.where, '%s calls python_to_sdocs %d times' % (ename, len(calls)))
            continue
        c = calls[0]
        rep.check(c.args and src(c.args[0]) == obj, 'C18.a', '%s:object-first' % ename, '%s:%d' % (m.relpath, c.lineno),
                  'the printed object is the first argument',
                  '%s passes %s as the value to print' % (ename, src(c.args[0]) if c.args else 'nothing'), nontrivial=True)
        splat = [k.value for k in c.keywords if k.arg is None]
        direct = {k.arg: k.value for k in c.keywords if k.arg}
        passed = {}
        if splat and isinstance(splat[0], ast.Call) and call_name(splat[0]) == merge.name:
            for k in splat[0].keywords:
                if k.arg:
                    passed[k.arg] = k.value
        for s_ in settings:
            n += 1
            v = passed.get(s_, direct.get(s_))
            rep.check(v is not None and src(v) == s_, 'C18.a', '%s:forwards:%s' % (ename, s_), '%s:%d' % (m.relpath, c.lineno),
                      'setting forwarded under its own name',
                      '%s forwards %s=%s (each setting must be passed under its own name)'
                      % (ename, s_, src(v) if v is not None else '<missing>'), nontrivial=True)
        # result variable rendered
        sd = None
        for s in ast.walk(f.node):
            if isinstance(s, ast.Assign) and s.value is c and isinstance(s.targets[0], ast.Name):
                sd = s.targets[0].id
        rc = [x for x in ast.walk(f.node) if isinstance(x, ast.Call) and call_name(x) == rname]
        n += 1
        ok = len(rc) == 1 and len(rc[0].args) >= 2 and src(rc[0].args[1]) == sd
        rep.check(ok, 'C18.a', '%s:renders-same-sdocs' % ename, f.where, 'renders the sdocs it computed with %s' % rname,
                  '%s does not render its own sdocs through %s exactly once' % (ename, rname), nontrivial=True)
        if not ok:
            continue
        stream_arg = src(rc[0].args[0])
        if ename == 'pformat':
            rets = [r for r in ast.walk(f.node) if isinstance(r, ast.Return) and r.value is not None]
            n += 1
            rep.check(len(rets) == 1 and src(rets[0].value) == '%s.getvalue()' % stream_arg, 'C18.a',
                      'pformat:returns-stream-value', f.where, 'returns exactly what was rendered',
                      'pformat returns %s' % [src(r.value) for r in rets], nontrivial=True)
            kw = {k.arg for k in rc[0].keywords}
            rep.check(len(rc[0].args) == 2 and not kw, 'C18.a', 'pformat:default-newline', f.where,
                      'default newline/separator', 'pformat passes extra rendering arguments %s' % sorted(kw))
        else:
            # stream = sys.stdout if stream is sentinel else stream   (read at call time)
            g = Guards(f.node)
            sparam = 'stream'
            assigns = [s for s in ast.walk(f.node) if isinstance(s, ast.Assign)
                       and isinstance(s.targets[0], ast.Name) and s.targets[0].id == stream_arg and s.value is not c]
            n += 1
            good = False
            for s in assigns:
                v = s.value
                if isinstance(v, ast.IfExp):
                    cp = compare_parts(v.test)
                    if cp and {src(cp[0]), src(cp[2])} == {sparam, sent}:
                        pos_is = cp[1] in ('is', '==')
                        std, oth = (v.body, v.orelse) if pos_is else (v.orelse, v.body)
                        good = src(std) == 'sys.stdout' and src(oth) == sparam
            rep.check(good, 'C18.a', '%s:stream-choice' % ename, f.where,
                      'given stream, else sys.stdout read at call time',
                      '%s does not select "sys.stdout if stream is %s else stream"' % (ename, sent), nontrivial=True)
            # end written after rendering, when truthy
            ws = [x for x in ast.walk(f.node) if isinstance(x, ast.Call) and call_name(x) == stream_arg + '.write']
            n += 1
            ok = len(ws) == 1 and src(ws[0].args[0]) == 'end' and ws[0].lineno > rc[0].lineno \
                and any(ff.pol and ff.text == 'end' for ff in g.of(ws[0]))
            rep.check(ok, 'C18.a', '%s:writes-end' % ename, f.where, 'end string written after the text',
                      '%s does not write exactly the end string after rendering' % ename, nontrivial=True)
            if ename == 'cpprint':
                kws = {k.arg: src(k.value) for k in rc[0].keywords}
                rep.check(kws.get('style', src(rc[0].args[2]) if len(rc[0].args) > 2 else None) == 'style', 'C18.a',
                          'cpprint:style-forwarded', f.where, 'style forwarded', 'cpprint passes style=%s' % kws.get('style'))
    rep.floor('C18.a', n, 45)

    # ---------------------------------------------------------------- C18.c set_default_config
    n = 0
    sdc = m.funcs.get('set_default_config')
    gdc = m.funcs.get('get_default_config')
    if sdc is None or gdc is None:
        raise AnalysisError('set_default_config / get_default_config vanished')
    g = Guards(sdc.node)
    declared_global = any(isinstance(s, ast.Global) and '_default_config' in s.names for s in ast.walk(sdc.node))
    # the working dict: a copy of the current defaults, or the global itself
    work = None
    for s in ast.walk(sdc.node):
        if isinstance(s, ast.Assign) and isinstance(s.targets[0], ast.Name) and \
                src(s.value).replace(' ', '') in ('{**_default_config}', 'dict(_default_config)', '_default_config.copy()'):
            work = s.targets[0].id
    target = work or '_default_config'
    stores = [s for s in ast.walk(sdc.node) if isinstance(s, ast.Assign) and isinstance(s.targets[0], ast.Subscript)
              and src(s.targets[0].value) == target]
    by_key = {}
    for s in stores:
        k = s.targets[0].slice
        by_key.setdefault(k.value if isinstance(k, ast.Constant) else src(k), []).append(s)
    for p in sdc.params:
        if p == 'style':
            continue
        n += 1
        ss = by_key.pop(p, [])
        ok = len(ss) == 1 and src(ss[0].value) == p and \
            any(_is_sentinel_test(ff.test, ff.pol, p, sent) for ff in g.of(ss[0]))
        rep.check(ok, 'C18.c', 'set_default_config:stores:%s' % p, sdc.where,
                  'one store to its own key under "is not sentinel"',
                  "set_default_config must store %s under key '%s' exactly once, only when it was given; found %s"
                  % (p, p, [(src(s.targets[0]), src(s.value), g.texts(s)) for s in ss] or 'no store'), nontrivial=True)
        rep.check(p in default_keys, 'C18.c', 'set_default_config:param-is-setting:%s' % p, sdc.where,
                  'parameter names a setting', 'set_default_config takes %s which is not a key of _default_config' % p)
    for k, ss in by_key.items():
        n += 1
        rep.fail('C18.c', 'set_default_config:extra-store:%s' % k, '%s:%d' % (m.relpath, ss[0].lineno),
                 'set_default_config writes key %r which is not one of its parameters' % (k,))
    n += 1
    if work:
        rebinds = [s for s in ast.walk(sdc.node) if isinstance(s, ast.Assign) and src(s.targets[0]) == '_default_config']
        rep.check(declared_global and len(rebinds) == 1 and src(rebinds[0].value) == work, 'C18.c',
                  'set_default_config:rebinds-global', sdc.where, 'new table installed as the module default',
                  'set_default_config does not rebind the module-level _default_config to the updated copy', nontrivial=True)
    else:
        rep.check(bool(stores), 'C18.c', 'set_default_config:mutates-global', sdc.where, 'table updated in place',
                  'set_default_config neither rebinds nor updates _default_config')
    # style is routed to set_default_style only when given
    for c in ast.walk(sdc.node):
        if isinstance(c, ast.Call) and call_name(c) == 'set_default_style':
            n += 1
            rep.check(any(_is_sentinel_test(ff.test, ff.pol, 'style', sent) for ff in g.of(c)) and src(c.args[0]) == 'style',
                      'C18.c', 'set_default_config:style-guarded', '%s:%d' % (m.relpath, c.lineno), 'style only when given',
                      'set_default_style is called without the "style is not sentinel" guard')
    # who writes _default_config
    for f in m.funcs.values():
        if f is sdc:
            continue
        for s in ast.walk(f.node):
            tgt = None
            if isinstance(s, (ast.Assign, ast.AugAssign)):
                for t in (s.targets if isinstance(s, ast.Assign) else [s.target]):
                    if '_default_config' in src(t).split('[')[0].split('.')[0:1]:
                        tgt = t
            if isinstance(s, ast.Call) and dotted(s.func) and dotted(s.func).startswith('_default_config.') \
                    and s.func.attr in ('update', 'pop', 'clear', 'setdefault', 'popitem', '__setitem__'):
                tgt = s
            if isinstance(s, ast.Delete) and any('_default_config' in src(t) for t in s.targets):
                tgt = s
            if tgt is not None:
                n += 1
                rep.fail('C18.c', '%s:writes-default-config' % f.qualname, '%s:%d' % (m.relpath, s.lineno),
                         '%s writes the default configuration; only set_default_config may' % f.qualname)
    rets = [r for r in ast.walk(gdc.node) if isinstance(r, ast.Return)]
    n += 1
    rep.check(len(rets) == 1 and src(rets[0].value) in ('MappingProxyType(_default_config)',
                                                         'types.MappingProxyType(_default_config)'),
              'C18.c', 'get_default_config:read-only-view-of-current', gdc.where, 'read-only view of the current table',
              'get_default_config returns %s' % [src(r.value) for r in rets], nontrivial=True)
    rep.floor('C18.c', n, 8)

    # ---------------------------------------------------------------- C18.d PrettyPrinter
    n = 0
    pp = m.classes.get('PrettyPrinter')
    if pp is None:
        raise AnalysisError('PrettyPrinter vanished')
    init = pp.methods.get('__init__')
    for meth, target in (('pformat', 'pformat'), ('pprint', 'pprint')):
        f = pp.methods.get(meth)
        n += 1
        if f is None:
            rep.fail('C18.d', 'PrettyPrinter.%s:exists' % meth, pp.where, 'method vanished')
            continue
        obj = f.params[1] if len(f.params) > 1 else None
        calls = [c for c in ast.walk(f.node) if isinstance(c, ast.Call) and call_name(c) == target]
        ok = False
        detail = 'no call of %s' % target
        for c in calls:
            first = src(c.args[0]) if c.args else None
            star = [src(a.value) for a in c.args if isinstance(a, ast.Starred)]
            dstar = [src(k.value) for k in c.keywords if k.arg is None]
            ok = first == obj and 'self._args' in star and 'self._kwargs' in dstar
            detail = '%s(%s)' % (target, ', '.join([src(a) for a in c.args] + ['**' + d for d in dstar]))
        rep.check(ok, 'C18.d', 'PrettyPrinter.%s:forwards-object' % meth, f.where,
                  'object first, then the stored settings',
                  'PrettyPrinter.%s(object) calls %s: the object to print is not passed'
                  ' (TypeError: missing 1 required positional argument)' % (meth, detail), nontrivial=True)
        if meth == 'pformat':
            rets = [r for r in ast.walk(f.node) if isinstance(r, ast.Return) and r.value is not None]
            n += 1
            rep.check(len(rets) == 1 and isinstance(rets[0].value, ast.Call) and call_name(rets[0].value) == target,
                      'C18.d', 'PrettyPrinter.pformat:returns-text', f.where, 'returns the text', 'pformat method does not return the text')
    if init is not None:
        n += 1
        st = {src(s.targets[0]): src(s.value) for s in ast.walk(init.node) if isinstance(s, ast.Assign)}
        rep.check(st.get('self._args') == 'args' and st.get('self._kwargs') == 'kwargs', 'C18.d',
                  'PrettyPrinter.__init__:stores-settings', init.where, 'settings stored', 'constructor stores %s' % st)
    rep.floor('C18.d', n, 3)

    # ---------------------------------------------------------------- C18.e pretty_repr
    pr = m.funcs.get('pretty_repr')
    if pr is None:
        raise AnalysisError('pretty_repr vanished')
    inst = pr.params[0]
    g = Guards(pr.node)
    rets = [r for r in ast.walk(pr.node) if isinstance(r, ast.Return) and r.value is not None]
    good = [r for r in rets if src(r.value) == 'pformat(%s)' % inst]
    rep.check(len(good) == 1, 'C18.e', 'pretty_repr:returns-pformat', pr.where, 'registered types return pformat(instance)',
              'pretty_repr returns %s' % [src(r.value) for r in rets], nontrivial=True)
    for r in rets:
        if r in good:
            continue
        fs = g.of(r)
        rep.check(any((not ff.pol) and 'is_registered(' in ff.text for ff in fs), 'C18.e', 'pretty_repr:fallback-only-unregistered',
                  '%s:%d' % (m.relpath, r.lineno), 'fallback only when unregistered',
                  'pretty_repr returns %s without the "not registered" guard' % src(r.value))
    for r in good:
        fs = g.of(r)
        rep.check(any(ff.pol and 'is_registered(' in ff.text for ff in fs), 'C18.e', 'pretty_repr:pformat-when-registered',
                  '%s:%d' % (m.relpath, r.lineno), 'pformat used when registered', 'pformat branch not guarded by registration')
    rep.count(len(settings) * 3)
