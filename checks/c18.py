"""C18 -- all entry points and configuration layers agree.

The wiring of __init__.py is checked *semantically*: the entry points, the merge helper, set_default_config,
get_default_config, the PrettyPrinter shim and pretty_repr are interpreted abstractly (E6) with the pipeline
(python_to_sdocs, the two renderers) as recording primitives.  For every scenario - each setting either given or
omitted - the recorded calls must show: the printed object first, every setting equal to the given argument or
else to the *current* default table, the rendering of the same sdocs to the chosen stream, then the end string.
How the source spells this (helper functions, locals() idiom, loops over key tuples, keyword vs positional) does
not matter."""
import ast

from engine.astutil import src, call_name, dotted
from engine.interp import (Const, Sym, SymStr, ListV, TupleV, DictV, ObjV, TypeV, ValueV, FuncV, Prim, NONE, Undecided, Raised, PathLimit, prov)
from engine.loader import AnalysisError
from . import shape as S

META = {
    'text': 'Abstract interpretation of prettyprinter/__init__.py with the pipeline as recording primitives: for pformat, pprint and '
            'cpprint, and for each setting given or omitted, python_to_sdocs receives the printed object first and every setting '
            'equal to the explicit argument or else to the current default table (also after set_default_config, i.e. defaults '
            'are read at call time); pformat returns exactly what the plain renderer wrote; pprint/cpprint render the same sdocs '
            'to the given stream (sys.stdout read at call time otherwise) and then write the end string; set_default_config '
            'changes exactly the keys it is given and get_default_config reports the current table; the PrettyPrinter shim '
            'forwards its argument and stored settings; pretty_repr returns pformat(instance) for registered types. Nobody else '
            'writes the default table (who-may-write). This property is almost entirely wiring, so these clauses cover it except '
            'for the behaviour of python_to_sdocs itself (other properties).',
    'note': 'the interpreter implements the Python subset used by __init__.py (locals(), dict comprehensions, ** calls, global '
            'rebinding); anything else ends in ANALYSIS-ERROR',
    'technique': 'static analysis: abstract interpretation of the entry points with recording primitives over given/omitted '
                 'scenarios; who-may-write inventory',
}
META['text'] += ' pretty_repr reaches the pipeline with the same settings as pformat under changed defaults.'
META['text'] += " Round 5: (a) pformat text == pprint text == the text the stream denotes, on streams longer than every size constant of the entry module and the renderer; an entry point that walks the stream itself is judged by what it writes; (d) PrettyPrinter(s=v).pformat reaches the pipeline with the settings of pformat(s=v), also for v past the module's size constants."
META['text'] += ' (c) a history of set_default_config calls two longer than every size constant of the module: after each call the table holds every setting given so far and the built-in default for the rest (collections.ChainMap is modelled).'

SETTINGS_MIN = 6


def _stream_text(scale):
    count, per_line, off = scale
    lines = [['p '] * off]
    k = off
    while k < count:
        lines.append(['%s ' % chr(97 + i) for i in range(per_line - 2)] + ['z'])
        k += per_line
    lines[-1].append(' end  ')
    out = []
    for i, ln in enumerate(lines):
        if i:
            out.append('\n  ')
        out.append(''.join(ln).rstrip(' ') if ln else '')
    return ''.join(out)


def _sentinel_name(m):
    for name, vals in m.assigns.items():
        v = vals[-1]
        if isinstance(v, ast.Call) and call_name(v) in ('UnsetSentinel', 'object') and 'SENTINEL' in name.upper():
            return name
    raise AnalysisError('cannot identify the unset sentinel in prettyprinter/__init__.py')


class Recorder:
    def __init__(self, repo, concrete_render=False, scale=None):
        self.repo = repo
        self.log = []
        self.concrete_render = concrete_render
        self.scale = scale      # (items, items per line, offset): a long concrete sdoc stream
        self.streams = {}
        prims = {
            'python_to_sdocs': self.p_pipeline,
            'default_render_to_stream': self.p_render_plain,
            'colored_render_to_stream': self.p_render_color,
            'StringIO': self.p_stringio,
            'set_default_style': self.p_set_style,
            'is_registered': self.p_is_registered,
            'warnings.warn': self.p_warn,
            'object.__repr__': self.p_object_repr,
            'method:write': self.m_write,
            'method:getvalue': self.m_getvalue,
        }
        if concrete_render:
            # the plain renderer is interpreted for real on a small concrete sdoc sequence
            del prims['default_render_to_stream']
        self.it = S.interp(repo, 'builder', prims, max_paths=4000)
        self.it.concrete_context = True
        self.it.concrete_classes = {'UnsetSentinel', 'PrettyPrinter', 'SLine', 'SAnnotationPush', 'SAnnotationPop'}
        self.it.eager_generators = {f_.name for mod_ in ('render', 'utils') for f_ in repo.module(mod_).funcs.values()}
        self.n_stringio = 0
        # module-level assignments happen at import time, i.e. before anything the scenarios do
        m = repo.module('')
        for name in m.assigns:
            try:
                self.it.global_name(m, name)
            except (AnalysisError, Raised):
                pass

    def p_pipeline(self, it, a, k, n):
        self.log.append(('pipeline', list(a), dict(k)))
        if self.concrete_render:
            mk = lambda cls, *args: it.construct(TypeV(cls), list(args), {}, None)
            ann = Const('<annotation>')
            if self.scale:
                # lines of per_line - 1 texts, all but the last of a line ending in a blank: wherever a consumer cuts the stream, some
                # scale puts the cut between a text that ends in a blank and the next text of its line
                count, per_line, off = self.scale
                items = [Const('p ')] * off
                while len(items) < count:
                    items.append(mk('SLine', Const(2)))
                    items.extend(Const('%s ' % chr(97 + i)) for i in range(per_line - 2))
                    items.append(Const('z'))
                items.append(Const(' end  '))
                self.it.max_while = max(getattr(self.it, 'max_while', 64), 40 * len(items))
                return ListV(items)
            return ListV([Const('ab'), Const(' '), mk('SLine', Const(2)), Const('c '), mk('SAnnotationPush', ann), Const('d'),
                          mk('SAnnotationPop', ann), Const('  '), mk('SLine', Const(4)), mk('SLine', Const(0)), Const('e')])
        # a short stream under its own name: an entry point may hand it to the renderer as it is (recorded) or walk it itself
        mk = lambda cls, *args: it.construct(TypeV(cls), list(args), {}, None)
        from engine.interp import NamedListV
        return NamedListV('SDOCS#%d' % len(self.log), [Const('ab'), Const(' '), mk('SLine', Const(2)), Const('c ')], lazy=True)

    def p_render_plain(self, it, a, k, n):
        self.log.append(('render-plain', list(a), dict(k)))
        return NONE

    def p_render_color(self, it, a, k, n):
        self.log.append(('render-color', list(a), dict(k)))
        return NONE

    def p_stringio(self, it, a, k, n):
        self.n_stringio += 1
        return Sym('StringIO#%d' % self.n_stringio)

    def p_set_style(self, it, a, k, n):
        self.log.append(('set-style', list(a), dict(k)))
        return NONE

    def p_is_registered(self, it, a, k, n):
        self.log.append(('is_registered', list(a), dict(k)))
        return Const(it.decide('registered(%s)' % prov(a[0])))

    def p_warn(self, it, a, k, n):
        self.log.append(('warn', list(a), dict(k)))
        return NONE

    def p_object_repr(self, it, a, k, n):
        return Sym('object.__repr__(%s)' % ','.join(prov(x) for x in a))

    def m_write(self, it, obj, a, k, n):
        self.log.append(('write', obj, list(a)))
        self.streams.setdefault(prov(obj), []).append(a[0] if a else NONE)
        return NONE

    def m_getvalue(self, it, obj, a, k, n):
        parts = self.streams.get(prov(obj), [])
        if self.concrete_render and all(isinstance(x, Const) and isinstance(x.v, str) for x in parts):
            return Const(''.join(x.v for x in parts))
        return Sym('%s.getvalue()' % prov(obj))


def run(repo, rep):
    rep.explanation = ('C18.a entry points (object first, every setting given-or-default, same sdocs rendered, end written), C18.b merge '
                       '(explicit argument wins unless it is the sentinel; defaults read at call time; name sets agree), C18.c exact '
                       'set_default_config / get_default_config, C18.d PrettyPrinter forwards, C18.e pretty_repr; R-WHO on the default table.')
    rep.not_decided = 'the behaviour of python_to_sdocs itself (decided under other properties).'
    rep.assumptions = ['CPython semantics of locals(), dict comprehensions, ** calls']
    m = repo.module('')
    sent = _sentinel_name(m)
    pts = repo.func('prettyprinter', 'python_to_sdocs')
    settings = pts.params[1:]
    rep.analysed['settings'] = settings
    if len(settings) < SETTINGS_MIN:
        raise AnalysisError('python_to_sdocs takes %s: fewer settings than the property names' % settings)
    DC = __import__('engine.roles', fromlist=['x']).name(repo, 'default_config')
    dc = m.assigns.get(DC)
    if dc and isinstance(dc[0], ast.Call) and len(dc[0].args) == 1 and isinstance(dc[0].args[0], ast.Dict) and not dc[0].keywords:
        dc = [dc[0].args[0]] + list(dc[1:])         # a dict literal handed to a mapping constructor (dict(...), ChainMap(...))
    if not dc or not isinstance(dc[0], ast.Dict):
        raise AnalysisError('_default_config is no longer a dict literal')
    default_keys = [k.value for k in dc[0].keys if isinstance(k, ast.Constant)]
    n = 0
    rep.check(set(default_keys) == set(settings), 'C18.b', 'name-sets-agree', m.relpath, 'default keys = python_to_sdocs settings',
              'setting name sets differ: _default_config %s, python_to_sdocs %s' % (sorted(default_keys), sorted(settings)), nontrivial=True)
    n += 1

    # explicit arguments are distinct integers, once below and once above every built-in default (so that clamping one
    # setting by another - or by a default - shows)
    scale = {'base': 10}

    def given(name):
        return Const(scale['base'] + 1 + sorted(set(settings) | {'stream', 'style'}).index(name))

    def scenarios():
        yield 'all-omitted', set()
        yield 'all-given', set(settings)
        for s_ in settings:
            yield 'only-' + s_, {s_}
            yield 'all-but-' + s_, set(settings) - {s_}

    def default_table(rec):
        t = rec.it.global_name(m, DC)
        return t if isinstance(t, DictV) else None

    def check_pipeline(rec, ename, label, gv, where, table, rule='C18.a'):
        nonlocal n
        calls = [e for e in rec.log if e[0] == 'pipeline']
        n += 1
        if len(calls) != 1:
            rep.fail(rule, '%s:calls-pipeline[%s]' % (ename, label), where, '%s calls python_to_sdocs %d times' % (ename, len(calls)))
            return None
        _, a, k = calls[0]
        bound = dict(zip(pts.params, a))
        bound.update(k)
        rep.check(prov(bound.get(pts.params[0])) == 'OBJ', rule, '%s:object-first' % ename, where, 'the printed object is the first argument',
                  '%s passes %s as the value to print' % (ename, prov(bound.get(pts.params[0])) if pts.params[0] in bound else 'nothing'), nontrivial=True)
        for s_ in settings:
            v = bound.get(s_)
            if s_ in gv:
                want = given(s_)
                ok = isinstance(v, Const) and v.v == want.v and type(v.v) is type(want.v)
                why = 'the explicit argument'
            else:
                d = table.get(Const(s_)) if table is not None else None
                ok = v is not None and d is not None and (v is d or (isinstance(v, Const) and isinstance(d, Const) and v.v == d.v and type(v.v) is type(d.v)))
                want = d
                why = 'the current default'
            cname = '%s:forwards:%s' % (ename, s_) if rule == 'C18.a' else '%s:%s[%s]' % (ename, s_, label)
            rep.check(ok, rule if s_ in gv or rule != 'C18.a' else 'C18.a', cname, where,
                      'setting reaches the pipeline as %s' % why,
                      'in scenario %s, %s hands python_to_sdocs %s=%s; expected %s (%s): an explicit argument must override the default, '
                      'an omitted one must take the configured default' % (label, ename, s_, prov(v) if v is not None else '<missing>',
                                                                          prov(want) if want is not None else '?', why), nontrivial=True)
            n += 1
        return calls[0]

    # ---------------------------------------------------------------- C18.a / C18.b entry points
    for ename in ('pformat', 'pprint', 'cpprint'):
        f = m.funcs.get(ename)
        if f is None:
            raise AnalysisError('entry point %s vanished' % ename)
        for base_, (label, gv) in [(b_, sc_) for b_ in (10, 100000) for sc_ in scenarios()]:
            scale['base'] = base_
            label = '%s@%d' % (label, base_)
            rec = Recorder(repo)
            kw = {s_: given(s_) for s_ in gv}
            stream = None
            if ename != 'pformat':
                stream = Const('<STREAM>')
                kw['stream'] = stream
            if ename == 'cpprint':
                kw['style'] = Const('<STYLE>')
            try:
                prs = rec.it.explore(f, [Sym('OBJ')], kw)
            except (Undecided,) as e:
                rep.undecided('C18.a', '%s[%s]' % (ename, label), f.where, str(e))
                n += 1
                continue
            rep.count(len(prs))
            if len(prs) != 1 or prs[0].raised is not None:
                n += 1
                rep.fail('C18.a', '%s:single-path[%s]' % (ename, label), f.where,
                         '%s has %d paths / raises %s in scenario %s' % (ename, len(prs), prs[0].raised.what if prs and prs[0].raised else '', label))
                continue
            table = default_table(rec)
            call = check_pipeline(rec, ename, label, gv, f.where, table)
            if call is None:
                continue
            sd = None
            # the value returned by the recording pipeline primitive
            idx = rec.log.index(call)
            sd = 'SDOCS#%d' % (idx + 1)
            kind = 'render-plain' if ename != 'cpprint' else 'render-color'
            rend = [e for e in rec.log if e[0] in ('render-plain', 'render-color')]
            n += 1
            okr = len(rend) == 1 and rend[0][0] == kind and len(rend[0][1]) >= 2 and prov(rend[0][1][1]) == sd
            # the other shape: the entry point walks the stream itself and writes line by line - what it wrote is the text of the
            # stream (texts in order, line break + indentation, the last text of a line without its trailing blanks)
            text_writes = [e for e in rec.log if e[0] == 'write']
            lazy_shape = False
            if not rend and kind == 'render-plain' and text_writes:
                tgt = text_writes[0][1]
                pieces = [e[2][0] for e in text_writes if e[1] is tgt and e[2]]
                body = pieces[:-1] if (ename != 'pformat' and pieces and isinstance(pieces[-1], Const) and pieces[-1].v == '\n') else pieces
                if all(isinstance(x, Const) and isinstance(x.v, str) for x in body) and ''.join(x.v for x in body) == 'ab\n  c' \
                        and all(e[1] is tgt for e in text_writes):
                    lazy_shape = okr = True
            rep.check(okr, 'C18.a', '%s:renders-same-sdocs' % ename, f.where, 'renders the sdocs it computed with the %s renderer' % ('plain' if kind == 'render-plain' else 'coloured'),
                      '%s renders %s (expected exactly one %s of %s)' % (ename, [(e[0], [prov(x) for x in e[1]]) for e in rend], kind, sd), nontrivial=True)
            if not okr:
                continue
            rstream = rend[0][1][0] if rend else text_writes[0][1]
            writes = [e for e in rec.log if e[0] == 'write']
            if lazy_shape:
                # the text was written by the entry point itself: what remains to be judged is the end string
                writes = writes[-1:] if ename != 'pformat' else []
                rend = [text_writes[0]]
            if ename == 'pformat':
                n += 1
                dflt = {'newline': '\n', 'separator': ' '}
                extra = dict(zip(['newline', 'separator'], rend[0][1][2:])) if not lazy_shape else {}
                if not lazy_shape:
                    extra.update(rend[0][2])
                extra_ok = all(k_ in dflt and isinstance(v_, Const) and v_.v == dflt[k_] for k_, v_ in extra.items())
                rep.check(prov(rstream).startswith('StringIO#') and prov(prs[0].value) == prov(rstream) + '.getvalue()' and not writes
                          and extra_ok, 'C18.a', 'pformat:returns-stream-value', f.where,
                          'returns exactly what the plain renderer wrote into a fresh StringIO',
                          'pformat renders into %s and returns %s' % (prov(rstream), prov(prs[0].value)), nontrivial=True)
            else:
                n += 1
                rep.check(rstream is stream, 'C18.a', '%s:stream-choice' % ename, f.where, 'renders to the given stream',
                          '%s renders to %s although stream=STREAM was given' % (ename, prov(rstream)), nontrivial=True)
                n += 1
                pos = {id(e): i for i, e in enumerate(rec.log)}
                okw = len(writes) == 1 and writes[0][1] is stream and [prov(x) for x in writes[0][2]] == [repr('\n')] and pos[id(writes[0])] > pos[id(rend[0])]
                rep.check(okw, 'C18.a', '%s:writes-end' % ename, f.where, 'end string written to the same stream after the text',
                          '%s writes %s' % (ename, [(prov(e[1]), [prov(x) for x in e[2]]) for e in writes]), nontrivial=True)
                if ename == 'cpprint':
                    n += 1
                    st = rend[0][2].get('style', rend[0][1][2] if len(rend[0][1]) > 2 else None)
                    rep.check(st is not None and prov(st) == repr('<STYLE>'), 'C18.a', 'cpprint:style-forwarded', f.where, 'style forwarded',
                              'cpprint passes style=%s' % (prov(st) if st is not None else None))
        # stream omitted -> sys.stdout read at call time ; end='' -> nothing written
        if ename != 'pformat':
            rec = Recorder(repo)
            try:
                prs = rec.it.explore(f, [Sym('OBJ')], {'end': Const('')})
                rend = [e for e in rec.log if e[0] in ('render-plain', 'render-color')]
                n += 1
                rep.check(len(rend) == 1 and prov(rend[0][1][0]) == 'sys.stdout', 'C18.a', '%s:stdout-at-call-time' % ename, f.where,
                          'stream defaults to sys.stdout, read when called',
                          'without a stream argument %s renders to %s' % (ename, [prov(e[1][0]) for e in rend]), nontrivial=True)
                n += 1
                rep.check(not [e for e in rec.log if e[0] == 'write'], 'C18.a', '%s:empty-end-not-written' % ename, f.where, 'nothing written for a falsy end',
                          '%s writes an end string although end is empty' % ename)
            except Undecided as e:
                rep.undecided('C18.a', '%s[no-stream]' % ename, f.where, str(e))
    # the text: pformat's return value is exactly what pprint writes before the end string (the plain renderer interpreted on a
    # small concrete sdoc sequence with trailing blanks, an indentation-only line and an annotation)
    try:
        r1 = Recorder(repo, concrete_render=True)
        p1 = r1.it.explore(m.funcs['pformat'], [Sym('OBJ')], {})
        r2 = Recorder(repo, concrete_render=True)
        p2 = r2.it.explore(m.funcs['pprint'], [Sym('OBJ')], {'stream': Const('<STREAM>'), 'end': Const('<END>')})
        n += 1
        if len(p1) != 1 or len(p2) != 1 or p1[0].raised or p2[0].raised:
            rep.undecided('C18.a', 'pformat-text-is-pprint-text', m.relpath, 'the entry points fork / raise on the concrete sample (%s, %s)'
                          % (p1[0].raised.what if p1 and p1[0].raised else len(p1), p2[0].raised.what if p2 and p2[0].raised else len(p2)))
        else:
            text = p1[0].value.v if isinstance(p1[0].value, Const) else None
            written = r2.streams.get(repr('<STREAM>'), [])
            wtext = ''.join(x.v for x in written) if all(isinstance(x, Const) and isinstance(x.v, str) for x in written) else None
            rep.check(text is not None and wtext is not None and wtext == text + '<END>' and '\n' in text, 'C18.a', 'pformat-text-is-pprint-text', m.relpath,
                      'pformat(obj) + end == what pprint(obj) writes',
                      'on the same sdocs pformat returns %r but pprint writes %r (expected the same text followed by the end string)' % (
                          text if text is not None else prov(p1[0].value), wtext if wtext is not None else [prov(x) for x in written]), nontrivial=True)
    except Undecided as e:
        n += 1
        rep.undecided('C18.a', 'pformat-text-is-pprint-text', m.relpath, str(e))
    # the same on sdoc streams longer than every size constant the entry points and the plain renderer compare against (and longer
    # than a fixed small scale): a consumer that takes the stream in slices must still write the text of the whole
    from engine import thresholds
    mined, beyond = thresholds.mine([m, repo.module('render'), repo.module('utils')], most=5000)
    rep.note('entry points: size constants read by __init__ / render / utils: %s' % ({k: v[:2] for k, v in mined.items()} or 'none'))
    for T in sorted(set(mined) | {8}):
        mism = None
        und_ = None
        cnt = 0
        for per_line in (4, 5, 6, 7):
            for off in (0, 1):
                try:
                    r1 = Recorder(repo, concrete_render=True, scale=(T + 9, per_line, off))
                    p1 = r1.it.explore(m.funcs['pformat'], [Sym('OBJ')], {})
                    r2 = Recorder(repo, concrete_render=True, scale=(T + 9, per_line, off))
                    p2 = r2.it.explore(m.funcs['pprint'], [Sym('OBJ')], {'stream': Const('<STREAM>'), 'end': Const('<END>')})
                except (Undecided, PathLimit) as e:
                    und_ = str(e)
                    continue
                if len(p1) != 1 or len(p2) != 1 or p1[0].raised or p2[0].raised:
                    und_ = 'the entry points fork / raise on a stream of %d sdocs' % (T + 9)
                    continue
                text = p1[0].value.v if isinstance(p1[0].value, Const) else None
                written = r2.streams.get(repr('<STREAM>'), [])
                wtext = ''.join(x.v for x in written) if all(isinstance(x, Const) and isinstance(x.v, str) for x in written) else None
                if text is None or wtext is None:
                    und_ = 'the text written for a stream of %d sdocs is not constant' % (T + 9)
                    continue
                # what the stream denotes: texts in order, line break + indentation, the last text of a line without trailing blanks
                want = _stream_text(r1.scale)
                cnt += 1
                if wtext != text + '<END>' or text != want:
                    i_ = next((i for i, (x, y) in enumerate(zip(wtext, want)) if x != y), min(len(wtext), len(want)))
                    mism = ('on a stream of %d sdocs (lines of %d texts) pformat returns %d characters, pprint writes %d and the stream denotes %d; '
                            'first difference of the written text at character %d: %r where the stream has %r' % (
                                T + 9, per_line - 1, len(text), len(wtext) - 5, len(want), i_, wtext[max(0, i_ - 12):i_ + 8], want[max(0, i_ - 12):i_ + 8]))
        n += 1
        if mism:
            rep.fail('C18.a', 'pformat-text-is-pprint-text[%d sdocs]' % (T + 9), m.relpath, mism)
        elif und_ and not cnt:
            rep.undecided('C18.a', 'pformat-text-is-pprint-text[%d sdocs]' % (T + 9), m.relpath, und_)
        else:
            rep.check(cnt >= 1, 'C18.a', 'pformat-text-is-pprint-text[%d sdocs]' % (T + 9), m.relpath, 'same text on %d long streams' % cnt, '', nontrivial=True)
    rep.floor('C18.a', n, 150)
    nb = check_merge(repo, rep, 'C18.b')
    rep.floor('C18.b:explicit-none', nb, SETTINGS_MIN)

    # ---------------------------------------------------------------- C18.c set_default_config / get_default_config, then entry points see it
    n0 = n
    sdc = m.funcs.get('set_default_config')
    gdc = m.funcs.get('get_default_config')
    if sdc is None or gdc is None:
        raise AnalysisError('set_default_config / get_default_config vanished')
    sparams = [p for p in sdc.params if p != 'style']
    for base_, (label, gv) in [(b_, sc_) for b_ in (20, 200000)
                               for sc_ in [('none', set())] + [('only-' + p, {p}) for p in sparams] + [('all', set(sparams))]]:
        label = '%s@%d' % (label, base_)

        def newval(p_):
            return base_ + 1 + sorted(sparams).index(p_)
        rec = Recorder(repo)
        before = default_table(rec)
        before_items = {k.v: v for k, v in before.items} if before is not None else {}
        kw = {p: Const(newval(p)) for p in gv}
        try:
            prs = rec.it.explore(sdc, [], kw)
        except Undecided as e:
            rep.undecided('C18.c', 'set_default_config[%s]' % label, sdc.where, str(e))
            n += 1
            continue
        rep.count(len(prs))
        after = default_table(rec)
        n += 1
        if after is None or len(prs) != 1 or prs[0].raised is not None:
            rep.fail('C18.c', 'set_default_config:interpretable[%s]' % label, sdc.where, 'set_default_config does not leave a default table behind')
            continue
        after_items = {k.v: v for k, v in after.items}
        for key in sorted(set(before_items) | set(after_items)):
            want = newval(key) if key in gv else None
            got = after_items.get(key)
            if want is not None:
                ok = isinstance(got, Const) and got.v == want and type(got.v) is int
            else:
                b = before_items.get(key)
                ok = got is b or (isinstance(got, Const) and isinstance(b, Const) and got.v == b.v and type(got.v) is type(b.v))
            n += 1
            rep.check(ok, 'C18.c', 'set_default_config:stores:%s' % key if key in gv else 'set_default_config:keeps:%s[%s]' % (key, label), sdc.where,
                      'exactly the given settings change',
                      'after set_default_config(%s) the default for %r is %s (before: %s): it must change exactly the settings it is given'
                      % (', '.join(sorted(gv)), key, prov(got) if got is not None else '<missing>', prov(before_items.get(key)) if key in before_items else '<missing>'),
                      nontrivial=True)
        n += 1
        rep.check(not [e for e in rec.log if e[0] == 'set-style'], 'C18.c', 'set_default_config:style-untouched[%s]' % label, sdc.where,
                  'style only when given', 'set_default_style is called although no style was given')
        # later calls without explicit arguments use the new table (defaults are read at call time)
        if gv:
            rec.log.clear()
            try:
                pf = m.funcs['pformat']
                rec.it.explore(pf, [Sym('OBJ')], {})
                check_pipeline(rec, 'pformat-after-set_default_config', label, set(), sdc.where, after, rule='C18.b')
            except Undecided as e:
                rep.undecided('C18.b', 'pformat-after-set_default_config[%s]' % label, sdc.where, str(e))
            # get_default_config reports the current table
            try:
                g = rec.it.explore(gdc, [], {})
                n += 1
                rep.check(len(g) == 1 and g[0].value is after, 'C18.c', 'get_default_config:reports-current[%s]' % label, gdc.where,
                          'get_default_config is a view of the current table', 'get_default_config returns %s' % prov(g[0].value) if g else '?', nontrivial=True)
            except Undecided as e:
                rep.undecided('C18.c', 'get_default_config[%s]' % label, gdc.where, str(e))
    # a history of calls, longer than every size constant the module compares against (and than a fixed small count): after each call
    # the table holds every setting given so far (the latest value) and the built-in default for the rest
    from engine import thresholds as _th2
    mined2, _b2 = _th2.mine([m], most=200)
    ncalls = max(list(mined2) + [7]) + 2
    rec = Recorder(repo)
    start = default_table(rec)
    expect = {k.v: v for k, v in start.items} if start is not None else {}
    hist_bad = None
    hist_und = None
    done = 0
    for i in range(ncalls):
        p_ = sparams[i % len(sparams)]
        val = 300 + i
        try:
            prs = rec.it.explore(sdc, [], {p_: Const(val)})
        except (Undecided, PathLimit) as e:
            hist_und = 'call %d: %s' % (i + 1, e)
            break
        if len(prs) != 1 or prs[0].raised is not None:
            hist_und = 'call %d forks / raises' % (i + 1)
            break
        expect[p_] = Const(val)
        tab = default_table(rec)
        if tab is None:
            hist_bad = 'after %d calls there is no default table' % (i + 1)
            break
        got = {k.v: v for k, v in tab.items}
        wrong = [k_ for k_ in sorted(set(expect) | set(got)) if not (
            got.get(k_) is expect.get(k_) or (isinstance(got.get(k_), Const) and isinstance(expect.get(k_), Const) and got[k_].v == expect[k_].v
                                              and type(got[k_].v) is type(expect[k_].v)))]
        if wrong:
            hist_bad = ('after %d calls of set_default_config (the last one %s=%d) the default for %r is %s, expected %s: the table must hold every '
                        'setting given so far and the built-in default for the rest' % (
                            i + 1, p_, val, wrong[0], prov(got[wrong[0]]) if wrong[0] in got else '<missing>',
                            prov(expect[wrong[0]]) if wrong[0] in expect else '<absent>'))
            break
        done += 1
    n += 1
    if hist_bad:
        rep.fail('C18.c', 'set_default_config:history[%d calls]' % ncalls, sdc.where, hist_bad)
    elif hist_und:
        rep.undecided('C18.c', 'set_default_config:history[%d calls]' % ncalls, sdc.where, hist_und)
    else:
        rep.check(done == ncalls, 'C18.c', 'set_default_config:history[%d calls]' % ncalls, sdc.where, 'the table follows a history of %d calls' % ncalls, '', nontrivial=True)
    # style routed
    rec = Recorder(repo)
    try:
        rec.it.explore(sdc, [], {'style': Sym('STYLE')})
        st = [e for e in rec.log if e[0] == 'set-style']
        n += 1
        rep.check(len(st) == 1 and [prov(x) for x in st[0][1]] == ['STYLE'], 'C18.c', 'set_default_config:style-routed', sdc.where,
                  'style handed to set_default_style', 'set_default_config(style=...) calls %s' % [[prov(x) for x in e[1]] for e in st])
    except Undecided as e:
        rep.undecided('C18.c', 'set_default_config[style]', sdc.where, str(e))
    # read-only view
    rets = [r for r in ast.walk(gdc.node) if isinstance(r, ast.Return) and r.value is not None]
    n += 1
    rep.check(all('MappingProxyType' in src(r.value) for r in rets) and bool(rets), 'C18.c', 'get_default_config:read-only', gdc.where,
              'read-only view', 'get_default_config returns %s (not a read-only view)' % [src(r.value) for r in rets])
    # who writes _default_config
    for f in m.funcs.values():
        if f is sdc:
            continue
        for s_ in ast.walk(f.node):
            hit = False
            if isinstance(s_, (ast.Assign, ast.AugAssign)):
                for t in (s_.targets if isinstance(s_, ast.Assign) else [s_.target]):
                    base = t
                    while isinstance(base, (ast.Subscript, ast.Attribute)):
                        base = base.value
                    if isinstance(base, ast.Name) and base.id == DC and (isinstance(t, ast.Subscript) or
                                                                                        any(isinstance(g_, ast.Global) and DC in g_.names for g_ in ast.walk(f.node))):
                        hit = True
            if isinstance(s_, ast.Call) and dotted(s_.func) and dotted(s_.func).startswith(DC + '.') \
                    and s_.func.attr in ('update', 'pop', 'clear', 'setdefault', 'popitem', '__setitem__'):
                hit = True
            if isinstance(s_, ast.Delete) and any(DC in src(t) for t in s_.targets):
                hit = True
            if hit:
                # a private helper that only set_default_config reaches (through private helpers) acts for it
                from . import shared_state as _SS
                if _SS.owners_of(repo, f, {sdc.qualname}) <= {sdc.qualname}:
                    continue
                n += 1
                rep.fail('C18.c', '%s:writes-default-config' % f.qualname, '%s:%d' % (m.relpath, s_.lineno),
                         '%s writes the default configuration; only set_default_config may' % f.qualname)
    rep.floor('C18.c', n - n0, 40)

    # ---------------------------------------------------------------- C18.d PrettyPrinter
    n0 = n
    pp = m.classes.get('PrettyPrinter')
    if pp is None:
        raise AnalysisError('PrettyPrinter vanished')
    for meth in ('pformat', 'pprint'):
        rec = Recorder(repo)
        try:
            obj = rec.it.construct(TypeV('PrettyPrinter'), [], {'width': given('width'), 'sort_dict_keys': given('sort_dict_keys')}, None)
            if meth == 'pprint':
                obj2 = rec.it.construct(TypeV('PrettyPrinter'), [], {'width': given('width'), 'stream': Const('<STREAM>')}, None)
                obj = obj2
            f = pp.methods.get(meth)
            if f is None:
                n += 1
                rep.fail('C18.d', 'PrettyPrinter.%s:exists' % meth, pp.where, 'method vanished')
                continue
            prs = rec.it.explore(f, [obj, Sym('OBJ')], {})
        except Undecided as e:
            rep.undecided('C18.d', 'PrettyPrinter.%s' % meth, pp.where, str(e))
            n += 1
            continue
        calls = [e for e in rec.log if e[0] == 'pipeline']
        n += 1
        ok = len(prs) == 1 and prs[0].raised is None and len(calls) == 1
        detail = 'raises %s' % prs[0].raised.what if prs and prs[0].raised else '%d pipeline calls' % len(calls)
        if ok:
            _, a, k = calls[0]
            bound = dict(zip(pts.params, a))
            bound.update(k)
            ok = prov(bound.get(pts.params[0])) == 'OBJ' and isinstance(bound.get('width'), Const) and bound['width'].v == given('width').v
            if meth == 'pformat':
                ok = ok and isinstance(bound.get('sort_dict_keys'), Const) and bound['sort_dict_keys'].v == given('sort_dict_keys').v
            detail = 'pipeline gets value=%s width=%s sort_dict_keys=%s' % (prov(bound.get(pts.params[0])) if pts.params[0] in bound else None,
                                                                          prov(bound.get('width')) if 'width' in bound else None,
                                                                          prov(bound.get('sort_dict_keys')) if 'sort_dict_keys' in bound else None)
        rep.check(ok, 'C18.d', 'PrettyPrinter.%s:forwards-object' % meth, f.where, 'object and the stored settings reach the pipeline',
                  'PrettyPrinter(...).%s(OBJ): %s - the object to print / the stored settings are not forwarded' % (meth, detail), nontrivial=True)
        if meth == 'pformat' and prs and prs[0].raised is None:
            n += 1
            rep.check(prov(prs[0].value).endswith('.getvalue()'), 'C18.d', 'PrettyPrinter.pformat:returns-text', f.where, 'returns the text',
                      'PrettyPrinter.pformat returns %s' % prov(prs[0].value))
    # PrettyPrinter(**settings).pformat(x) is pformat(x, **settings): the pipeline gets the same settings either way - for small values
    # and for values one past every size constant the entry-point module compares against
    from engine import thresholds as _th
    mined_, _b = _th.mine([m], most=100000)
    vals_ = [7, 79] + [t_ + 1 for t_ in mined_] + [2 * t_ for t_ in mined_]
    rep.note('PrettyPrinter: size constants of the entry-point module %s; widths tried %s' % ({k_: v_[:1] for k_, v_ in mined_.items()} or 'none', vals_))

    def bound_(entry):
        out = dict(zip(pts.params, [prov(x) for x in entry[1]]))
        out.update({k_: prov(v_) for k_, v_ in entry[2].items()})
        return out
    for setting in ('width', 'indent', 'max_seq_len', 'depth', 'ribbon_width'):
        for val in vals_:
            try:
                r1 = Recorder(repo)
                obj = r1.it.construct(TypeV('PrettyPrinter'), [], {setting: Const(val)}, None)
                p1 = r1.it.explore(pp.methods['pformat'], [obj, Sym('OBJ')], {})
                mine = [bound_(e) for e in r1.log if e[0] == 'pipeline']
                r2 = Recorder(repo)
                p2 = r2.it.explore(m.funcs['pformat'], [Sym('OBJ')], {setting: Const(val)})
                ref = [bound_(e) for e in r2.log if e[0] == 'pipeline']
            except (Undecided, PathLimit, KeyError) as e:
                n += 1
                rep.undecided('C18.d', 'PrettyPrinter(%s=%d):same-settings-as-pformat' % (setting, val), pp.where, str(e))
                continue
            n += 1
            ok = len(mine) == 1 and len(ref) == 1 and mine[0] == ref[0]
            rep.check(ok, 'C18.d', 'PrettyPrinter(%s=%d):same-settings-as-pformat' % (setting, val), pp.where,
                      'the same settings reach the pipeline as for pformat(obj, %s=%d)' % (setting, val),
                      'PrettyPrinter(%s=%d).pformat(OBJ) prints with %s where pformat(OBJ, %s=%d) uses %s' % (
                          setting, val, {k_: v_ for k_, v_ in (mine[0] if mine else {}).items() if not ref or ref[0].get(k_) != v_}, setting, val,
                          {k_: v_ for k_, v_ in (ref[0] if ref else {}).items() if not mine or mine[0].get(k_) != v_}), nontrivial=True)
    # a printer object follows the defaults that are current when it prints (defaults are read at call time, also through the shim)
    rec = Recorder(repo)
    try:
        obj = rec.it.construct(TypeV('PrettyPrinter'), [], {'width': Const(33)}, None)
        rec.it.explore(sdc, [], {'max_seq_len': Const(7), 'depth': Const(3)})
        rec.log.clear()
        prs = rec.it.explore(pp.methods['pformat'], [obj, Sym('OBJ')], {}) if 'pformat' in pp.methods else []
        calls = [e for e in rec.log if e[0] == 'pipeline']
        n += 1
        okd = len(prs) == 1 and prs[0].raised is None and len(calls) == 1
        got = {}
        if okd:
            got = dict(zip(pts.params, calls[0][1]))
            got.update(calls[0][2])
            okd = all(isinstance(got.get(k_), Const) and got[k_].v == v_ for k_, v_ in (('width', 33), ('max_seq_len', 7), ('depth', 3)))
        rep.check(okd, 'C18.d', 'PrettyPrinter:defaults-read-when-printing', pp.where, 'a printer built earlier follows set_default_config',
                  'PrettyPrinter(width=33) built before set_default_config(max_seq_len=7, depth=3) prints with %s: the settings it was not given '
                  'must come from the configuration current at the call, as for pformat(obj, width=33)'
                  % {k_: prov(v_) for k_, v_ in got.items() if k_ in ('width', 'max_seq_len', 'depth')}, nontrivial=True)
    except Undecided as e:
        rep.undecided('C18.d', 'PrettyPrinter:defaults-read-when-printing', pp.where, str(e))
        n += 1
    rep.floor('C18.d', n - n0, 4)

    # ---------------------------------------------------------------- C18.g cpprint writes the text pformat returns (colour aside)
    # the two renderers behind the entry points agree on every text fragment, line break and trimmed line end (home: C16.f)
    from .common import import_instances
    rep.floor('C18.g', import_instances(repo, rep, 'C16', lambda i: i.construct.startswith('plain-text-agreement'), 'C18.g',
                                        'cpprint and pformat / pprint would print different text for the same object'), 1)

    # ---------------------------------------------------------------- C18.f the entry points keep nothing between calls
    # besides the default table (written by set_default_config alone, above) no function of prettyprinter/__init__.py writes module-level
    # state: an entry point that remembers something - a re-entrancy guard, a cache of rendered text, a "last stream" - answers
    # differently from the others once the remembered state and reality part ways (an exception between add and discard, ...)
    from engine import effects as _eff
    nf = 0
    for s_ in _eff.sites(repo, _eff.shared_objects(repo)):
        if s_.kind != 'write' or not ((s_.fn is not None and s_.fn.module is m) or s_.obj.module is m):
            continue
        if s_.obj.name == DC:
            continue
        nf += 1
        rep.fail('C18.f', '%s:module-state:%s:%s' % (s_.fn.qualname if s_.fn else '<module>', s_.obj.name, s_.detail), s_.where,
                 '%s %s the module-level %s %s: what this entry point returns depends on earlier calls (and on how they ended), while the other '
                 'entry points print the same object afresh' % (s_.fn.key if s_.fn else 'module code', s_.detail, s_.obj.kind, s_.obj.name))
    rep.ok('C18.f', 'entry-points-stateless', m.relpath, 'no module-level state besides the default table is written (%d other writes)' % nf, nontrivial=True)

    # ---------------------------------------------------------------- C18.e pretty_repr
    n0 = n
    pr_ = m.funcs.get('pretty_repr')
    if pr_ is None:
        raise AnalysisError('pretty_repr vanished')
    rec = Recorder(repo)
    try:
        prs = rec.it.explore(pr_, [Sym('OBJ')], {})
        for p_ in prs:
            registered = dict(p_.facts).get('registered(type(OBJ))')
            n += 1
            if registered:
                rep.check(p_.raised is None and prov(p_.value).endswith('.getvalue()'), 'C18.e', 'pretty_repr:returns-pformat', pr_.where,
                          'registered types return pformat(instance)', 'pretty_repr returns %s for a registered type' % (prov(p_.value) if p_.value is not None else None),
                          nontrivial=True)
            else:
                rep.check(p_.raised is None and not prov(p_.value).endswith('.getvalue()'), 'C18.e', 'pretty_repr:fallback-only-unregistered', pr_.where,
                          'default repr only when nothing is registered', 'pretty_repr returns %s for an unregistered type' % (prov(p_.value) if p_.value is not None else None))
        # ... and it is the same call as pformat(instance): every setting comes from the configured defaults
        def bound(entry):
            out = dict(zip(pts.params, [prov(x) for x in entry[1]]))
            out.update({k_: prov(v_) for k_, v_ in entry[2].items()})
            return out
        # (under defaults changed by set_default_config to values that differ from every built-in default, so that a setting pinned
        # by pretty_repr - depth=None, width=79 ... - shows)
        rec2 = Recorder(repo)
        sdc_ = m.funcs['set_default_config']
        pre_ = rec2.it.explore(sdc_, [], {s_: Const(41 + i_) for i_, s_ in enumerate(settings) if s_ in sdc_.params})
        if len(pre_) != 1 or pre_[0].raised is not None:
            raise Undecided('set_default_config could not be interpreted before pretty_repr')
        rec2.log.clear()
        rec2.it.explore(pr_, [Sym('OBJ')], {})
        mine = [bound(e) for e in rec2.log if e[0] == 'pipeline']
        rec2.log.clear()
        rec2.it.explore(m.funcs['pformat'], [Sym('OBJ')], {})
        ref = [bound(e) for e in rec2.log if e[0] == 'pipeline']
        n += 1
        rep.check(len(mine) == 1 and len(ref) == 1 and mine[0] == ref[0], 'C18.e', 'pretty_repr:same-settings-as-pformat', pr_.where,
                  'the repr of a registered type is printed under the configured defaults, like pformat(instance)',
                  'pretty_repr prints the instance with %s where pformat(instance) uses %s: repr() and pformat() of the same object disagree once the '
                  'defaults are changed with set_default_config' % (
                      {k_: v_ for k_, v_ in (mine[0] if mine else {}).items() if not ref or ref[0].get(k_) != v_}, 
                      {k_: v_ for k_, v_ in (ref[0] if ref else {}).items() if not mine or mine[0].get(k_) != v_}), nontrivial=True)
        chk = [e for e in rec.log if e[0] == 'is_registered']
        n += 1
        rep.check(bool(chk) and all(prov(e[1][0]) == 'type(OBJ)' for e in chk), 'C18.e', 'pretty_repr:checks-own-type', pr_.where,
                  'registration looked up for type(instance)', 'pretty_repr consults is_registered(%s)' % [prov(e[1][0]) for e in chk])
    except Undecided as e:
        rep.undecided('C18.e', 'pretty_repr', pr_.where, str(e))
    rep.floor('C18.e', n - n0, 2)


def check_merge(repo, rep, rule):
    """shared with C10: an explicit argument - including an explicit None - must reach python_to_sdocs"""
    m = repo.module('')
    pts = repo.func('prettyprinter', 'python_to_sdocs')
    settings = pts.params[1:]
    f = m.funcs.get('pformat')
    n = 0
    for s_ in settings:
        rec = Recorder(repo)
        try:
            prs = rec.it.explore(f, [Sym('OBJ')], {s_: Const(None)})
        except Undecided as e:
            rep.undecided(rule, 'merge:explicit-none:%s' % s_, f.where, str(e))
            n += 1
            continue
        calls = [e for e in rec.log if e[0] == 'pipeline']
        n += 1
        ok = len(calls) == 1
        got = None
        if ok:
            bound = dict(zip(pts.params, calls[0][1]))
            bound.update(calls[0][2])
            got = bound.get(s_)
            ok = isinstance(got, Const) and got.v is None
        rep.check(ok, rule, 'merge:explicit-overrides-default:%s' % s_, f.where, 'an explicit None is an explicit argument',
                  'pformat(obj, %s=None) hands python_to_sdocs %s=%s: an explicitly passed None must override the default (it is not '
                  '"argument omitted")' % (s_, s_, prov(got) if got is not None else '<missing>'), nontrivial=True)
    return n
