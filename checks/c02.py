"""C02 -- string and bytes literals are reproduced exactly, however they are split."""
import ast

from engine import docterm as D
from engine import facts
from engine.astutil import src, call_name, dotted, Guards, compare_parts, names_in, enclosing_map
from engine.flow import Flow, _walk_no_nested
from engine.interp import (Const, Sym, SymStr, ListV, TupleV, ValueV, CtxV, DocV, TypeV, FuncV, NONE, Undecided, prov)
from engine.astutil import compare_parts as _cp_unused
from engine.loader import AnalysisError
from . import shape as S
from .c08 import string_printer_paths, str_prims, STRATEGIES

META = {
    'text': 'The string machinery is interpreted (no execution of the package) on a corpus of small concrete str and bytes '
            'values chosen for their structure - words and blank runs, no blanks, no separators at all, both quote characte'
            'rs in every proportion, backslashes before quotes, control / zero-width / astral characters, high bytes, runs '
            'of non-word bytes - at six widths and with both quote characters; standard-library calls on constants (re, str'
            '/bytes methods, repr) are evaluated as the library defines them. Decided against the specification: (b) the pi'
            'eces of str_to_lines concatenate to the value and have its type; (c) no piece is empty; (e) quote + escape_str'
            '_for_quote(quote, x) + quote evaluates back to x for the whole value and for every piece, and the quote chosen'
            ' is a quote character; (a) the text of highlight_escapes(t) is t and the single-line literal evaluates back to'
            ' the value; plus, by abstract interpretation of the layout-time evaluator over 0..3 pieces, four strategies, n'
            'ative and subclass types, at least one literal on every path, all pieces through the one literal builder with '
            "the splitter's quote (d); split patterns parsed with the regex parser are one capturing group around a never-e"
            'mpty expression; (f) the width handed to the splitter has a constant positive lower bound. Values outside the '
            'corpus shapes are not decided.',
    'note': 'widths and the choice of break points are not decided; the linearity argument treats escaped_len / split_at as'
            ' total functions',
    'technique': 'static analysis: abstract interpretation of the string helpers on a structural corpus of constants against a r'
                 'eference specification (ast.literal_eval); regex-AST rule; doc-shape interpretation of the evaluator',
}
META['text'] += ' Round 5: the string corpus is extended by texts longer than every size constant the splitter compares against (mined from the source): word + blank run + word, unbroken runs, separator runs of T+1 and T*w+1 characters.'


def run(repo, rep):
    rep.explanation = ('C02.a >= 1 literal on every path, C02.b splitter linearity + total split patterns, C02.c no empty piece, '
                       'C02.d one builder / one quote / prefix, C02.e mirror escaping, C02.f progress floor, C02.g closing quote last.')
    rep.not_decided = 'that repr() escaping denotes the same characters (delegated to the built-in repr); where lines are broken.'
    rep.assumptions = ['str.__repr__/bytes.__repr__ correct', 're module semantics of split with one capturing group']
    m = repo.module('prettyprinter')

    # ---------------------------------------------------------------- C02.a / C02.d (E6)
    n = 0
    for base in ('str', 'bytes'):
        for native in (True, False):
            for lab, pr, t, fn in string_printer_paths(repo, base, native):
                rep.count(1)
                if pr.raised is not None:
                    if 'Assertion' in pr.raised.what:
                        continue
                    n += 1
                    rep.fail('C02.a', lab, fn.where, 'string printer raises %s' % pr.raised.what)
                    continue
                if pr.assumed('depth_left', True):
                    continue
                lits = _strlits(t)
                n += 1
                rep.check(len(lits) >= 1, 'C02.a', lab + ':has-literal', fn.where, 'at least one string literal',
                          'on the path (%s) the string printer returns %s: no literal at all - the value vanishes from the output '
                          "(pformat([''], width=1))" % (pr.fact_text()[:140], D.show(t)[:100] if t is not None else None), nontrivial=True)
                npieces = int(lab.split('pieces=')[1].split(']')[0])
                multi = [l for l in lits if 'piece' in l.prov]
                if multi:
                    n += 1
                    quotes = {l.prov.split(';quote=')[1].rstrip(')') for l in multi}
                    order = [l.prov.split('(')[1] for l in multi]
                    okd = len(quotes) == 1 and 'auto' not in quotes and len(multi) == npieces and \
                        order == ['piece%d' % i for i in range(npieces)]
                    rep.check(okd, 'C02.d', lab + ':pieces', fn.where, 'every piece once, in order, with the quote given to the splitter',
                              'the multi-line path prints the pieces %s with quotes %s (%d pieces were produced by the splitter): pieces '
                              'must all be printed once, in order, with one explicit quote' % (order, sorted(quotes), npieces), nontrivial=True)
                    if okd:
                        n += 1
                        q = quotes.pop()
                        rep.check(q.startswith('quote-of(') , 'C02.d', lab + ':quote-source', fn.where, 'quote chosen once for the whole value',
                                  'continuation pieces are quoted with %s' % q)
    rep.floor('C02.a+d', n, 100)
    # the quote handed to the splitter is the one handed to the literal builder (syntactic cross-check)
    ps = S.printer_for(repo, 'str')
    ev = [f for f in m.funcs.values() if f.parent is ps]
    n = 0
    if ev:
        e = ev[0]
        from engine.astutil import bind_args
        stl_f = m.funcs.get('str_to_lines')
        sls_f = m.funcs.get('pretty_single_line_str')
        sc = [bind_args(c, stl_f) for c in ast.walk(ps.node) if isinstance(c, ast.Call) and call_name(c) == 'str_to_lines']
        lc = [bind_args(c, sls_f) for c in ast.walk(ps.node) if isinstance(c, ast.Call) and call_name(c) == 'pretty_single_line_str']
        lc = [b for b in lc if 'use_quote' in b]
        n += 1
        q1 = {src(b['use_quote']) for b in sc if 'use_quote' in b}
        q2 = {src(b['use_quote']) for b in lc}
        rep.check(len(sc) == 1 and q1 == q2 and len(q1) == 1, 'C02.d', 'evaluator:same-quote-for-splitter-and-builder', e.where,
                  'splitter measures with the quote the builder prints with',
                  'the splitter is given use_quote=%s but the pieces are printed with use_quote=%s: escaped lengths no longer match'
                  % (sorted(q1), sorted(q2)), nontrivial=True)
        n += 1
        sarg = {src(b['s']) for b in sc if 's' in b}
        rep.check(sarg == {ps.params[0]}, 'C02.d', 'evaluator:splits-the-value', e.where, 'the splitter is given the value itself',
                  'str_to_lines is called with s=%s' % sorted(sarg))
    rep.floor('C02.d:syntactic', n, 2)

    _builder(repo, rep)
    _highlight(repo, rep)
    # the splitter, the escaper, the quote choice and the single-line literal, interpreted on a corpus of small concrete str / bytes
    # values (replaces the typestate analysis of str_to_lines: the conservation of pieces is decided on what the code computes)
    from . import strmodel
    rep.floor('C02:string-model', strmodel.run(repo, rep), 5)
    _patterns(repo, rep)
    _escaping(repo, rep)
    # ---------------------------------------------------------------- C02.f
    from .c12 import _fold_len, _lower_bound
    from engine.linear import form, NotLinear
    from .ctxuse import single_defs
    n = 0
    if ev:
        e = ev[0]
        defs = {k_: v[0] for k_, v in single_defs(e.node).items() if len(v) == 1}
        from engine.astutil import bind_args
        for c in ast.walk(ps.node):
            if isinstance(c, ast.Call) and call_name(c) == 'str_to_lines':
                ml = bind_args(c, m.funcs['str_to_lines']).get('max_len')
                for fx in [x for x in m.funcs.values() if x.parent is ps or (x.parent is not None and x.parent.parent is ps)]:
                    for k_, v_ in single_defs(fx.node).items():
                        if len(v_) == 1:
                            defs.setdefault(k_, v_[0])
                n += 1
                try:
                    lb = _lower_bound(form(_fold_len(ml, defs, m)))
                except (NotLinear, TypeError, AttributeError):
                    lb = None
                rep.check(lb is not None and lb >= 1, 'C02.f', 'evaluator:width-floor', '%s:%d' % (e.module.relpath, c.lineno),
                          'max_len >= %s' % lb, 'the width handed to the splitter (%s) has no constant lower bound >= 1: however little width '
                          'is left, splitting must terminate' % (src(ml) if ml is not None else None), nontrivial=True)
    rep.floor('C02.f', n, 1)


def _strlits(t, out=None):
    out = [] if out is None else out
    if t is None:
        return out
    if isinstance(t, D.Lit) and t.role == 'strlit':
        out.append(t)
    elif isinstance(t, (D.Cat, D.Fill)):
        for i in t.items:
            _strlits(i, out)
    elif isinstance(t, (D.Nest, D.Grp, D.AB, D.Ann)):
        _strlits(t.child, out)
    elif isinstance(t, D.FC):
        _strlits(t.broken, out)
    elif isinstance(t, D.Call):
        for a in t.args:
            if isinstance(a, D.T):
                _strlits(a, out)
    return out


# --------------------------------------------------------------------------- C02.g + prefix
def _builder(repo, rep):
    m = repo.module('prettyprinter')
    f = m.funcs.get('pretty_single_line_str')
    if f is None:
        raise AnalysisError('pretty_single_line_str vanished')
    n = 0

    def p_escape(it, a, k, nd):
        return SymStr('escaped(%s;%s)' % (prov(a[1]), prov(a[0])))

    def p_highlight(it, a, k, nd):
        return DocV(D.Lit('highlighted(%s)' % prov(a[0]), role='escaped'))
    it = S.interp(repo, 'builder', {'escape_str_for_quote': p_escape, 'highlight_escapes': p_highlight,
                                    'determine_quote_strategy': S.p_determine_quote})
    for base in ('str', 'bytes'):
        for quote in (NONE, SymStr('Q', nonempty=True)):
            v = ValueV('s', TypeV(base), None)
            for pr in it.explore(f, [v, Sym('indent')], {'use_quote': quote}):
                n += 1
                lab = 'pretty_single_line_str[%s,%s]' % (base, 'auto' if quote is NONE else 'given')
                if pr.raised is not None or not isinstance(pr.value, DocV):
                    rep.fail('C02.g', lab, f.where, 'literal builder raises')
                    continue
                seqs = D.all_layouts(pr.value.t)
                seq = [a for a in seqs[0] if isinstance(a, D.T)]
                q = 'Q' if quote is not NONE else 'quote-of(s)'
                provs = [a.prov if isinstance(a, D.Lit) else (a.s if isinstance(a, D.Text) else '?') for a in seq]
                want = (['b'] if base == 'bytes' else []) + [q, 'highlighted(escaped(s;%s))' % q, q]
                provs = [p for p in provs if p != '']
                rep.check(provs == want, 'C02.g', lab + ':shape', f.where, '[prefix] quote escaped-content quote, closing quote last',
                          'the literal builder produces %s, expected %s (a literal must end with its closing quote - the renderer trims '
                          'trailing whitespace of the last fragment of a line - and a bytes literal must carry the b prefix)' % (provs, want),
                          nontrivial=True)
    rep.floor('C02.g', n, 4)


def _implies_nonempty(ff, name):
    """the dominating fact says that the list ``name`` has at least one element"""
    if ff.text == name:
        return ff.pol
    if ff.text == 'not ' + name:
        return not ff.pol
    cp = compare_parts(ff.test, ff.pol)
    if cp and src(cp[0]) == 'len(%s)' % name and isinstance(cp[2], ast.Constant) and isinstance(cp[2].value, int):
        k = cp[2].value
        return (cp[1] == '>' and k >= 0) or (cp[1] == '>=' and k >= 1) or (cp[1] == '==' and k >= 1) or (cp[1] == '!=' and k == 0)
    if cp and src(cp[2]) == 'len(%s)' % name and isinstance(cp[0], ast.Constant) and isinstance(cp[0].value, int):
        k = cp[0].value
        return (cp[1] == '<' and k >= 0) or (cp[1] == '<=' and k >= 1)
    return False


def _after_nonempty_guard(fn, stmt, held):
    """the loop begins with ``if not held: ...fetch...; if not held: continue`` so that past it the held piece is non-empty"""
    for lp in ast.walk(fn):
        if isinstance(lp, ast.While) and stmt in list(ast.walk(lp)):
            first = lp.body[0]
            if isinstance(first, ast.If) and src(first.test) == 'not %s' % held:
                inner = [s for s in first.body if isinstance(s, ast.If) and src(s.test) == 'not %s' % held
                         and s.body and isinstance(s.body[-1], ast.Continue)]
                return bool(inner)
    return False


# --------------------------------------------------------------------------- patterns
def _patterns(repo, rep, rule='C02.b', only=None):
    import re
    try:
        from re import _parser as sre_parse
    except ImportError:      # pragma: no cover
        import sre_parse
    n = 0
    used = set()
    for mod in (repo.module('prettyprinter'), repo.module('pretty_stdlib')):
        # patterns that reach str_to_lines: the four module constants + split_pattern arguments
        for name, vals in mod.assigns.items():
            v = vals[-1]
            if isinstance(v, ast.Call) and call_name(v) == 're.compile' and v.args and isinstance(v.args[0], ast.Constant):
                if not (('PATTERN' in name and ('WHITESPACE' in name or 'NONWORD' in name)) or 'split_pattern' in name):
                    continue
                if only is not None and not only(name):
                    continue
                pat = v.args[0].value
                n += 1
                try:
                    p = sre_parse.parse(pat if isinstance(pat, str) else pat.decode('latin-1'))
                except Exception as e:
                    rep.fail(rule, 'pattern:%s' % name, '%s:%d' % (mod.relpath, v.lineno), 'pattern does not parse: %s' % e)
                    continue
                items = list(p)
                ok = len(items) == 1 and str(items[0][0]) == 'SUBPATTERN' and items[0][1][0] == 1
                lo = p.getwidth()[0]
                rep.check(ok and lo >= 1, rule, 'pattern:%s:one-capturing-group' % name, '%s:%d' % (mod.relpath, v.lineno),
                          'exactly one capturing group around a never-empty expression',
                          'split pattern %s = %r is not a single capturing group around the whole (non-empty) expression: '
                          'pattern.split(s) would drop the separators (or split at every position)' % (name, pat), nontrivial=True)
    if only is None:
        rep.floor('C02.b:patterns', n, 5)
    return n


# --------------------------------------------------------------------------- C02.e
def _classify_quote(text):
    try:
        v = ast.literal_eval(text)
    except Exception:
        return None
    if v in ("'", b"'"):
        return 'S'
    if v in ('"', b'"'):
        return 'D'
    return None


def _escaping(repo, rep):
    """semantic check by abstract interpretation: escape_str_for_quote keeps repr's text when repr already used the
    chosen quote and otherwise un-escapes the other quote, then escapes the chosen one (mirror images for the two
    quotes); determine_quote_strategy returns the quote that needs no more escapes than the other"""
    m = repo.module('prettyprinter')
    f = m.funcs.get('escape_str_for_quote')
    dq = m.funcs.get('determine_quote_strategy')
    if f is None or dq is None:
        raise AnalysisError('escape_str_for_quote / determine_quote_strategy vanished')
    n = 0
    consts = {}
    for name in ('SINGLE_QUOTE_TEXT', 'DOUBLE_QUOTE_TEXT', 'SINGLE_QUOTE_BYTES', 'DOUBLE_QUOTE_BYTES'):
        v = m.assigns.get(name)
        if v and isinstance(v[-1], ast.Constant):
            consts[name] = v[-1].value
    n += 1
    rep.check(consts.get('SINGLE_QUOTE_TEXT') == "'" and consts.get('DOUBLE_QUOTE_TEXT') == '"' and
              consts.get('SINGLE_QUOTE_BYTES') == b"'" and consts.get('DOUBLE_QUOTE_BYTES') == b'"', 'C02.e', 'quote-constants', m.relpath,
              'quote constants are the two quote characters', 'quote constants are %s' % consts, nontrivial=True)
    it = S.interp(repo, 'builder', {__import__('engine.roles', fromlist=['x']).name(repo, 'builtin_repr'): lambda it_, a, k, nd: SymStr('REPR', nonempty=True),
                                    'repr': lambda it_, a, k, nd: SymStr('REPR', nonempty=True)})
    other = {"'": '"', '"': "'"}
    for q in ("'", '"'):
        for base in ('str', 'bytes'):
            try:
                prs = it.explore(f, [Const(q), ValueV('s', TypeV(base), None)], {})
            except Undecided as e:
                rep.undecided('C02.e', 'escape[%s,%s]' % (q, base), f.where, str(e))
                continue
            rep.count(len(prs))
            for pr in prs:
                n += 1
                lab = 'escape[to %s,%s]{%s}' % ('single' if q == "'" else 'double', base, 'same' if any(v for k, v in pr.facts) else 'other')
                v = pr.value
                if pr.raised is not None or not isinstance(v, SymStr):
                    rep.fail('C02.e', lab, f.where, 'escape_str_for_quote raises / returns %r' % (v,))
                    continue
                same = [val for k, val in pr.facts if 'REPR[-1]' in k]
                if not same:
                    rep.fail('C02.e', lab, f.where, 'the quote repr() used is not consulted on this path (%s)' % pr.fact_text())
                    continue
                o = other[q]
                want = () if same[0] else (('\\' + o, o, None), (q, '\\' + q, None))
                okb = v.base.startswith('REPR[') and v.base.endswith(':-1]')
                rep.check(v.ops == want and okb, 'C02.e', lab, f.where,
                          'repr text kept when it already uses the chosen quote; otherwise un-escape the other quote, then escape the chosen one',
                          'for target quote %s (repr used %s quote) the escaped text is %s with replacements %s, expected the text between '
                          "repr's quotes with replacements %s: some quote characters end up escaped wrongly"
                          % (q, 'the same' if same[0] else 'the other', v.base, list(v.ops), list(want)), nontrivial=True)
    # quote choice
    for base in ('str', 'bytes'):
        try:
            prs = it.explore(dq, [ValueV('s', TypeV(base), None)], {})
        except Undecided as e:
            rep.undecided('C02.e', 'quote-strategy[%s]' % base, dq.where, str(e))
            continue
        rep.count(len(prs))
        for pr in prs:
            n += 1
            has = {}
            le = {}      # ('S','D') -> bool  meaning count(S) <= count(D) known
            for k, val in pr.facts:
                if k.endswith(' in s'):
                    c = _classify_quote(k[:-5])
                    if c:
                        has[c] = val
                for op in (' <= ', ' < '):
                    if op in k and 'count(' in k:
                        l, r = k.split(op, 1)
                        lc = _classify_quote(l[l.index('count(') + 6:-1]) if 'count(' in l else None
                        rc = _classify_quote(r[r.index('count(') + 6:-1]) if 'count(' in r else None
                        if lc and rc and lc != rc:
                            if op == ' <= ':
                                # l <= r is val ; if false then r < l hence r <= l
                                le[(lc, rc)] = val
                                if not val:
                                    le[(rc, lc)] = True
                            else:
                                if val:
                                    le[(lc, rc)] = True
                                else:
                                    le[(rc, lc)] = True
            res = pr.value.v if isinstance(pr.value, Const) else None
            lab = 'quote-strategy[%s]{%s}' % (base, pr.fact_text()[:60])
            if res not in ("'", '"'):
                rep.fail('C02.e', lab, dq.where, 'determine_quote_strategy returns %r: only the two quote characters may be chosen' % (pr.value,))
                continue
            mine, oth = ('S', 'D') if res == "'" else ('D', 'S')
            if has.get(mine) is False:
                ok = True
            elif has.get(mine) is True and has.get(oth) is False:
                ok = False
            elif has.get(mine) is True and has.get(oth) is True:
                ok = le.get((mine, oth)) is True
            else:
                ok = False
            rep.check(ok, 'C02.e', lab, dq.where, 'the chosen quote is absent from the value or needs no more escapes than the other',
                      'on the path (%s) determine_quote_strategy chooses %s although that quote %s: more characters get escaped than necessary '
                      '(and the literal differs from the one the splitter measured)' % (
                          pr.fact_text()[:160], res, 'occurs in the value while the other does not' if has.get(oth) is False else
                          'is not known to occur at most as often as the other'), nontrivial=True)
    rep.floor('C02.e', n, 14)


# --------------------------------------------------------------------------- C02.h
def _highlight(repo, rep):
    """the escape highlighter only annotates: every non-empty part of the split literal text is emitted once, in order;
    intersperse() yields every element with the separator between"""
    try:
        from re import _parser as sre_parse
    except ImportError:      # pragma: no cover
        import sre_parse
    m = repo.module('prettyprinter')
    f = m.funcs.get('highlight_escapes')
    n = 0
    if f is None:
        raise AnalysisError('highlight_escapes vanished')
    pat = m.assigns.get('STR_LITERAL_ESCAPES')
    n += 1
    ok = False
    if pat and isinstance(pat[-1], ast.Call):
        a = pat[-1].args[0]
        text = None
        if isinstance(a, ast.Constant):
            text = a.value
        elif isinstance(a, ast.JoinedStr) is False:
            try:
                text = ast.literal_eval(a)
            except Exception:
                text = None
        if text is not None:
            try:
                p = sre_parse.parse(text)
                items = list(p)
                ok = len(items) == 1 and str(items[0][0]) == 'SUBPATTERN' and items[0][1][0] == 1 and p.getwidth()[0] >= 1
            except Exception:
                ok = False
    rep.check(ok, 'C02.h', 'STR_LITERAL_ESCAPES:one-capturing-group', m.relpath, 'escape pattern is one capturing group (split keeps the escapes)',
              'STR_LITERAL_ESCAPES is not a single capturing group around a non-empty expression: highlight_escapes would drop text', nontrivial=True)
    # semantic: interpret highlight_escapes on a split into three parts of unknown emptiness
    n += 1

    def m_split(it_, obj, a_, k_, nd):
        if prov(obj).startswith('re.compile'):
            return ListV([SymStr('part%d' % i, nonempty=None) for i in range(3)])
        return NotImplemented

    def m_match(it_, obj, a_, k_, nd):
        if prov(obj).startswith('re.compile'):
            return Sym('match(%s)' % prov(a_[0]))
        return NotImplemented
    ith = S.interp(repo, 'builder', {'method:split': m_split, 'method:match': m_match})
    good = True
    why = ''
    try:
        prs = ith.explore(f, [SymStr('escaped-text', nonempty=True)], {})
        rep.count(len(prs))
        for pr in prs:
            if pr.raised is not None or not isinstance(pr.value, DocV):
                good, why = False, 'raises / returns no document'
                break
            want = ['part%d' % i for i in range(3) if dict(pr.facts).get('truthy(part%d)' % i, True)]
            got = [a.prov for a in D.linearise(pr.value.t, 'break', lambda g_: 'break') if isinstance(a, D.Lit)]
            if got == ['escaped-text']:
                continue        # a path that emits the whole text as one part (a shortcut for text without escapes): nothing is lost
            if got != want:
                good, why = False, 'for the non-empty parts %s the document contains %s' % (want, got)
                break
    except Undecided as e_:
        good, why = False, 'not interpretable: %s' % e_
    rets = []
    rep.check(good, 'C02.h', 'highlight_escapes:emits-every-part', f.where, 'every non-empty part annotated and emitted once, in order',
              'highlight_escapes no longer emits every non-empty part of STR_LITERAL_ESCAPES.split(s) exactly once (%s): characters '
              'of the literal are lost or duplicated' % why, nontrivial=True)
    g = Guards(f.node)
    for r in ast.walk(f.node):
        if isinstance(r, ast.Return) and r.value is not None and src(r.value) == 'NIL':
            n += 1
            rep.check(any(((not ff.pol) and ff.text == f.params[0]) or (ff.pol and ff.text == 'not %s' % f.params[0]) for ff in g.of(r)), 'C02.h', 'highlight_escapes:nil-only-for-empty', f.where,
                      'NIL only for empty text', 'highlight_escapes returns NIL under %s' % g.texts(r))
    n += intersperse_rule(repo, rep, 'C02.h')
    rep.floor('C02.h', n, 4)


def intersperse_rule(repo, rep, rule):
    u = repo.module('utils')
    f = u.funcs.get('intersperse')
    if f is None:
        raise AnalysisError('utils.intersperse vanished')
    # decided on what the function computes: interpreted on sequences of 0..5 distinct elements (a list and a one-shot iterator)
    from engine.interp import Interp, Const, ListV, IterV, Undecided, Raised, PathLimit
    ok, detail = True, ''
    try:
        for k in range(0, 6):
            for one_shot in (False, True):
                it = Interp(repo, {}, max_paths=4, max_depth=60)
                it.concrete_context = True
                it.eager_generators = {'intersperse'}
                elems = [Const('e%d' % i) for i in range(k)]
                arg = IterV(list(elems)) if one_shot else ListV(list(elems))
                prs = it.explore(f, [Const('SEP'), arg], {})
                if len(prs) != 1 or prs[0].raised is not None:
                    ok, detail = False, 'intersperse(SEP, %d elements) %s' % (k, ('raises ' + prs[0].raised.what) if len(prs) == 1 else 'cannot be followed')
                    break
                got = [getattr(v, 'v', None) for v in it.iterate(prs[0].value)]
                want = []
                for i in range(k):
                    if i:
                        want.append('SEP')
                    want.append('e%d' % i)
                if got != want:
                    ok, detail = False, 'intersperse(SEP, %s) yields %s' % (['e%d' % i for i in range(k)], got)
                    break
            if not ok:
                break
    except (Undecided, PathLimit) as e:
        rep.undecided(rule, 'intersperse:every-element-with-separator-between', f.where, 'utils.intersperse cannot be interpreted: %s' % e)
        return 1
    rep.check(ok, rule, 'intersperse:every-element-with-separator-between', f.where, 'y0, (x, y1), (x, y2), ...',
              'utils.%s: elements (comment lines, string pieces) would be dropped, duplicated or left unseparated' % detail, nontrivial=True)
    return 1
