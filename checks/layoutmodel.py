"""The layout engine decided on what it computes (C04 membership, the whole-line clause of C05, the single-line corollary of C06).

layout_smart / layout_fast - best_layout, both fitting predicates, normalisation, the contextual evaluators of align / hang - are
*interpreted* (no execution of the package) on small concrete documents built through the interpreted combinators, at small page
widths and two ribbon fractions.  The emitted sdocs are turned into text (line break = newline + indentation) and compared with the
reference semantics of the document term:

  C04   the text is the rendering of the document under some assignment of flat / broken to its groups (a group with a forced
        break on its flat path is broken; align / hang indent relative to the column).  A hard line break inside a group that is
        laid out flat is tolerated here: that is the recorded finding C04.h, which has its own rule.
  C05   for some such assignment, every output line that carries text of a group laid out flat fits the page width and the ribbon
        width measured from that group's indentation (classic algebra only: text, concat, nest, group, line, softline, hardline,
        always_break, align).
  C06   a document without forced breaks whose flat rendering is one line of L columns is laid out as that line whenever
        width >= L and ribbon >= L (classic algebra).

Annotations: push / pop markers are properly nested and do not change the text."""
import itertools
import multiprocessing as mp

from engine.interp import (Const, Sym, ListV, TupleV, ObjV, TypeV, Prim, FuncV, NONE, Undecided, Raised, PathLimit, LoopLimit, prov)
from engine.loader import AnalysisError
from . import docmodel as DM

CLASSIC = {'t', 'nil', 'hl', 'line', 'soft', 'cat', 'grp', 'nest', 'ab', 'align', 'hang'}


def _kinds(t, out=None):
    out = set() if out is None else out
    out.add(t[0])
    for x in t[1:]:
        if isinstance(x, tuple):
            _kinds(x, out)
        elif isinstance(x, list):
            for y in x:
                _kinds(y, out)
    return out


def _flat_forced(t):
    k = t[0]
    if k == 'ab':
        return True
    if k in ('cat', 'fill'):
        return any(_flat_forced(x) for x in t[1])
    if k in ('grp', 'ann', 'align'):
        return _flat_forced(t[1])
    if k in ('nest', 'hang'):
        return _flat_forced(t[2])
    if k == 'fc':
        return _flat_forced(t[2])
    return False


def _text_line(buf, start_len, start_line):
    """the output line on which the first text of the group sits (a group may begin with a line break)"""
    seg = ''.join(buf[start_len:])
    lead = len(seg) - len(seg.lstrip('\n \x01\x02'))
    return start_line + seg[:lead].count('\n')


def _fresh(t):
    """a copy of the term in which every node is an object of its own (choices are keyed by node identity)"""
    return tuple([_fresh(x) if isinstance(x, tuple) else [_fresh(y) for y in x] if isinstance(x, list) else x for x in t])


def layouts(t):
    """[(text, [(group indent, first line of the group's text, line number it starts on)] for groups laid out flat)] over all assignments"""
    groups = []
    t = _fresh(t)

    def collect(t):
        k = t[0]
        if k == 'grp':
            groups.append(t)
            collect(t[1])
        elif k in ('cat', 'fill'):
            for x in t[1]:
                collect(x)
        elif k in ('ann', 'ab', 'align'):
            collect(t[1])
        elif k in ('nest', 'hang'):
            collect(t[2])
        elif k == 'fc':
            collect(t[1])
            collect(t[2])
    collect(t)
    # the separators of a fill choose flat / broken one by one
    def fill_seps(t):
        k = t[0]
        if k == 'fill':
            for i, x in enumerate(t[1]):
                if x[0] in ('fc', 'line', 'soft'):
                    groups.append(x)
                fill_seps(x)
        elif k == 'cat':
            for x in t[1]:
                fill_seps(x)
        elif k in ('ann', 'ab', 'align', 'grp'):
            fill_seps(t[1])
        elif k in ('nest', 'hang'):
            fill_seps(t[2])
        elif k == 'fc':
            fill_seps(t[1])
            fill_seps(t[2])
    fill_seps(t)
    groups = groups[:8]
    out = []
    for bits in itertools.product(['break', 'flat'], repeat=len(groups)):
        assign = {id(g): b for g, b in zip(groups, bits)}
        buf = []
        flats = []
        state = {'col': 0, 'line': 0}

        def emit(s):
            buf.append(s)
            if '\n' in s:
                state['line'] += s.count('\n')
                state['col'] = len(s) - s.rfind('\n') - 1
            else:
                state['col'] += len(s)

        def go(t, mode, indent):
            k = t[0]
            if k == 't':
                emit(t[1])
            elif k == 'nil':
                pass
            elif k == 'hl':
                emit('\n' + ' ' * max(indent, 0))
                if mode == 'flat':
                    # a hard line break inside a group laid out flat (finding C04.h): the engine's look-ahead stopped here, the groups
                    # that follow inside the same flat group are measured on their own
                    state['hl_in_flat'] = True
            elif k == 'line':
                m_ = mode if mode == 'flat' else assign.get(id(t), mode)
                emit(' ') if m_ == 'flat' else emit('\n' + ' ' * max(indent, 0))
            elif k == 'soft':
                m_ = mode if mode == 'flat' else assign.get(id(t), mode)
                if m_ != 'flat':
                    emit('\n' + ' ' * max(indent, 0))
            elif k in ('cat', 'fill'):
                for x in t[1]:
                    go(x, mode, indent)
            elif k == 'nest':
                go(t[2], mode, indent + t[1])
            elif k == 'align':
                go(t[1], mode, state['col'])
            elif k == 'hang':
                go(t[2], mode, state['col'] + t[1])
            elif k == 'ann':
                buf.append('\x01')
                go(t[1], mode, indent)
                buf.append('\x02')
            elif k == 'ab':
                go(t[1], 'break', indent)
            elif k == 'fc':
                m_ = mode if mode == 'flat' else assign.get(id(t), mode)
                go(t[2] if m_ == 'flat' else t[1], m_, indent)
            elif k == 'grp':
                if mode == 'flat':
                    start_line, start_len = state['line'], len(buf)
                    m_ = assign.get(id(t), 'flat') if state.get('hl_in_flat') and not _flat_forced(t[1]) else 'flat'
                    if _flat_forced(t[1]) and state.get('hl_in_flat'):
                        m_ = 'break'
                    go(t[1], m_, indent)
                    if m_ != 'flat':
                        return
                    if ''.join(buf[start_len:]).strip('\x01\x02 \n'):
                        flats.append((indent, _text_line(buf, start_len, start_line), state['line'], '\n' in ''.join(buf[start_len:])))
                elif _flat_forced(t[1]):
                    go(t[1], 'break', indent)
                else:
                    m = assign.get(id(t), 'break')
                    start_line, start_len = state['line'], len(buf)
                    saved_ = state.get('hl_in_flat', False)
                    state['hl_in_flat'] = False
                    go(t[1], m, indent)
                    state['hl_in_flat'] = saved_
                    if m == 'flat' and ''.join(buf[start_len:]).strip('\x01\x02 \n'):
                        flats.append((indent, _text_line(buf, start_len, start_line), state['line'], '\n' in ''.join(buf[start_len:])))
            else:
                raise ValueError(k)
        go(t, 'break', 0)
        out.append((''.join(buf), flats))
    return out


# ---------------------------------------------------------------------------------------------------- scenarios
def documents(tier, seed):
    a, b, c = ('t', 'a'), ('t', 'bbbb'), ('t', 'cccc')
    L, S, H, N = ('line',), ('soft',), ('hl',), ('nil',)
    g = lambda x: ('grp', x)
    cat = lambda *xs: ('cat', list(xs))
    docs = [
        g(cat(a, L, b)), g(cat(b, L, c, L, a)), cat(g(cat(a, L, b)), L, g(cat(b, L, c))), g(cat(a, L, g(cat(b, L, c)))),
        g(cat(('t', '['), ('nest', 4, cat(S, b, ('t', ','), L, c)), S, ('t', ']'))),
        g(cat(('t', 'f('), ('nest', 2, cat(S, g(cat(b, ('t', ','), L, c)), ('t', ','), L, a)), S, ('t', ')'))),
        g(cat(a, H, g(cat(b, L, c)))), cat(a, H, g(cat(b, L, c))), g(cat(a, L, ('ab', cat(b, L, c)))), ('ab', g(cat(a, L, b))),
        g(cat(a, S, a, S, a, S, a)), cat(g(cat(a, L, a)), ('nest', 6, cat(L, a, L, a, L, a))), g(('nest', 4, cat(a, L, b, L, a))), ('nest', 4, g(cat(a, L, b, L, a))),
        g(cat(b, ('align', cat(L, c, L, a)))), cat(a, ('t', ' '), ('align', g(cat(b, L, c, L, a)))), g(cat(('t', 'xx'), ('align', cat(a, L, ('align', cat(b, L, c)))))),
        ('nest', 4, cat(a, L, ('nest', -2, cat(b, L, c)))), g(cat(a, L, ('ann', g(cat(b, L, c))))), ('ann', g(cat(a, L, b))), g(cat(a, L, ('ann', ('ab', cat(b, L, c))))), g(cat(a, L, ('fc', ('ab', cat(b, H, c)), b))),
        g(('fill', [a, L, ('ab', b)])), cat(('ann', a), ('ann', cat(b, ('ann', c))), a), g(cat(a, ('fc', H, ('ab', cat(b, L, c))))),
        g(cat(('fc', cat(a, H), a), b)), g(cat(a, ('fc', cat(H, ('t', '# ')), ('t', ' ')), b)), ('fill', [b, L, c, L, a, L, b]), g(('fill', [b, L, c, L, a])),
        cat(('fill', [('t', 'lorem'), L, ('t', 'ipsum'), L]), ('t', '.')), g(cat(('fill', [b, L, c, L]), a)), ('fill', [b, L]), ('nest', 2, ('fill', [a, L, b, L, c, L, a, L, b])),
        cat(('t', '0123456789'), g(cat(a, L, a)), ('nest', 2, cat(H, ('t', 'x' * 14)))), g(cat(('t', 'x' * 9), L, a)),
        g(cat(a, L, a, H, a, L, ('t', 'dddddd'))),
        # hang(i, d) = the block starts here and its continuation lines are indented i columns further than where it started
        cat(b, ('t', ' '), ('hang', 2, cat(a, L, c, L, a))), g(cat(('t', 'xx'), ('hang', 3, g(cat(b, L, c))))), ('nest', 4, cat(a, L, ('hang', 0, cat(b, L, c)))),
        # fills whose separators are not plain line breaks (the comment builder: a broken separator starts the next comment line)
        ('fill', [('t', '# one'), ('fc', cat(H, ('t', '# ')), ('t', ' ')), ('t', 'two'), ('fc', cat(H, ('t', '# ')), ('t', ' ')), ('t', 'three')]),
        cat(b, ('t', '  '), ('nest', 4, ('fill', [('t', '# aa'), ('fc', cat(H, ('t', '# ')), ('t', ' ')), ('t', 'bb'), ('fc', cat(H, ('t', '# ')), ('t', ' ')), ('t', 'cc'),
                                                  ('fc', cat(H, ('t', '# ')), ('t', ' ')), ('t', 'dd')]))),
        g(cat(a, L, ('fill', [b, ('fc', cat(('t', ';'), H), ('t', '; ')), c, ('fc', cat(('t', ';'), H), ('t', '; ')), a]))),
        ('fill', [b, ('fc', ('t', '|'), ('t', ' ')), c, ('fc', ('t', '|'), ('t', ' ')), a]),
        cat(), ('t', ''), N, g(N), b, cat(b, c), g(cat(g(cat(g(cat(a, L, a)), L, a)), L, a)), cat(g(cat(b, L, c)), ('t', 'dddddd')),
        g(cat(b, L, c, ('nest', 8, cat(L, a)))), cat(g(cat(a, L, b)), ('nest', 3, cat(H, g(cat(c, L, c, L, c))))),
    ]
    import random
    rng = random.Random(seed or 11)

    def gen(d):
        r = rng.random()
        if d <= 0 or r < 0.3:
            return rng.choice([a, b, c, ('t', 'dd'), L, S, L, S])
        if r < 0.55:
            return ('cat', [gen(d - 1) for _ in range(rng.randint(2, 4))])
        if r < 0.75:
            return ('grp', gen(d - 1))
        if r < 0.85:
            return ('nest', rng.choice([2, 4]), gen(d - 1))
        if r < 0.9:
            return ('align', gen(d - 1))
        if r < 0.94:
            return H
        return ('ab', gen(d - 1))
    for _ in range(30 if tier != 'thorough' else 300):
        docs.append(gen(4))
    return docs


def _size(t):
    n = 1
    for x in t[1:]:
        if isinstance(x, tuple):
            n += _size(x)
        elif isinstance(x, list):
            n += sum(_size(y) for y in x)
    return n


ALWAYS_SCALE = 8


def scaled_documents(repo):
    """Scenarios scaled past every size constant the layout engine (layout / doc / doctypes / utils) compares against - plus one fixed
    small scale so that this path is exercised on a tree without such constants.  A branch that is only taken for "more than N"
    documents, columns or steps is run with more than N.  Returns ([(term, widths, fracs, spec)], mined, beyond); spec 'full' compares
    with every denoted layout, 'light' (fills with many separators: 2^n layouts) checks termination and the text only."""
    from engine import thresholds
    mods = []
    for nm in ('layout', 'doc', 'doctypes', 'utils'):
        try:
            mods.append(repo.module(nm))
        except AnalysisError:
            pass
    mined, beyond = thresholds.mine(mods, most=600)
    a, b, c = ('t', 'a'), ('t', 'bbbb'), ('t', 'cccc')
    L, S, H = ('line',), ('soft',), ('hl',)
    g = lambda x: ('grp', x)
    cat = lambda *xs: ('cat', list(xs))

    def sep(items, s_):
        out = []
        for i, x in enumerate(items):
            if i:
                out.append(s_)
            out.append(x)
        return out
    out = []
    for T in sorted(set(mined) | {ALWAYS_SCALE}):
        n = T + 2
        ab = ('t', 'ab')
        # one group of n words: flat it is 3n-1 columns
        W1 = 3 * n - 1
        out.append((g(cat(*sep([ab] * n, L))), [W1, W1 - 1, W1 + 1, max(1, W1 // 2)], [1.0], 'full'))
        out.append((g(cat(*sep([ab] * n, S))), [2 * n, 2 * n - 1], [1.0, 0.5], 'full'))
        # the same inside brackets and a nest, the way the sequence printers build it
        out.append((g(cat(('t', '['), ('nest', 4, cat(S, *sep([ab] * n, cat(('t', ','), L)))), S, ('t', ']'))), [4 * n, 4 * n - 1, 4 * n - 3], [1.0], 'full'))
        # a group followed by n unbreakable texts on its line
        out.append((cat(g(cat(a, L, a)), *([ab] * n)), [2 * n + 3, 2 * n + 2], [1.0], 'full'))
        # a block aligned / hung after a prefix of T+1 columns
        pre = ('t', 'x' * (T + 1))
        out.append((cat(pre, ('align', g(cat(b, L, c, L, a)))), [T + 1 + 8, T + 1 + 11], [1.0], 'full'))
        out.append((cat(pre, ('hang', 2, cat(b, L, c))), [T + 1 + 8], [1.0], 'full'))
        out.append((('nest', 2, cat(a, L, pre, ('align', cat(b, L, c)))), [T + 12], [1.0], 'full'))
        # a concatenation of T+1 parts where normalisation does not rebuild it: an item of a fill, the flat branch of a choice;
        # the same document object is laid out at every width, by both strategies
        out.append((('fill', [cat(*([a] * (T + 1))), L, b]), [T + 8, 4], [1.0], 'full'))
        out.append((g(cat(a, ('fc', cat(H, b), cat(*([a] * (T + 1)))), L, b)), [T + 10, T + 3, 4], [1.0], 'full'))
        out.append((cat(*([a] * (T + 1))), [T + 1, 3], [1.0], 'full'))
        # a long fill (a comment of n words), also where the indentation has reached the page width
        words = ('fill', sep([ab] * n, L))
        out.append((words, [W1, 14, 5], [1.0], 'light'))
        out.append((cat(a, ('nest', 9, cat(H, words))), [8, 9, 10, 30], [1.0], 'light'))
        out.append((cat(a, ('nest', 6, cat(H, ('fill', sep([ab] * n, ('fc', cat(H, ('t', '# ')), ('t', ' '))))))), [6, 7, 20], [1.0], 'light'))
        # pages and ribbons around the constant
        if T <= 300:
            for t in (g(cat(b, L, c, L, a)), g(cat(('t', 'abcd abcd'), L, ('t', 'abcd abcd'))), g(cat(('t', '['), ('nest', 4, cat(S, b, ('t', ','), L, c)), S, ('t', ']'))),
                      cat(g(cat(b, L, c)), ('nest', 3, cat(H, g(cat(c, L, c, L, c)))))):
                out.append((t, [T + 1, 2 * T + 1], [1.0, 0.2, 0.08], 'full'))
    return out, mined, beyond


WIDTHS = [1, 3, 4, 5, 8, 10, 12, 16, 20]
FRACS = [1.0, 0.5, 0.95]


class World(DM.World):
    def __init__(self, repo):
        DM.World.__init__(self, repo)
        self.lay = repo.module('layout')
        self.sd = repo.module('sdoctypes')
        self.it.concrete_classes |= set(self.sd.classes)
        self.it.eager_generators = {f.name for f in self.lay.funcs.values()} | {f.name for f in repo.module('utils').funcs.values()}
        self.it.max_while = 5000
        self.it.max_paths = 4

    def build(self, t):
        if t[0] == 'align':
            return self.call(self.dm, 'align', [self.build(t[1])])
        if t[0] == 'hang':
            return self.call(self.dm, 'hang', [Const(t[1]), self.build(t[2])])
        return DM.World.build(self, t)

    def layout(self, strategy, doc, width, frac):
        r = self.call(self.lay, strategy, [doc], {'width': Const(width), 'ribbon_frac': Const(frac)})
        out = []
        depth = 0
        ok_nesting = True
        for x in self.it.iterate(r):
            if isinstance(x, Const) and isinstance(x.v, str):
                out.append(x.v)
            elif isinstance(x, ObjV) and x.cls.name == 'SLine':
                i = x.attrs.get('indent')
                if not (isinstance(i, Const) and isinstance(i.v, int)):
                    raise Undecided('SLine indent %s' % prov(i))
                out.append('\n' + ' ' * max(i.v, 0))
            elif isinstance(x, ObjV) and x.cls.name == 'SAnnotationPush':
                depth += 1
                out.append('\x01')
            elif isinstance(x, ObjV) and x.cls.name == 'SAnnotationPop':
                depth -= 1
                out.append('\x02')
                ok_nesting = ok_nesting and depth >= 0
            else:
                raise Undecided('the layout emits %s' % prov(x))
        return ''.join(out), ok_nesting and depth == 0


def _show(t):
    r = DM.show(t)
    if len(r) <= 160:
        return r
    return '%s ... %s (%d nodes)' % (r[:90], r[-50:], _size(t))


def _texts(t):
    k = t[0]
    if k == 't':
        return t[1]
    if k in ('cat', 'fill'):
        return ''.join(_texts(x) for x in t[1])
    if k in ('grp', 'ann', 'align', 'ab'):
        return _texts(t[1])
    if k in ('nest', 'hang'):
        return _texts(t[2])
    return ''


def _light(w, t, doc, widths, fracs, res):
    """fills with many separators (the reference would enumerate 2^n layouts): the layout terminates, does not raise, and emits the
    texts of the document in order (separators here are blanks, line breaks and comment leaders)"""
    want = _texts(t).replace(' ', '')
    for strategy in ('layout_smart', 'layout_fast'):
        for width in widths:
            for frac in fracs:
                desc = '%s(%s, width=%d, ribbon_frac=%s)' % (strategy, _show(t), width, frac)
                try:
                    got, nested = w.layout(strategy, doc, width, frac)
                except Raised as e:
                    res['C04'][1].append('%s raises %s' % (desc, e.what))
                    continue
                except LoopLimit as e:
                    res['C04'][1].append('%s does not terminate (%s; the document has %d nodes)' % (desc, e, _size(t)))
                    res['loop'].append('%s does not terminate (%s; the document has %d nodes)' % (desc, e, _size(t)))
                    continue
                except (Undecided, PathLimit) as e:
                    if len(res['und']) < 5:
                        res['und'].append('%s: %s' % (desc, e))
                    continue
                have = got.replace('\x01', '').replace('\x02', '').replace('\n', '').replace(' ', '').replace('#', '')
                if have == want.replace('#', ''):
                    res['C04'][0] += 1
                else:
                    res['C04'][1].append('%s emits %d characters of text where the document has %d: text is lost, repeated or reordered (%r...)' % (
                        desc, len(have), len(want), got[:80]))


def _job(args):
    repo, docs, tier = args
    w = World(repo)
    res = {'C04': [0, []], 'C05': [0, []], 'C05hl': [0, []], 'C06': [0, []], 'ann': [0, []], 'und': [], 'loop': []}
    for t in docs:
        widths, fracs, spec = WIDTHS, FRACS, 'full'
        if t and t[0] == 'scaled':
            _, t, widths, fracs, spec = t
        w.it.max_while = 5000 + 60 * _size(t)
        try:
            doc = w.build(t)
        except (Raised, Undecided, PathLimit) as e:
            res['und'].append('building %s: %s' % (DM.show(t), getattr(e, 'what', e)))
            continue
        kinds = _kinds(t)
        classic = kinds <= CLASSIC
        if spec == 'light':
            _light(w, t, doc, widths, fracs, res)
            continue
        lay = layouts(t)
        texts = {}
        for text, flats in lay:
            texts.setdefault(text, []).append(flats)
        flat_text = None
        if not (_flat_forced(t) or 'hl' in kinds):
            # the rendering at unbounded width: every group flat (what is outside any group stays broken)
            flat_text = lay[-1][0] if lay else None
        for strategy in ('layout_smart', 'layout_fast'):
            for width in widths:
                for frac in fracs:
                    desc = '%s(%s, width=%d, ribbon_frac=%s)' % (strategy, _show(t), width, frac)
                    try:
                        got, nested = w.layout(strategy, doc, width, frac)
                    except Raised as e:
                        res['C04'][1].append('%s raises %s' % (desc, e.what))
                        continue
                    except LoopLimit as e:
                        res['C04'][1].append('%s does not terminate (%s; the document has %d nodes)' % (desc, e, _size(t)))
                        res['loop'].append('%s does not terminate (%s; the document has %d nodes)' % (desc, e, _size(t)))
                        continue
                    except (Undecided, PathLimit) as e:
                        if len(res['und']) < 5:
                            res['und'].append('%s: %s' % (desc, e))
                        continue
                    if nested:
                        res['ann'][0] += 1
                    else:
                        res['ann'][1].append('%s emits annotation markers that are not properly nested' % desc)
                    if got in texts:
                        res['C04'][0] += 1
                    else:
                        near = min(texts, key=lambda x: abs(len(x) - len(got))) if texts else ''
                        res['C04'][1].append('%s emits %r, which is not the rendering of the document under any assignment of flat / broken to its groups '
                                             '(e.g. %r)' % (desc, got, near))
                        continue
                    if classic:
                        ribbon = max(0, min(width, round(frac * width)))
                        lines = got.replace('\x01', '').replace('\x02', '').split('\n')
                        best = None
                        for flats in texts[got]:
                            bad = []
                            for ind, first, last, has_hl in flats:
                                for ln in range(first, last + 1):
                                    if len(lines[ln]) > width or len(lines[ln]) - max(ind, 0) > ribbon:
                                        bad.append((ind, ln, has_hl))
                                        break
                            # prefer an explanation without violations, then one whose violations all involve a hard break (finding C04.h)
                            score = (len([b_ for b_ in bad if not b_[2]]), len(bad))
                            if best is None or score < best[0]:
                                best = (score, bad)
                        bad = best[1] if best else []
                        plain = [b_ for b_ in bad if not b_[2]]
                        if not bad:
                            res['C05'][0] += 1
                        elif plain:
                            ind, ln, _ = plain[0]
                            res['C05'][1].append('%s emits %r: the group starting on line %d (indentation %d) is laid out flat but that line is %d columns '
                                                 'wide (page %d, ribbon %d from the group\'s indentation)' % (desc, got.replace('\x01', '').replace('\x02', ''), ln + 1, ind,
                                                                                                              len(lines[ln]), width, ribbon))
                        else:
                            ind, ln, _ = bad[0]
                            res['C05hl'][1].append('%s emits %r: a group that contains a hard line break is laid out flat (finding C04.h) and its line %d is %d '
                                                   'columns wide (page %d, ribbon %d)' % (desc, got.replace('\x01', '').replace('\x02', ''), ln + 1, len(lines[ln]), width, ribbon))
                        if flat_text is not None and '\n' not in flat_text:
                            L_ = len(flat_text.replace('\x01', '').replace('\x02', ''))
                            if width >= L_ and ribbon >= L_:
                                if got == flat_text:
                                    res['C06'][0] += 1
                                else:
                                    res['C06'][1].append('%s emits %r although the whole document fits on one line of %d columns (%r)' % (desc, got, L_, flat_text))
    return res


def _snapshot(v, seen=None):
    """structure of everything reachable from a value, with object identities: two snapshots are equal iff no reachable object was
    rebound or changed in between"""
    seen = {} if seen is None else seen
    from engine.interp import ListV, TupleV, DictV, SetV
    if isinstance(v, ObjV):
        if id(v) in seen:
            return ('ref', id(v))
        seen[id(v)] = True
        return ('obj', id(v), v.cls.name, tuple(sorted((k, _snapshot(x, seen)) for k, x in v.attrs.items())))
    if isinstance(v, (ListV, TupleV, SetV)):
        return (type(v).__name__, id(v), tuple(_snapshot(x, seen) for x in v.items))
    if isinstance(v, DictV):
        return ('dict', id(v), tuple((_snapshot(k, seen), _snapshot(x, seen)) for k, x in v.items))
    if isinstance(v, Const):
        return ('const', repr(v.v))
    return ('other', id(v))


_IMM_CACHE = {}


def immutability(repo, tier):
    """Documents handed to the layout are not modified by it (they may be shared: module-level constants such as LINE, documents kept by
    a caller, documents laid out by two threads): every hand-written model document is built through the public combinators and laid
    out by both strategies at a few widths - twice - and everything reachable from it (and from the module constants) is compared
    with a snapshot taken before.  Returns (number of layouts compared, [descriptions of modifications], [undecided])."""
    key = (id(repo), tier)
    if key in _IMM_CACHE and _IMM_CACHE[key][0] is repo:
        return _IMM_CACHE[key][1]
    w = World(repo)
    docs = documents('quick', 0)
    docs = [(t, (1, 8, 20)) for t in docs[:len(docs) - 30]]
    # and the scenarios scaled past the size constants of the engine (a long concatenation consumed in slices, ...)
    docs += [(t, tuple(ws[:2])) for t, ws, fr, spec in scaled_documents(repo)[0] if _size(t) <= 700]
    consts = [w.NIL, w.HL, w.LINE, w.SOFT]
    n, bad, und = 0, [], []
    for t, widths_ in docs:
        w.it.max_while = 5000 + 60 * _size(t)
        try:
            doc = w.build(t)
            before = (_snapshot(doc), [_snapshot(c) for c in consts])
            ndoc = w.call(w.dt, 'normalize_doc', [doc])
            if (_snapshot(doc), [_snapshot(c) for c in consts]) != before:
                bad.append('normalize_doc(%s) modifies the document it is given (or a module-level constant inside it)' % _show(t))
                continue
            # a normalised document may be kept and laid out again
            keep = _snapshot(ndoc) if tier == 'never' else None
        except (Raised, Undecided, PathLimit) as e:
            und.append('building %s: %s' % (_show(t), getattr(e, 'what', e)))
            continue
        for strategy in ('layout_smart', 'layout_fast'):
            for width in widths_:
                desc = '%s(%s, width=%d)' % (strategy, _show(t), width)
                try:
                    w.layout(strategy, doc, width, 1.0)
                    w.layout(strategy, doc, width, 0.5)
                except Raised:
                    continue        # reported by the layout rule itself
                except (Undecided, PathLimit) as e:
                    if len(und) < 4:
                        und.append('%s: %s' % (desc, e))
                    continue
                n += 1
                after = (_snapshot(doc), [_snapshot(c) for c in consts])
                if after != before:
                    bad.append('%s modifies the document it is given (or a module-level constant such as LINE inside it): a document shared between '
                               'calls or threads changes under the other user' % desc)
                    break
            else:
                continue
            break
    out = (n, bad, und)
    _IMM_CACHE.clear()
    _IMM_CACHE[key] = (repo, out)
    return out


_ARGS = None


def _worker(i):
    repo, chunks, tier = _ARGS
    return _job((repo, chunks[i], tier))


_RUN_CACHE = {}


def _run_all(repo, docs, tier):
    global _ARGS
    jobs = 1 if mp.current_process().daemon else min(16, mp.cpu_count() or 1)
    results = None
    if jobs > 1:
        chunks = [docs[i::jobs] for i in range(jobs)]
        try:
            _ARGS = (repo, chunks, tier)
            with mp.get_context('fork').Pool(jobs) as pool:
                results = pool.map(_worker, range(jobs))
        except (OSError, ValueError):
            results = None
        finally:
            _ARGS = None
    if results is None:
        results = [_job((repo, docs, tier))]
    tot = {'C04': [0, []], 'C05': [0, []], 'C05hl': [0, []], 'C06': [0, []], 'ann': [0, []], 'und': [], 'loop': []}
    for r in results:
        for k in ('C04', 'C05', 'C05hl', 'C06', 'ann'):
            tot[k][0] += r[k][0]
            tot[k][1] += r[k][1]
        tot['und'] += r['und']
        tot['loop'] += r.get('loop', [])
    return tot


def run(repo, rep, rules):
    """rules: subset of {'C04': rule, 'C05': rule, 'C06': rule, 'ann': rule}; returns the instance count"""
    docs = documents(rep.tier, rep.seed)
    scaled, mined, beyond = scaled_documents(repo)
    # the big ones first: the chunks are dealt round-robin
    scaled.sort(key=lambda x: -_size(x[0]) * len(x[1]) * len(x[2]))
    docs = [('scaled',) + x for x in scaled] + docs
    rep.note('layout model: size constants read by the layout engine: %s; %d scenarios scaled past them (and past %d)%s' % (
        {k: v[:2] for k, v in mined.items()} or 'none', len(scaled), ALWAYS_SCALE, ('; beyond the model: %s' % beyond) if beyond else ''))
    World(repo)         # fail early
    ck = (id(repo), rep.tier, rep.seed)
    if ck in _RUN_CACHE and _RUN_CACHE[ck][0] is repo:
        tot = _RUN_CACHE[ck][1]
    else:
        tot = _run_all(repo, docs, rep.tier)
        _RUN_CACHE.clear()
        _RUN_CACHE[ck] = (repo, tot)
    where = repo.module('layout').relpath
    names = {'C04': 'layout-is-a-denoted-layout', 'C05': 'flat-group-line-fits', 'C06': 'one-line-when-it-fits', 'ann': 'annotation-markers-nested'}
    floors = {'C04': 500, 'C05': 300, 'C06': 100, 'ann': 500}
    n = 0
    for k, rule in rules.items():
        if k == 'loop':
            continue
        okc, bad = tot[k]
        n += 1
        if bad:
            for i, d in enumerate(sorted(bad, key=len)[:4]):
                rep.fail(rule, names[k] if i == 0 else '%s#%d' % (names[k], i + 1), where, d)
        else:
            rep.check(okc >= floors[k] or bool(tot['und']), rule, names[k], where, 'held on %d interpreted layouts' % okc, 'only %d layouts could be compared' % okc, nontrivial=True)
    if 'C05' in rules and tot['C05hl'][1]:
        n += 1
        rep.fail(rules['C05'], 'flat-group-line-fits:hard-line-break-inside-flat-group', where, sorted(tot['C05hl'][1], key=len)[0])
    for u in tot['und'][:4]:
        n += 1
        rep.undecided(list(rules.values())[0], 'layout-model-interpretable', where, u)
    for T, wh in beyond.items():
        n += 1
        rep.undecided(list(rules.values())[0], 'layout-model-scale', where, 'the layout engine decides on the size constant %d (%s): no scenario of the '
                      'model is that large' % (T, wh[0]))
    if 'loop' in rules:
        n += 1
        if tot['loop']:
            rep.fail(rules['loop'], 'layout-terminates', where, sorted(tot['loop'], key=len)[0])
        else:
            rep.check(True, rules['loop'], 'layout-terminates', where, 'every interpreted layout terminated', '', nontrivial=True)
    rep.count(sum(tot[k][0] for k in ('C04', 'C05', 'C06', 'ann')))
    rep.analysed['layout_documents'] = len(docs)
    return n
