"""C13 -- cycles are cut exactly at back-references; shared substructure prints in full."""
import ast

from engine import facts
from engine.astutil import src, call_name, dotted, enclosing_map
from engine.loader import AnalysisError
from . import wrapper as W

META = {
    'text': 'python_to_sdocs, pretty_python_value, the wrapper, the context class and the recursion marker are interpreted '
            '(no execution) on small object graphs - shared sub-values, self loops, two- and three-node cycles with chords,'
            ' cycles through trailing-commented references, instances of built-in containers and of subclasses of atomic ty'
            'pes occurring several times - with printers as opaque behaviours: a value is replaced by the marker exactly wh'
            'en it is being printed higher up on the same path, everything else prints in full, nothing stays marked afterw'
            'ards (a); the context class interpreted: the visited set is shared by all derived contexts, keyed by id(value)'
            ', created per top-level call, and nobody but the class and the entry point builds a context or calls its priva'
            'te copier (b,c); visit pairing on every path of the wrapper incl. exceptions (typestate) and who-may-touch on '
            'the visited set.',
    'note': 'trusts that set.add/remove on ids do not raise; calls other than a few total builtins are assumed able to rais'
            'e any Exception (that is what makes the unreleased-exit rule bite)',
    'technique': 'static analysis: abstract interpretation of the wrapper pipeline on small-scope object graphs; typestate dataf'
                 'low; who-may-call',
}
META['text'] += ' Child documents are produced inside the visit window: lazy parameters are iterated completely on entry, generators of child prints are consumed in the printer, and no value is printed from inside a contextual evaluator (layout time).'
META['text'] += ' Round 5: the wrapper model prints the same acyclic container referenced T+2 times (T: size constants of wrapper and context, mined): every reference in full; a membership test on the visited set is a read, not a touch; registrations enter the live registry inside the wrapper.'

LEAF_KEYS = {'str', 'bytes', 'int', 'float', 'bool', 'type(None)', 'type(...)'}


def _membership_only(f, node):
    """the attribute read ``node`` is the container of an ``in`` / ``not in`` test, or is bound to a local name whose every use is"""
    from engine.astutil import enclosing_map
    par = enclosing_map(f.node)

    def is_container_of_test(x):
        p = par.get(id(x))
        return isinstance(p, ast.Compare) and len(p.ops) == 1 and isinstance(p.ops[0], (ast.In, ast.NotIn)) and p.comparators[0] is x
    if is_container_of_test(node):
        return True
    p = par.get(id(node))
    if isinstance(p, ast.Assign) and p.value is node and len(p.targets) == 1 and isinstance(p.targets[0], ast.Name):
        name = p.targets[0].id
        stores = [x for x in ast.walk(f.node) if isinstance(x, ast.Name) and x.id == name and isinstance(x.ctx, ast.Store)]
        loads = [x for x in ast.walk(f.node) if isinstance(x, ast.Name) and x.id == name and isinstance(x.ctx, ast.Load)]
        return len(stores) == 1 and bool(loads) and all(is_container_of_test(x) for x in loads)
    return False


def run(repo, rep):
    rep.explanation = ('R-PAIR typestate on the wrapper (C13.a), R-WHO on the visited set (C13.b), freshness of the '
                       'top-level set (C13.c), wrapping of every registered printer and leaf-only bypasses (C13.d), '
                       'child generators consumed in the window / no printing from contextual evaluators (C13.e).')
    rep.not_decided = 'marker text; object graphs through user types; termination as such (see C12).'
    rep.assumptions = ['set.add / set.remove of an id do not raise', 'any other non-trivial call may raise an Exception']
    m = repo.module('prettyprinter')
    roles = W.context_roles(repo)
    wfn = facts.wrapper_function(repo)

    # ---------------------------------------------------------------- C13.a
    n = W.visit_pairing(repo, rep, 'C13.a')
    rep.floor('C13.a', n, 6)
    # the wrapper, the context class and the entry point interpreted on small object graphs (cycles, chords, shared values,
    # trailing-commented references) against the specification: marker exactly for a value being printed higher up on the path
    from . import wrapper_model
    rep.floor('C13.a:model', wrapper_model.run(repo, rep, 'C13'), 12)

    # ---------------------------------------------------------------- C13.b
    n = 0
    field = roles['field']
    ci = roles['cls']
    allowed = {roles['acquire'].name, roles['release'].name if roles['release'] else None,
               roles['test'].name if roles['test'] else None, '__init__'}
    from . import ctxmodel
    n += ctxmodel.report(repo, rep, 'C13.b', lambda k: k.startswith('visit:') or k.endswith(':keeps:visited') or k.endswith(':returns-new-context'),
                         'the visited set must be the id()-keyed DFS path shared by all derived contexts')
    # who touches the field
    for f in repo.all_functions():
        for nnode in ast.walk(f.node):
            if isinstance(nnode, ast.Attribute) and nnode.attr == field:
                owner_ok = f.cls is ci and f.name in allowed
                # reads through getattr in _replace are by name, not attribute: fine
                par = None
                if not owner_ok and isinstance(nnode.ctx, ast.Load) and _membership_only(f, nnode):
                    # looked at, not touched: `id(x) in ctx.visited` (directly or through a local name used for nothing else) asks the
                    # question is_visited asks and changes nothing
                    n += 1
                    rep.ok('C13.b', '%s:reads-visited:membership' % f.qualname, '%s:%d' % (f.module.relpath, nnode.lineno), 'membership test only')
                    continue
                if not owner_ok:
                    n += 1
                    rep.fail('C13.b', '%s:touches-visited' % f.qualname, '%s:%d' % (f.module.relpath, nnode.lineno),
                             '%s accesses the visited set directly; only %s may' % (f.key, sorted(x for x in allowed if x)))
    # nobody passes visited= when deriving a context
    for f in repo.all_functions(core_only=True):
        for c in ast.walk(f.node):
            if isinstance(c, ast.Call) and (call_name(c).endswith('_replace') or call_name(c) == ci.name):
                for k in c.keywords:
                    if k.arg == field and f.name != 'python_to_sdocs' and not (f.cls is ci and f.name == '_replace'):
                        n += 1
                        rep.fail('C13.b', '%s:passes-visited' % f.qualname, '%s:%d' % (f.module.relpath, c.lineno),
                                 '%s builds a context with its own %s=%s' % (f.key, field, src(k.value)))
    rep.floor('C13.b', n, 8)

    # ---------------------------------------------------------------- C13.c
    n = 0
    from . import entrymodel
    n += entrymodel.report(repo, rep, 'C13.c', lambda k: k in ('ctx:visited-fresh-per-call', 'context-is-a-PrettyContext', 'given:single-path'),
                           'two top-level calls must not share a visited set')
    n += ctxmodel.report(repo, rep, 'C13.c', lambda k: k in ('ctor:fresh-visited', 'ctor:stores:visited'),
                         'every top-level call must get its own visited set')
    for name, vals in m.assigns.items():
        v = vals[-1]
        if isinstance(v, ast.Call) and call_name(v) == 'set' and 'visit' in name.lower():
            n += 1
            rep.fail('C13.c', 'module-level-set:%s' % name, m.relpath, 'module-level visited set %s' % name)
    n += ctxmodel.construction_sites(repo, rep, 'C13.c', 'the visited set must be created per top-level call and shared by every context derived in it')
    rep.floor('C13.c', n, 4)

    # ---------------------------------------------------------------- C13.d
    n = 0
    rpf = m.funcs.get('register_pretty')
    if rpf is None:
        raise AnalysisError('register_pretty vanished')
    for c in ast.walk(rpf.node):
        if isinstance(c, ast.Call) and call_name(c).endswith('.register') and 'dispatch' in call_name(c):
            n += 1
            a = c.args[1] if len(c.args) > 1 else None
            ok = isinstance(a, ast.Call) and call_name(a) == 'partial' and len(a.args) == 2 \
                and src(a.args[0]) == wfn.name
            rep.check(ok, 'C13.d', 'register_pretty:wraps', '%s:%d' % (m.relpath, c.lineno),
                      'registered printer runs under the wrapper',
                      'a printer is registered as %s, not as partial(%s, fn): it runs outside the visit window'
                      % (src(a) if a is not None else '?', wfn.name), nontrivial=True)
    base = m.assigns.get(__import__('engine.roles', fromlist=['x']).name(repo, 'base_dispatch'))
    n += 1
    okb = bool(base) and isinstance(base[-1], ast.Call) and call_name(base[-1]) == 'partial' \
        and src(base[-1].args[0]) == wfn.name
    rep.check(okb, 'C13.d', 'base-dispatch:wraps', m.relpath, 'base printer runs under the wrapper',
              'the base dispatch is %s' % (src(base[-1]) if base else 'missing'))
    _R = __import__('engine.roles', fromlist=['x'])
    sd = m.assigns.get(_R.name(repo, 'dispatch'))
    n += 1
    rep.check(bool(sd) and isinstance(sd[-1], ast.Call) and call_name(sd[-1]).endswith('singledispatch') and len(sd[-1].args) == 1
              and src(sd[-1].args[0]) == _R.name(repo, 'base_dispatch'), 'C13.d', 'dispatch:built-on-wrapped-base', m.relpath,
              'dispatcher built on the wrapped base', 'pretty_dispatch is %s' % (src(sd[-1]) if sd else 'missing'))
    # direct printer-to-printer calls
    regs = facts.registry(repo)
    reg_fns = {}
    for r in regs:
        if r.fn is not None and r.kind != 'predicate':
            reg_fns.setdefault(r.fn.key, (r.fn, set()))[1].add(r.key)
    for f in repo.all_functions(core_only=True):
        for c in ast.walk(f.node):
            if isinstance(c, ast.Call) and isinstance(c.func, ast.Name):
                r = repo.resolve(f.module, c.func.id)
                if r and r[0] == 'func' and r[1].key in reg_fns and r[1] is not f:
                    keys = reg_fns[r[1].key][1]
                    n += 1
                    own_value = bool(c.args) and bool(f.params) and src(c.args[0]) == f.params[0] \
                        and f.parent is None
                    rep.check(keys <= LEAF_KEYS or own_value, 'C13.d', '%s:direct-call:%s' % (f.qualname, r[1].name),
                              '%s:%d' % (f.module.relpath, c.lineno), 'only leaf printers are called outside the wrapper',
                              '%s calls the registered printer %s (for %s) directly, outside the wrapper: no visit is '
                              'recorded for that value' % (f.key, r[1].name, sorted(keys)), nontrivial=True)
    rep.floor('C13.d', n, 4)

    # ---------------------------------------------------------------- C13.e
    n = 0
    RECURSIVE = {'pretty_python_value', 'pretty_dispatch', 'pretty_call', 'pretty_call_alt'}
    CONSUMERS = {'list', 'tuple', 'concat', 'fill', 'sorted', 'dict', 'OrderedDict'}
    TRANSPARENT = {'chain', 'intersperse', 'take', 'islice', 'reversed', 'iter', 'enumerate', 'zip'}
    pkg_consumers = {}
    for fname in ('sequence_of_docs', 'build_fncall'):
        f = m.funcs.get(fname)
        if f is None:
            raise AnalysisError('%s vanished' % fname)
        # parameters materialised on entry: the first top-level statement that mentions the parameter iterates it completely
        # (list(p) / tuple(p) / sorted(p), or a list / dict / set comprehension over it)
        consumed = set()
        for prm in f.params:
            for s in f.node.body:
                if not any(isinstance(x, ast.Name) and x.id == prm for x in ast.walk(s)):
                    continue
                if isinstance(s, ast.Assign) and _eager_over(s.value, prm):
                    consumed.add(prm)
                break
        pkg_consumers[fname] = (f, consumed)
    lazy_params = {'sequence_of_docs': ['docs'], 'build_fncall': ['argdocs', 'kwargdocs']}
    for fname, (f, consumed) in pkg_consumers.items():
        for p in lazy_params[fname]:
            if p in f.params:
                n += 1
                rep.check(p in consumed, 'C13.e', '%s:consumes:%s' % (fname, p), f.where,
                          'lazy child documents are materialised on entry',
                          '%s no longer materialises %s with list(...) on entry: child printing is deferred past the '
                          'visit window of the caller' % (fname, p), nontrivial=True)
    _REPO[0] = repo
    for f in repo.all_functions(core_only=True):
        par = enclosing_map(f.node)
        for g in ast.walk(f.node):
            if not isinstance(g, ast.GeneratorExp):
                continue
            if not any(isinstance(c, ast.Call) and call_name(c) in RECURSIVE for c in ast.walk(g)):
                continue
            n += 1
            ok, why = _consumed(g, par, f, CONSUMERS, TRANSPARENT, set(pkg_consumers))
            rep.check(ok, 'C13.e', '%s:child-generator@%s' % (f.qualname, _short(g)), '%s:%d' % (f.module.relpath, g.lineno),
                      'generator of child documents is consumed within the printer',
                      'lazy generator of child prints in %s %s: children would be printed after the visit ended'
                      % (f.key, why), nontrivial=True)
    # no recursive print inside a contextual evaluator (core only; extras noted)
    for f in repo.all_functions():
        if f.parent is None:
            continue
        used_ctx = any(isinstance(c, ast.Call) and call_name(c) in ('contextual', 'Contextual')
                       and c.args and src(c.args[0]) == f.name for c in ast.walk(f.parent.node))
        if not used_ctx:
            continue
        rec = [c for c in ast.walk(f.node) if isinstance(c, ast.Call) and call_name(c) in RECURSIVE
               and not _constant_args(c)]
        if '.extras' in f.module.name:
            if rec:
                rep.note('%s prints values from inside a contextual evaluator (extras; outside the property\'s '
                         'container domain)' % f.key)
            continue
        n += 1
        rep.check(not rec, 'C13.e', '%s:no-print-in-evaluator' % f.qualname, f.where,
                  'no recursive print at layout time',
                  '%s prints a value from inside a contextual evaluator (line %s): that runs at layout time, after '
                  'every visit has ended' % (f.key, [c.lineno for c in rec]), nontrivial=True)
    rep.floor('C13.e', n, 5)
    rep.floor('C13.f', _marker(repo, rep), 1)


def _eager_over(v, prm):
    """the expression iterates the parameter ``prm`` to the end when it is evaluated"""
    def is_p(x):
        if isinstance(x, ast.Name) and x.id == prm:
            return True
        if isinstance(x, ast.Call) and call_name(x) in ('map', 'filter') and len(x.args) == 2:
            return is_p(x.args[1])
        return isinstance(x, ast.Call) and call_name(x) in ('list', 'tuple', 'sorted', 'enumerate', 'reversed', 'iter') and x.args and is_p(x.args[0])
    if isinstance(v, ast.Call) and call_name(v) in ('list', 'tuple', 'sorted') and v.args and is_p(v.args[0]):
        return True
    if isinstance(v, (ast.ListComp, ast.SetComp, ast.DictComp)) and is_p(v.generators[0].iter):
        return True
    if isinstance(v, (ast.List, ast.Tuple)) and len(v.elts) == 1 and isinstance(v.elts[0], ast.Starred) and is_p(v.elts[0].value):
        return True
    return False


def _short(g):
    return src(g.elt)[:40].replace('\n', ' ')


def _constant_args(c):
    """pretty_call_alt(ctx, constructor, args=(..., )) -- only constants are printed"""
    if call_name(c) not in ('pretty_call', 'pretty_call_alt'):
        # a direct print entry: constant only when the value printed is a literal
        v = c.args[0] if c.args else next((k.value for k in c.keywords if k.arg == 'value'), None)
        return v is not None and all(isinstance(x, (ast.Constant, ast.Tuple, ast.List, ast.Load)) for x in ast.walk(v))
    for k in c.keywords:
        if k.arg in ('args', 'kwargs'):
            if not all(isinstance(x, (ast.Constant, ast.Tuple, ast.List, ast.Load)) for x in ast.walk(k.value)):
                return False
    pos = c.args[2:]
    return all(all(isinstance(x, (ast.Constant, ast.Tuple, ast.List, ast.Load)) for x in ast.walk(a)) for a in pos)


_REPO = [None]


def _consumed(g, par, f, consumers, transparent, pkg_consumers, depth=0):
    if depth > 6:
        return False, 'flows too far to follow'
    p = par.get(id(g))
    if isinstance(p, ast.keyword):
        p2 = par.get(id(p))
        if isinstance(p2, ast.Call) and call_name(p2) in pkg_consumers | consumers:
            return True, ''
        return False, 'is passed as %s= to %s' % (p.arg, call_name(p2) if isinstance(p2, ast.Call) else '?')
    if isinstance(p, ast.Call):
        cn = call_name(p)
        if cn in consumers or cn in pkg_consumers:
            return True, ''
        if cn in transparent or cn.split('.')[-1] in ('join',):
            if cn.split('.')[-1] == 'join':
                return True, ''
            return _consumed(p, par, f, consumers, transparent, pkg_consumers, depth + 1)
        return False, 'is passed to %s' % cn
    if isinstance(p, ast.Assign) and len(p.targets) == 1 and isinstance(p.targets[0], ast.Name):
        name = p.targets[0].id
        uses = [x for x in ast.walk(f.node) if isinstance(x, ast.Name) and x.id == name and isinstance(x.ctx, ast.Load)
                and x.lineno > (p.end_lineno or p.lineno)]
        if not uses:
            return False, 'is assigned to %s and never consumed' % name
        for u in uses:
            ok, why = _consumed(u, par, f, consumers, transparent, pkg_consumers, depth + 1)
            if not ok:
                return False, 'via %s %s' % (name, why)
        return True, ''
    if isinstance(p, (ast.IfExp, ast.Starred, ast.List, ast.Tuple)):
        if isinstance(p, (ast.List, ast.Tuple)) and not isinstance(g, ast.Starred):
            return False, 'is stored unconsumed in a literal'
        return _consumed(p, par, f, consumers, transparent, pkg_consumers, depth + 1)
    if isinstance(p, ast.Return):
        # returned by a private helper: consumed iff every caller in the package consumes the helper's result
        repo_ = _REPO[0]
        if repo_ is not None and f.parent is None and f.name.startswith('_') and not f.name.startswith('__'):
            sites_ = []
            for g2 in repo_.all_functions(core_only=True):
                for c in ast.walk(g2.node):
                    if isinstance(c, ast.Call) and isinstance(c.func, ast.Name) and c.func.id == f.name:
                        r_ = repo_.resolve(g2.module, f.name)
                        if r_ and r_[0] == 'func' and r_[1] is f:
                            sites_.append((g2, c))
            if sites_:
                for g2, c in sites_:
                    ok, why = _consumed(c, enclosing_map(g2.node), g2, consumers, transparent, pkg_consumers, depth + 1)
                    if not ok:
                        return False, 'is returned to %s, where it %s' % (g2.name, why)
                return True, ''
        return False, 'is returned unconsumed'
    if isinstance(p, ast.Expr):
        return False, 'is discarded'
    return False, 'flows into %s' % type(p).__name__


def _marker(repo, rep):
    m = repo.module('prettyprinter')
    f = m.funcs.get(__import__('engine.roles', fromlist=['x']).name(repo, 'recursion_marker'))
    if f is None:
        for g in m.funcs.values():
            if 'recursion' in g.name.lower():
                f = g
    n = 1
    if f is None:
        rep.fail('C13.f', 'marker:exists', m.relpath, 'recursion marker function vanished')
        return n
    v = f.params[0]
    txt = src(f.node)
    rep.check('type(%s).__name__' % v in txt and 'id(%s)' % v in txt and 'Recursion' in txt, 'C13.f', 'marker:names-type-and-identity', f.where,
              'marker names the type and the identity of the value', 'the recursion marker no longer mentions type(value).__name__ and id(value)',
              nontrivial=True)
    return n
