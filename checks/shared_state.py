"""Shared-state analyses used by C19 (purity) and C20 (thread safety)."""
import ast

from engine import effects
from engine.astutil import src, call_name, dotted, Guards, enclosing_map
from engine.loader import AnalysisError

# write sites of module-level state allowed inside the print cone, with the reason each is
# harmless for history independence (C19.a) and for concurrent printing (C20.b)
ALLOWED_CONE_WRITES = {
    ('_DEFERRED_DISPATCH_BY_NAME', 'is_registered', 'pop'):
        'deferred->live promotion: a move whose result does not depend on when it happens (C15.d)',
    ('pretty_dispatch', 'is_registered', 'register'):
        'deferred->live promotion done by the lookup itself: registers the printer the user supplied for that class (C15.d)',
    ('_DEFERRED_DISPATCH_BY_NAME', 'register_pretty.<locals>.decorator', 'pop'):
        'a direct registration drops an older pending registration by name for the same class (after publishing; C15.i)',
    ('pretty_dispatch', 'register_pretty.<locals>.decorator', 'register'):
        'promotion target / user registration: registers the printer the user supplied for that class',
    ('_DEFERRED_DISPATCH_BY_NAME', 'register_pretty.<locals>.decorator', 'setitem'):
        'user registration by name (reachable from the cone only through promotion with a class key)',
    ('_PREDICATE_REGISTRY', 'register_pretty.<locals>.decorator', 'append'):
        'user registration by predicate (not executed on the promotion path: type is given)',
    ('_cnamedtuple_fieldnames_by_class', 'pretty_cnamedtuple', 'setitem'):
        'struct-sequence field-name cache: the value is a function of the class only',
}

REMOVERS = {'pop', 'popitem', 'remove', 'clear', 'delitem', 'discard'}


def cone_inventory(repo):
    cone, graph, fns = effects.print_cone(repo)
    shared = effects.shared_objects(repo)
    sites = effects.sites(repo, shared)
    cone_sites = [s for s in sites if s.fn is not None and s.fn.key in cone]
    return cone, shared, sites, cone_sites


def locks(repo):
    out = {}
    for mn, m in repo.modules.items():
        for name, vals in m.assigns.items():
            v = vals[-1]
            if isinstance(v, ast.Call) and call_name(v).split('.')[-1] in ('Lock', 'RLock'):
                out[(mn, name)] = v
    return out


def held_locks(node, fn_node, lock_names):
    """names of module-level locks held at node via enclosing ``with L:``"""
    par = enclosing_map(fn_node)
    held = set()
    p = par.get(id(node))
    while p is not None:
        if isinstance(p, ast.With):
            for it in p.items:
                d = dotted(it.context_expr)
                if d in lock_names:
                    held.add(d)
        p = par.get(id(p))
    return held


_CANON = {'deferred_store': '_DEFERRED_DISPATCH_BY_NAME', 'predicate_store': '_PREDICATE_REGISTRY', 'dispatch': 'pretty_dispatch',
          'cnamedtuple_cache': '_cnamedtuple_fieldnames_by_class'}


def _canonical(repo, actual):
    """the historical name of a module-level store, whatever it is called in this tree (the allow-list is keyed by role)"""
    from engine import roles
    r = roles.roles(repo)
    for role, canon in _CANON.items():
        if r.get(role) == actual:
            return canon
    return actual


_OWNER_CACHE = {}


def owner_qualname(repo, fn, owners):
    """a private helper that is called only (transitively) from one of ``owners`` acts for that owner: extracting a block of
    is_registered into _helper() does not create a new writer of the stores"""
    if fn.qualname in owners:
        return fn.qualname
    key = id(repo)
    if key not in _OWNER_CACHE or _OWNER_CACHE[key][0] is not repo:
        graph, fns = effects.call_graph(repo)
        callers = {}
        for caller, callees in graph.items():
            for c in callees:
                callers.setdefault(c, set()).add(caller)
        _OWNER_CACHE.clear()
        _OWNER_CACHE[key] = (repo, callers, fns)
    _, callers, fns = _OWNER_CACHE[key]
    seen = set()
    frontier = {fn.key}
    found = set()
    for _ in range(4):
        nxt = set()
        for k in frontier:
            cs = callers.get(k, set()) - seen
            if not cs:
                # no callers inside the package: a public function in its own right
                found.add(fns[k].qualname if k in fns else k)
            for c in cs:
                seen.add(c)
                q = fns[c].qualname if c in fns else c
                if q in owners:
                    found.add(q)
                else:
                    nxt.add(c)
        frontier = nxt
        if not frontier:
            break
    if frontier:
        return fn.qualname
    if len(found) == 1 and fn.name.startswith('_'):
        return next(iter(found))
    return fn.qualname


def owners_of(repo, fn, owners):
    """the set of functions a private helper acts for: every listed owner (or public function) that reaches it through private
    helpers; the helper itself when it is public, an owner, or cannot be followed"""
    if fn.qualname in owners or not fn.name.startswith('_') or fn.name.startswith('__'):
        return {fn.qualname}
    owner_qualname(repo, fn, owners)        # fills the cache
    _, callers, fns = _OWNER_CACHE[id(repo)]
    seen = {fn.key}
    frontier = {fn.key}
    found = set()
    for _ in range(6):
        nxt = set()
        for k in frontier:
            all_cs = callers.get(k, set()) - {k}
            cs = all_cs - seen
            if not all_cs and k != fn.key:
                found.add(fns[k].qualname if k in fns else k)
            if not all_cs and k == fn.key:
                return {fn.qualname}        # nobody calls it: it stands for itself
            for c in cs:
                seen.add(c)
                f_ = fns.get(c)
                q = f_.qualname if f_ is not None else c
                if q in owners or f_ is None or not f_.name.startswith('_') or f_.name.startswith('__'):
                    found.add(q)
                else:
                    nxt.add(c)
        frontier = nxt
        if not frontier:
            break
    if frontier or not found:
        return {fn.qualname}
    return found


STRUCTSEQ_REPRS = [
    # (repr of a struct sequence as CPython writes it: typename(name=repr(element), ...), its field names)
    ("time.struct_time(tm_year=2020, tm_mon=1, tm_mday=2)", ('tm_year', 'tm_mon', 'tm_mday')),
    ("pwd.struct_passwd(pw_name='x', pw_gecos='Alice A., room=12', pw_dir='/')", ('pw_name', 'pw_gecos', 'pw_dir')),
    ("os.stat_result(st_mode=33188, st_ino=-1)", ('st_mode', 'st_ino')),
    ("T(a=Foo(b=1), c=[1, 2], d={'k=': 'v, e=1'})", ('a', 'c', 'd')),
    ("posix.uname_result(sysname='Linux', nodename='h(ost=1)')", ('sysname', 'nodename')),
]


def _straight_defs(fn_node, stmt):
    """name -> value expression of the last plain assignment to it that precedes ``stmt`` in the statement list that contains
    ``stmt`` (nothing in between can skip it)"""
    for parent in ast.walk(fn_node):
        for field in ('body', 'orelse', 'finalbody'):
            block = getattr(parent, field, None)
            if isinstance(block, list) and any(x is stmt for x in block):
                out = {}
                for x in block[:[i for i, y in enumerate(block) if y is stmt][0]]:
                    if isinstance(x, ast.Assign) and len(x.targets) == 1 and isinstance(x.targets[0], ast.Name):
                        out[x.targets[0].id] = x.value
                    else:
                        for w in ast.walk(x):
                            if isinstance(w, ast.Name) and isinstance(w.ctx, ast.Store):
                                out.pop(w.id, None)
                return out
    return {}


def keyed_cache_values(repo, rep, rule):
    """What the print pipeline remembers per class must be a function of the class alone (otherwise the first value of a class that
    is printed decides how all later ones print).  For every store into the class-keyed cache: the key is the class of the value, and
    the stored value is the result of one extractor call - never the exception of a failed attempt or anything else derived from the
    particular value; the extractor is interpreted on struct-sequence reprs whose elements contain commas, '=' and calls."""
    from engine import roles
    store = roles.name(repo, 'cnamedtuple_cache')
    m = repo.module('prettyprinter')
    n = 0
    extractors = {}
    for f in m.funcs.values():
        handler_names = {h.name for h in ast.walk(f.node) if isinstance(h, ast.ExceptHandler) and h.name}
        defs = {}
        for a in ast.walk(f.node):
            if isinstance(a, ast.Assign):
                for t in a.targets:
                    if isinstance(t, ast.Name):
                        defs.setdefault(t.id, []).append(a.value)
        limit = [10 ** 9]
        dominating = {}

        def origins(e, depth=0):
            if isinstance(e, ast.Constant):
                return {'const'}
            if isinstance(e, ast.Name):
                if e.id in handler_names:
                    return {'the exception of a failed attempt'}
                ds = [d for d in defs.get(e.id, []) if d.lineno <= limit[0]]
                # a definition in the same block, straight above the use, is the one that reaches it
                dom = dominating.get(e.id)
                if dom is not None:
                    ds = [dom]
                if ds and depth < 5:
                    out = set()
                    for d in ds:
                        out |= origins(d, depth + 1)
                    return out
                return {'the value being printed (%s)' % e.id} if e.id in f.params else {'%s' % e.id}
            if isinstance(e, (ast.Call, ast.Subscript)) and store in {x.id for x in ast.walk(e) if isinstance(x, ast.Name)} \
                    and (isinstance(e, ast.Subscript) or (isinstance(e.func, ast.Attribute) and e.func.attr in ('get', 'setdefault'))):
                return {'class'}        # what the cache already holds for the key
            if isinstance(e, ast.Call) and isinstance(e.func, ast.Name):
                if e.func.id == 'type' and len(e.args) == 1:
                    return {'class'}
                r = repo.resolve(f.module, e.func.id)
                if r and r[0] == 'func':
                    return {('extractor', r[1].key)}
            if isinstance(e, (ast.Tuple, ast.List)):
                out = set()
                for x in e.elts:
                    out |= origins(x, depth + 1)
                return out or {'const'}
            return {src(e)[:50]}
        stores_ = [st for st in ast.walk(f.node) if isinstance(st, ast.Assign) and any(
            isinstance(t, ast.Subscript) and isinstance(t.value, ast.Name) and t.value.id == store for t in st.targets)]
        if stores_:
            n += 1
            rep.check(len(stores_) == 1, rule, 'keyed-cache:%s:entry-published-once' % f.qualname, '%s:%d' % (m.relpath, stores_[0].lineno),
                      'an entry is stored once, with its final value',
                      '%s stores into %s at lines %s: an entry is visible to other calls (and threads) before it has its final value - a reader in '
                      'between takes the placeholder for the answer' % (f.key, store, [x.lineno for x in stores_]), nontrivial=True)
        for st in stores_:
            t = next(t for t in st.targets if isinstance(t, ast.Subscript))
            n += 1
            limit[0] = st.lineno
            dominating.clear()
            dominating.update(_straight_defs(f.node, st))
            ko = origins(t.slice)
            rep.check(ko <= {'class'}, rule, 'keyed-cache:%s:key-is-the-class' % f.qualname, '%s:%d' % (m.relpath, st.lineno),
                      'the cache is keyed by the class of the value', '%s stores into %s under a key derived from %s' % (f.key, store, sorted(map(str, ko))),
                      nontrivial=True)
            vo = origins(st.value)
            ex = {o for o in vo if isinstance(o, tuple)}
            other = sorted(str(o) for o in vo - ex - {'class', 'const'})
            n += 1
            rep.check(not other, rule, 'keyed-cache:%s:value-is-a-function-of-the-class' % f.qualname, '%s:%d' % (m.relpath, st.lineno),
                      'only the result of the field-name extractor is remembered for a class',
                      '%s remembers, for the class, something derived from %s: what is stored depends on the first value of the class that was '
                      'printed (e.g. time.struct_time((object(), 1, 2, 3, 4, 5, 6, 7, 0)) printed first makes every later struct_time print as a '
                      'plain tuple), so the output of pformat depends on the call history' % (f.key, ', '.join(other)), nontrivial=True)
            for _, k in ex:
                extractors[k] = next(ff for ff in repo.all_functions() if ff.key == k)
    # the extractor gives the field names of the class whatever the elements look like
    from engine.interp import Interp, Const, Sym, TupleV, ListV, Undecided, Raised, PathLimit
    for k, ef in sorted(extractors.items()):
        for text, names in STRUCTSEQ_REPRS:
            n += 1
            it = Interp(repo, {'repr': lambda it_, a, kw, nd, text=text: Const(text)}, max_paths=4, max_depth=60)
            it.concrete_context = True
            it.eager_generators = {ef.name}
            try:
                prs = it.explore(ef, [Sym('value')], {})
            except (Undecided, PathLimit) as e:
                rep.undecided(rule, 'keyed-cache:extractor:%s' % text.split('(')[0], ef.where, '%s cannot be interpreted on %r: %s' % (ef.name, text, e))
                continue
            got = None
            if len(prs) == 1 and prs[0].raised is None:
                try:
                    got = tuple(getattr(x, 'v', None) for x in it.iterate(prs[0].value))
                except Undecided:
                    got = None
            elif len(prs) == 1:
                got = 'raises ' + prs[0].raised.what
            rep.check(got == names, rule, 'keyed-cache:extractor:%s' % text.split('(')[0], ef.where, 'field names of the class: %s' % (names,),
                      '%s gives %s for a value whose repr is %r (field names %s): what is remembered for the class depends on the elements of the '
                      'first value printed' % (ef.name, got, text, names), nontrivial=True)
    return n


def check_write_inventory(repo, rep, rule):
    """every write to module-level state from inside the print cone is in the allow-list"""
    cone, shared, sites, cone_sites = cone_inventory(repo)
    n = 0
    seen = set()
    for s in cone_sites:
        if s.kind != 'write':
            continue
        key = (s.obj.name, s.fn.qualname, s.detail)
        if key in seen:
            continue
        seen.add(key)
        n += 1
        owners_ = {k_[1] for k_ in ALLOWED_CONE_WRITES}
        acting_for = owners_of(repo, s.fn, owners_)
        reasons_ = [ALLOWED_CONE_WRITES.get((_canonical(repo, s.obj.name), o_, s.detail)) for o_ in sorted(acting_for)]
        # a registration helper shared by the decorator and the promoting lookup: its by-name and by-predicate branches are the
        # decorator's; which branch a promotion takes (and that lookups leave the registries as the rule says) is decided on the
        # interpreted histories of the registry model (C15.b / C15.d / C15.i), not by who contains the statement
        DECO = 'register_pretty.<locals>.decorator'
        if DECO in acting_for and s.fn.qualname not in owners_:
            via_deco = ALLOWED_CONE_WRITES.get((_canonical(repo, s.obj.name), DECO, s.detail))
            reasons_ = [r_ if r_ is not None else via_deco for r_ in reasons_]
        reason = '; '.join(sorted(set(reasons_))) if all(r_ is not None for r_ in reasons_) else None
        # a printer enters the live registry only inside the containment wrapper: pretty_dispatch.register(T, partial(<wrapper>, fn)) -
        # registered bare, its failures are not contained at the value, cycles through it are not cut and its result is not checked
        if reason is not None and s.detail == 'register' and isinstance(s.node, ast.Call) and len(s.node.args) >= 2 and rule.startswith(('C14', 'C13')):
            from engine import roles as _roles
            wr_ = _roles.name(repo, 'wrapper')
            v_ = s.node.args[1]
            wrapped = isinstance(v_, ast.Call) and call_name(v_).split('.')[-1] == 'partial' and v_.args and src(v_.args[0]).split('.')[-1] == wr_
            if not wrapped and isinstance(v_, ast.Name):
                # a local name bound once to such a partial
                binds = [a_.value for a_ in ast.walk(s.fn.node) if isinstance(a_, ast.Assign) and len(a_.targets) == 1
                         and isinstance(a_.targets[0], ast.Name) and a_.targets[0].id == v_.id]
                wrapped = len(binds) == 1 and isinstance(binds[0], ast.Call) and call_name(binds[0]).split('.')[-1] == 'partial' \
                    and binds[0].args and src(binds[0].args[0]).split('.')[-1] == wr_
            if not wrapped:
                n += 1
                rep.fail(rule, 'cone-write:%s:%s:registers-unwrapped' % (s.obj.name, s.fn.qualname), s.where,
                         '%s registers %s for a class without the wrapper %s (pretty_dispatch.register(T, partial(%s, fn)) is the only form that '
                         'contains a failing printer at its value, cuts cycles through it and checks what it returns)' % (s.fn.key, src(v_), wr_, wr_))
        rep.check(reason is not None, rule, 'cone-write:%s:%s:%s' % key, s.where,
                  reason or '',
                  '%s %s module-level %s %s from inside the printing pipeline; only the listed idempotent writes are '
                  'allowed there (a cache, counter or memo makes the output depend on call history and is shared by '
                  'all threads)' % (s.fn.key, s.detail, s.obj.kind, s.obj.key), nontrivial=True)
    n += keyed_cache_values(repo, rep, rule)
    # mutable default arguments are module-lifetime state too: a cone function must not write into one
    MUTATORS = {'append', 'extend', 'insert', 'pop', 'popitem', 'remove', 'clear', 'add', 'discard', 'update', 'setdefault', 'sort', 'reverse', '__setitem__'}
    for k in sorted(cone):
        f = next((ff for ff in repo.all_functions() if ff.key == k), None)
        if f is None:
            continue
        a = f.node.args
        pos = a.posonlyargs + a.args
        dflt = list(zip(pos[len(pos) - len(a.defaults):], a.defaults)) + [(x, d) for x, d in zip(a.kwonlyargs, a.kw_defaults) if d is not None]
        for arg, d in dflt:
            mutable = isinstance(d, (ast.Dict, ast.List, ast.Set, ast.ListComp, ast.DictComp, ast.SetComp)) or \
                (isinstance(d, ast.Call) and call_name(d) in ('dict', 'list', 'set', 'OrderedDict', 'defaultdict', 'deque', 'WeakSet', 'WeakKeyDictionary'))
            if not mutable:
                continue
            writes = []
            for x in ast.walk(f.node):
                if isinstance(x, (ast.Assign, ast.AugAssign, ast.Delete)):
                    for t in (x.targets if not isinstance(x, ast.AugAssign) else [x.target]):
                        if isinstance(t, ast.Subscript) and isinstance(t.value, ast.Name) and t.value.id == arg.arg:
                            writes.append(x)
                if isinstance(x, ast.Call) and isinstance(x.func, ast.Attribute) and isinstance(x.func.value, ast.Name) \
                        and x.func.value.id == arg.arg and x.func.attr in MUTATORS:
                    writes.append(x)
            n += 1
            rep.check(not writes, rule, 'cone-mutable-default:%s:%s' % (f.qualname, arg.arg), '%s:%d' % (f.module.relpath, f.node.lineno),
                      'the mutable default value is never written',
                      '%s writes into its mutable default argument %s (line %s): the default object lives as long as the module, so what one call '
                      'stores is seen by every later call and by every thread' % (f.key, arg.arg, writes[0].lineno if writes else '?'), nontrivial=True)
    # ``global X`` rebinding of anything (not only mutable containers) inside the cone
    for k in sorted(cone):
        f = None
        for ff in repo.all_functions():
            if ff.key == k:
                f = ff
                break
        if f is None:
            continue
        for g in ast.walk(f.node):
            if isinstance(g, (ast.Global, ast.Nonlocal)) and isinstance(g, ast.Global):
                n += 1
                rep.fail(rule, 'cone-global:%s:%s' % (f.qualname, ','.join(g.names)), '%s:%d' % (f.module.relpath, g.lineno),
                         '%s rebinds module globals %s from inside the printing pipeline' % (f.key, g.names))
    # hidden memo tables: memoising decorators on functions of the cone
    MEMO = {'lru_cache', 'cache', 'cached_property', 'functools.lru_cache', 'functools.cache', 'functools.cached_property', 'memoize', 'memoized'}
    for f in repo.all_functions():
        if f.key not in cone:
            continue
        for dec in f.node.decorator_list:
            d = dec.func if isinstance(dec, ast.Call) else dec
            dn = dotted(d)
            if dn in MEMO:
                n += 1
                rep.fail(rule, 'cone-memo:%s:%s' % (f.qualname, dn), '%s:%d' % (f.module.relpath, dec.lineno),
                         '%s is memoised with @%s inside the printing pipeline: equal-but-distinct arguments (0.0 / -0.0, 2 / an IntEnum '
                         'member) share one cached document, so the output depends on what was printed before, and the cache is shared '
                         'by all threads' % (f.key, dn))
    rep.analysed['print_cone_functions'] = len(cone)
    rep.analysed['shared_objects'] = sorted(v.key for v in shared.values())
    return n, cone, shared, sites, cone_sites


MEMO_DECORATORS = {'lru_cache', 'cache', 'cached_property', 'functools.lru_cache', 'functools.cache', 'functools.cached_property', 'memoize', 'memoized'}


def caches_in_cone(repo, rep, rule, why):
    """no write to module-lifetime state from the printing pipeline besides the reasoned allow-list: imported by properties for
    which a cache keyed by == (or by a name) conflates values the property tells apart; returns the instance count"""
    from engine.report import Report
    sub = Report('C19', rep.tier, rep.seed, quiet=True, write=False)
    n0 = check_write_inventory(repo, sub, rule)[0]
    n = 0
    for i in sub.instances:
        n += 1
        if i.verdict == 'holds':
            rep.ok(rule, i.construct, i.where, i.detail)
        elif i.verdict == 'VIOLATED':
            rep.fail(rule, i.construct, i.where, why + ': ' + i.detail)
        else:
            rep.undecided(rule, i.construct, i.where, i.detail)
    return n


def memoised_in_cone(repo, rep, rule, why):
    """no function of the printing pipeline is memoised by an equality-keyed cache; returns the instance count"""
    cone, graph, fns = effects.print_cone(repo)
    n = 0
    bad = 0
    for f in repo.all_functions():
        if f.key not in cone:
            continue
        for dec in f.node.decorator_list:
            d = dec.func if isinstance(dec, ast.Call) else dec
            dn = dotted(d)
            if dn in MEMO_DECORATORS:
                n += 1
                bad += 1
                rep.fail(rule, 'cone-memo:%s:%s' % (f.qualname, dn), '%s:%d' % (f.module.relpath, dec.lineno),
                         '%s is memoised with @%s inside the printing pipeline: %s' % (f.key, dn, why))
    n += 1
    rep.check(bad == 0, rule, 'no-equality-keyed-memo-in-the-pipeline', 'print cone', '%d pipeline functions carry no memoising decorator' % len(cone),
              '%d memoised functions in the printing pipeline' % bad, nontrivial=True)
    return n


def doc_object_stores(repo, rep, rule):
    """C19.d: attribute stores on document objects outside constructors happen only in
    FlatChoice's two accessors, each under ``normalize_on_access``; objects with that flag set
    are created only by normalize(); module-level constants are built with the flag clear."""
    m = repo.module('doctypes')
    n = 0
    stores = []
    from . import layoutmodel
    cnt, bad, und = layoutmodel.immutability(repo, rep.tier)
    n += 1
    if bad:
        for i, d in enumerate(sorted(bad, key=len)[:3]):
            rep.fail(rule, 'documents-unchanged-by-layout' + ('' if i == 0 else '#%d' % (i + 1)), m.relpath, d)
    elif und:
        rep.undecided(rule, 'documents-unchanged-by-layout', m.relpath, und[0])
    else:
        rep.check(cnt >= 200, rule, 'documents-unchanged-by-layout', m.relpath,
                  'no document (or module constant) reachable from the input was modified in %d interpreted layouts' % cnt,
                  'only %d layouts could be compared' % cnt, nontrivial=True)
    for cname, ci in sorted(m.classes.items()):
        for mname, meth in ci.methods.items():
            if mname == '__init__':
                continue
            g = Guards(meth.node)
            for s in ast.walk(meth.node):
                if isinstance(s, (ast.Assign, ast.AugAssign)):
                    tgts = s.targets if isinstance(s, ast.Assign) else [s.target]
                    for t in tgts:
                        if isinstance(t, ast.Attribute) and src(t.value) == 'self':
                            # an attribute store outside the constructor: recorded; whether a document that somebody else can hold is
                            # ever modified is decided on the interpreted layouts below (documents-unchanged-by-layout), not by the
                            # shape of the accessor
                            stores.append('%s.%s:%s' % (cname, mname, t.attr))
                # writing into a container held by the document (a per-object cache, a child list)
                if isinstance(s, (ast.Assign, ast.AugAssign, ast.Delete)):
                    tgts = s.targets if not isinstance(s, ast.AugAssign) else [s.target]
                    for t in tgts:
                        while isinstance(t, ast.Tuple) and t.elts:
                            t = t.elts[0]
                        if isinstance(t, ast.Subscript) and src(t.value).startswith('self.'):
                            n += 1
                            rep.fail(rule, '%s.%s:stores-into:%s' % (cname, mname, src(t.value)), '%s:%d' % (m.relpath, s.lineno),
                                     '%s.%s writes into %s: a document remembers something from one layout for the next (documents - including '
                                     'the shared module-level constants - must be immutable)' % (cname, mname, src(t.value)))
                for sub in ast.walk(s) if isinstance(s, ast.Assign) else []:
                    # chained assignment  x = self.attr[k] = value
                    pass
                # in-place mutation of child lists
                if isinstance(s, ast.Call) and isinstance(s.func, ast.Attribute) and s.func.attr in effects.MUTATORS \
                        and src(s.func.value).startswith('self.'):
                    n += 1
                    rep.fail(rule, '%s.%s:mutates:%s' % (cname, mname, src(s.func.value)), '%s:%d' % (m.relpath, s.lineno),
                             '%s.%s mutates %s in place (shared documents must be immutable)' % (cname, mname, src(s.func.value)))
    # when_flat is normalised only after when_broken was (flag chain) -> both imply normalize_on_access
    fc = m.classes.get('FlatChoice')
    if fc is None:
        raise AnalysisError('FlatChoice vanished')
    # creators of normalize_on_access=True
    for mod in repo.modules.values():
        for f in mod.funcs.values():
            for c in ast.walk(f.node):
                if isinstance(c, ast.Call) and call_name(c) == 'FlatChoice':
                    flag = None
                    for k in c.keywords:
                        if k.arg == 'normalize_on_access':
                            flag = src(k.value)
                    if len(c.args) > 2:
                        flag = src(c.args[2])
                    if flag is not None and flag != 'False':
                        n += 1
                        rep.check(f.cls is fc and f.name == 'normalize', rule, '%s:creates-lazy-flatchoice' % f.qualname,
                                  '%s:%d' % (mod.relpath, c.lineno), 'self-normalising FlatChoice created only by normalize()',
                                  '%s creates a FlatChoice with normalize_on_access=%s: such objects mutate themselves when '
                                  'laid out and must be private to one layout run' % (f.key, flag), nontrivial=True)
        for name, vals in mod.assigns.items():
            for v in vals:
                for c in ast.walk(v):
                    if isinstance(c, ast.Call) and call_name(c) == 'FlatChoice':
                        n += 1
                        flag = [src(k.value) for k in c.keywords if k.arg == 'normalize_on_access'] + \
                               ([src(c.args[2])] if len(c.args) > 2 else [])
                        rep.check(not flag or flag[0] == 'False', rule, 'constant:%s:flag-clear' % name,
                                  '%s:%d' % (mod.relpath, c.lineno), 'shared constant never mutates itself',
                                  'module-level document %s is built with normalize_on_access=%s' % (name, flag), nontrivial=True)
    init = fc.methods.get('__init__')
    if init is not None:
        a = init.node.args
        defaults = dict(zip([x.arg for x in a.args[len(a.args) - len(a.defaults):]], a.defaults))
        d = defaults.get('normalize_on_access')
        n += 1
        rep.check(d is not None and src(d) == 'False', rule, 'FlatChoice.__init__:flag-default-false', init.where,
                  'documents built by users and printers do not self-mutate',
                  'FlatChoice(normalize_on_access=...) defaults to %s' % (src(d) if d is not None else '<required>'), nontrivial=True)
    # normalize() of the flagged object returns itself; of an unflagged one a new flagged copy
    nm = fc.methods.get('normalize')
    if nm is not None:
        g = Guards(nm.node)
        for r in ast.walk(nm.node):
            if isinstance(r, ast.Return) and r.value is not None:
                n += 1
                if src(r.value) == 'self':
                    rep.check(any(f.pol and f.text == 'self.normalize_on_access' for f in g.of(r)), rule,
                              'FlatChoice.normalize:self-only-when-flagged', '%s:%d' % (m.relpath, r.lineno),
                              'an unflagged (possibly shared) FlatChoice is never returned as its own normal form... only a flagged one',
                              'FlatChoice.normalize returns self for an unflagged object')
                else:
                    rep.check(isinstance(r.value, ast.Call) and call_name(r.value) == 'FlatChoice', rule,
                              'FlatChoice.normalize:fresh-copy', '%s:%d' % (m.relpath, r.lineno), 'fresh object per normalisation',
                              'FlatChoice.normalize returns %s' % src(r.value))
    return n


_C15_CACHE = {}


def promotion_consistency(repo, rep, rule, rules=('C15.d', 'C15.b', 'C15.c'), why='deferred promotion is no longer a history-independent move'):
    """the allow-listed deferred->live promotion is history independent: in every interpreted registration history lookups
    leave later dispatch unchanged (C15.b/c/d): reuse those rule instances"""
    from engine.report import Report
    from . import c15
    key = (id(repo), rep.tier, rep.seed)
    sub = _C15_CACHE.get(key)
    if sub is None:
        sub = Report('C15', rep.tier, rep.seed, quiet=True, write=False)
        c15.run(repo, sub)
        _C15_CACHE.clear()
        _C15_CACHE[key] = sub
        sub._repo = repo        # keep the id alive
    n = 0
    for i in sub.instances:
        if i.rule in rules:
            n += 1
            if i.verdict == 'holds':
                rep.ok(rule, i.construct, i.where, i.detail)
            elif i.verdict == 'VIOLATED':
                rep.fail(rule, i.construct, i.where, why + ': ' + i.detail)
            else:
                rep.undecided(rule, i.construct, i.where, i.detail)
    return n


def fresh_visited(repo, rep, rule):
    """every top-level call gets its own visited set (C13.c): reuse those rule instances"""
    from engine.report import Report
    from . import c13
    sub = Report('C13', rep.tier, rep.seed, quiet=True, write=False)
    c13.run(repo, sub)
    n = 0
    for i in sub.instances:
        if i.rule in ('C13.c', 'C13.b'):
            n += 1
            if i.verdict == 'holds':
                rep.ok(rule, i.construct, i.where, i.detail)
            elif i.verdict == 'VIOLATED':
                rep.fail(rule, i.construct, i.where, 'the visited set is shared between calls (and therefore between threads): ' + i.detail)
            else:
                rep.undecided(rule, i.construct, i.where, i.detail)
    return n
