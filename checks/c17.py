"""C17 -- call-style printers show exactly the constructor call."""
import ast

from engine import docterm as D
from engine import facts
from engine.astutil import src, call_name, dotted, Guards, names_in
from engine.interp import (Const, Sym, SymStr, ListV, TupleV, DictV, ValueV, CtxV, DocV, TypeV, FuncV, Prim, NONE, TRUE, FALSE,
                           Undecided, prov, Interp)
from engine.loader import AnalysisError
from . import shape as S

META = {
    'text': 'Abstract interpretation of the call builders: (a) for every number of positional (0..2) and keyword (0..2) '
            'arguments, commented or not, with and without trailing comment and hugging, every layout of the document returned '
            'by build_fncall has the content  name ( arg , ... , key = value , ... )  in that order - positional before keyword, '
            'one comma between, every argument exactly once; (b) pretty_call forwards to pretty_call_alt unchanged, and '
            'pretty_call_alt hands the builder the arguments in the order given, each printed through pretty_python_value with '
            'one nested context (the hugged sole list/dict/tuple argument with the caller\'s context), the keyword items in '
            'iteration order, the name through general_identifier; (c) the dataclasses / attrs extras are interpreted over '
            'symbolic field descriptors: a field is shown iff repr is enabled and (it has no default or its value differs from '
            'the default / factory result), as (field.name, getattr(value, field.name)) of the same field, in declaration order, '
            'in a call of type(value); (d) qualified names (shared with C08.d). Evaluation of the printed call and user __eq__ '
            'are NOT decided.',
    'note': 'small-scope abstraction of argument lists (checked uniform loops); attrs Factory/takes_self handled as symbolic calls',
    'technique': 'static analysis: abstract interpretation over a doc-shape domain; path-complete interpretation of the field '
                 'selection loops with symbolic field descriptors',
}
META['text'] += ' A sole argument is hugged only on paths that established its exact type is list / dict / tuple; nothing of the call follows a comment on its line (C09.c of the same builder).'
META['text'] += ' Round 5: (c) a field shown by repr whose default the path never examined must be printed; identity of two arbitrary values is not their equality; keyword arguments are not cut by max_seq_len (take with unknown count forks).'


def run(repo, rep):
    rep.explanation = ('C17.a call shape of build_fncall (R-SHAPE), C17.b argument order/identity in pretty_call / pretty_call_alt, '
                       'C17.c dataclasses / attrs field selection, C17.d names.')
    rep.not_decided = 'that evaluating the text performs the call; user __eq__ subtleties; factories with side effects.'
    rep.assumptions = ['argument lists of length 0..2 are representative (uniform loops, checked)']
    m = repo.module('prettyprinter')
    bf = m.funcs.get('build_fncall')
    pca = m.funcs.get('pretty_call_alt')
    pc = m.funcs.get('pretty_call')
    if not (bf and pca and pc):
        raise AnalysisError('build_fncall / pretty_call_alt / pretty_call vanished')

    # ---------------------------------------------------------------- C17.a
    n = 0
    it = S.interp(repo, 'builder')
    fnd = DocV(D.Ann('name', D.Lit('fn', role='identifier')))
    for lp in ast.walk(bf.node):
        if isinstance(lp, ast.For):
            ok, why = S.uniform_in_index(bf.node, lp)
            if not ok:
                rep.undecided('C17.a', 'build_fncall:uniform-loop', bf.where, why)
    for na in range(0, S.bound(rep, 3, 4)):
        for nk in range(0, S.bound(rep, 3, 4)):
            for bits in range(1 << (na + nk)):
                cm = [bool((bits >> i) & 1) for i in range(na + nk)]
                args = [S.sub('a%d' % i, cm[i]) for i in range(na)]
                kws = [TupleV([Const('k%d' % i), S.sub('v%d' % i, cm[na + i])]) for i in range(nk)]
                for tc in (NONE, SymStr('trailing', nonempty=True)):
                    for hug in ((False, True) if (na == 1 and nk == 0) else (False,)):
                        if hug and tc is not NONE:
                            continue    # no caller combines hugging with a trailing comment (noted below)
                        lab = 'build_fncall[%s|%s%s%s]' % (''.join('c' if c else 'p' for c in cm[:na]) or '-',
                                                           ''.join('c' if c else 'p' for c in cm[na:]) or '-',
                                                           ',trailing' if tc is not NONE else '', ',hug' if hug else '')
                        want = [('Lit', 'fn'), ('Text', '(')]
                        for i in range(na):
                            want.append(('Sub', 'a%d' % i))
                            want.append(('Text', ','))
                        for i in range(nk):
                            want += [('Text', 'k%d' % i), ('Text', '='), ('Sub', 'v%d' % i), ('Text', ',')]
                        if want[-1] == ('Text', ',') and tc is NONE:
                            want.pop()
                        want.append(('Text', ')'))
                        for pr in it.explore(bf, [CtxV(), fnd], {'argdocs': ListV(args), 'kwargdocs': ListV(kws),
                                                                 'hug_sole_arg': Const(hug), 'trailing_comment': tc}):
                            rep.count(1)
                            n += 1
                            if pr.raised is not None or not isinstance(pr.value, DocV):
                                rep.fail('C17.a', lab, bf.where, 'build_fncall raises %s' % (pr.raised.what if pr.raised else pr.value))
                                continue
                            bad = None
                            for seq in D.all_layouts(pr.value.t):
                                sig = list(S.content_sig(seq))
                                if sig != want:
                                    bad = sig
                            rep.check(bad is None, 'C17.a', lab, bf.where, 'name ( args , kwargs k = v ) in order, in every layout',
                                      'build_fncall with %d positional and %d keyword arguments produces the content %s, expected %s'
                                      % (na, nk, bad, want), nontrivial=True)
    rep.note('build_fncall(hug_sole_arg=True, trailing_comment=...) returns the hugged call without the comment; no caller in the package combines the two')
    # the name of the callable: general_identifier interpreted on model callables (imported model, see identmodel.py)
    from . import identmodel
    n += identmodel.run(repo, rep, 'C17.a')
    rep.floor('C17.a', n, 50)
    # a comment on an argument (a commented value, the '# function' / '# class' note) runs to the end of its line: nothing of the call
    # may follow it on that line in any layout (home: C09.c, the same interpreted builder)
    from .common import import_instances
    rep.floor('C17.a:comments', import_instances(repo, rep, 'C09', lambda i: i.rule == 'C09.c' and i.construct.startswith('build_fncall'), 'C17.a',
                                                 'the printed call would not parse: part of it is swallowed by a comment'), 8)

    # ---------------------------------------------------------------- C17.b
    n = 0
    # pretty_call forwards unchanged: interpreted with pretty_call_alt as a recording primitive
    seen = []

    def p_rec(it_, a_, k_, n_):
        b_ = dict(zip(pca.params, a_))
        b_.update(k_)
        seen.append(b_)
        return Sym('<call-doc>')
    itf = S.interp(repo, 'builder', {'pretty_call_alt': p_rec})
    itf.concrete_context = True
    n += 1
    try:
        cx = Sym('CTX')
        prs = itf.explore(pc, [cx, Sym('F', 'callable'), Sym('A0'), Sym('A1')], {'k0': Sym('V0'), 'k1': Sym('V1')})
        ok = len(prs) == 1 and prs[0].raised is None and len(seen) == 1 and prov(prs[0].value) == '<call-doc>'
        got = None
        if ok:
            b_ = seen[0]
            kw = b_.get('kwargs')
            kwl = [(prov(k_), prov(v_)) for k_, v_ in (kw.items if isinstance(kw, DictV) else [tuple(x.items) for x in itf.iterate(kw)])] if kw is not None else None
            got = (prov(b_.get('ctx')), prov(b_.get('fn')), [prov(x) for x in itf.iterate(b_.get('args'))] if b_.get('args') is not None else None, kwl)
            ok = got == ('CTX', 'F', ['A0', 'A1'], [("'k0'", 'V0'), ("'k1'", 'V1')])
        rep.check(ok, 'C17.b', 'pretty_call:forwards', pc.where, 'pretty_call(ctx, fn, *args, **kwargs) -> pretty_call_alt(ctx, fn, args, kwargs)',
                  'pretty_call(CTX, F, A0, A1, k0=V0, k1=V1) hands pretty_call_alt %s' % (got if got is not None else [p_.raised.what if p_.raised else prov(p_.value) for p_ in prs],),
                  nontrivial=True)
    except Undecided as e:
        rep.undecided('C17.b', 'pretty_call:forwards', pc.where, str(e))
    itm = S.interp(repo, 'builder', {'build_fncall': S.p_build_fncall})
    for na in range(0, 3):
        for nk in range(0, 3):
            for kwform in ('pairs', 'dict', 'iterator'):
                args = TupleV([Sym('A%d' % i) for i in range(na)])
                pairs = [TupleV([Const('K%d' % i), Sym('V%d' % i)]) for i in range(nk)]
                # a list of pairs, a dict, or a one-shot iterator of pairs (zip(fields, values), a generator): what is read from it is gone
                kwargs = ListV(pairs) if kwform == 'pairs' else ListV(pairs, lazy=True) if kwform == 'iterator' else \
                    ValueV('kw', TypeV('dict'), [Const('K%d' % i) for i in range(nk)])
                fnsym = Sym('F', 'callable')
                try:
                    prs = itm.explore(pca, [CtxV(), fnsym], {'args': args, 'kwargs': kwargs})
                except Undecided as e:
                    rep.undecided('C17.b', 'pretty_call_alt[%d,%d,%s]' % (na, nk, kwform), pca.where, str(e))
                    continue
                for pr in prs:
                    rep.count(1)
                    lab = 'pretty_call_alt[args=%d,kwargs=%d,%s]{%s}' % (na, nk, kwform, _sf(pr))
                    if pr.raised is not None or not isinstance(pr.value, DocV):
                        n += 1
                        rep.fail('C17.b', lab, pca.where, 'pretty_call_alt raises / returns no document (%s)' % (pr.raised.what if pr.raised else pr.value))
                        continue
                    t = pr.value.t
                    from .c11 import depth_feasible
                    at0, at1 = depth_feasible(pr.facts, 0), depth_feasible(pr.facts, 1)
                    shown = D.show(t)
                    from .c11 import is_placeholder
                    is_ph = 'Sub(' not in shown and is_placeholder(t)
                    if at0:
                        n += 1
                        rep.check(is_ph, 'C17.b', lab + ':depth-placeholder', pca.where,
                                  'with no depth left the call is shown as F(...) and nothing below it is printed',
                                  'on a path taken when no depth is left pretty_call_alt returns %s' % shown[:100], nontrivial=True)
                        continue
                    if at0 is None or not at1:
                        continue
                    if is_ph and (na or nk):
                        n += 1
                        rep.fail('C17.b', lab + ':depth-placeholder', pca.where, 'pretty_call_alt returns the placeholder %s with one level of depth left' % shown[:80])
                        continue
                    n += 1
                    if not isinstance(t, D.Call):
                        rep.fail('C17.b', lab, pca.where, 'pretty_call_alt returns %s instead of a call document' % D.show(t)[:80])
                        continue
                    hugged = t.hug
                    got_args = [(x.prov, x.ctx) for x in t.args if isinstance(x, D.Sub)]
                    want_args = ['A%d' % i for i in range(na)]
                    if kwform in ('pairs', 'iterator'):
                        want_kw = [("'K%d'" % i, 'V%d' % i) for i in range(nk)]
                    else:
                        want_kw = [("'K%d'" % i, "kw['K%d']" % i) for i in range(nk)]
                    got_kw = [(k, v.prov if isinstance(v, D.Sub) else D.show(v)) for k, v in t.kwargs]
                    ok = [p for p, _ in got_args] == want_args and got_kw == want_kw and t.fn == 'ident(F)'
                    rep.check(ok, 'C17.b', lab + ':order', pca.where, 'arguments and keyword items in the order given, name via general_identifier',
                              'pretty_call_alt hands the builder %s(%s; %s), expected F(%s; %s)' % (t.fn, [p for p, _ in got_args], got_kw, want_args, want_kw),
                              nontrivial=True)
                    ctxs = {c for _, c in got_args} | {v.ctx for _, v in t.kwargs if isinstance(v, D.Sub)}
                    n += 1
                    if hugged:
                        rep.check(ctxs <= {'ctx+0:inherit'} and na == 1 and nk == 0, 'C17.b', lab + ':hug-context', pca.where,
                                  'hugged sole argument printed with the caller\'s context', 'hugged call prints arguments with contexts %s' % sorted(ctxs))
                        # only a sole argument that is *exactly* a list / dict / tuple is hugged: its literal consumes the nesting
                        # level itself; an instance of a subclass is printed as a call of its own and would get a level for free
                        import re as _re
                        exact = [k for k, v in pr.facts if v and 'type(' in k and 'isinstance' not in k and (' in ' in k or ' == ' in k)]
                        kinds_ = set(_re.findall(r'(?<![\w.(])(list|dict|tuple|set|frozenset|str|bytes|OrderedDict|deque|object)(?![\w(])', ' '.join(exact)))
                        n += 1
                        rep.check(bool(exact) and kinds_ <= {'list', 'dict', 'tuple'}, 'C17.b', lab + ':hug-only-exact-builtin-containers', pca.where,
                                  'hugging decided by the exact type of the sole argument',
                                  'the sole argument is hugged (printed without consuming a nesting level) on a path that established only (%s): an '
                                  'instance of a subclass of list / dict / tuple is printed as a call of its own, so with a depth limit its contents '
                                  'are cut one level too late' % pr.fact_text()[:160], nontrivial=True)
                    else:
                        rep.check(all(c.startswith('ctx+1:') for c in ctxs), 'C17.b', lab + ':nested-context', pca.where,
                                  'each argument printed one level deeper', 'arguments are printed with contexts %s' % sorted(ctxs), nontrivial=True)
    rep.floor('C17.b', n, 30)
    # the arguments of a call are printed under the context derived by nested_call(): it keeps every setting (context model)
    from . import ctxmodel
    nb = ctxmodel.report(repo, rep, 'C17.b', lambda k: k.startswith('nested_call:') or k.startswith('use_multiline_strategy:'),
                         'the arguments of a call-style printer would be printed under other settings than the value itself')
    nb += ctxmodel.construction_sites(repo, rep, 'C17.b', 'arguments are printed under a context derived from the caller\'s')
    rep.floor('C17.b:context', nb, 10)

    # ---------------------------------------------------------------- C17.c
    n = 0
    n += _field_selection(repo, rep, 'extras.dataclasses', 'pretty_dataclass_instance', 'dataclass')
    n += _field_selection(repo, rep, 'extras.attrs', 'pretty_attrs', 'attrs')
    # the selection keeps no state between calls (a memo of defaults goes stale when a class is re-defined)
    from engine import effects
    shared = effects.shared_objects(repo)
    for site in effects.sites(repo, shared):
        if site.fn is not None and site.fn.module.name.endswith(('extras.dataclasses', 'extras.attrs')) and site.fn.name != 'install':
            n += 1
            rep.check(site.kind != 'write', 'C17.c', '%s:module-state:%s:%s' % (site.fn.qualname, site.obj.name, site.detail), site.where,
                      'read of module-level data',
                      '%s %s the module-level %s %s: field defaults remembered across calls go stale (another class with the same '
                      'qualified name, a changed factory) and fields are wrongly omitted or shown' % (site.fn.key, site.detail, site.obj.kind, site.obj.key),
                      nontrivial=True)
    for mod_ in (repo.module('extras.dataclasses'), repo.module('extras.attrs')):
        for f_ in mod_.funcs.values():
            for dec in f_.node.decorator_list:
                d = dec.func if isinstance(dec, ast.Call) else dec
                if (dotted(d) or '').split('.')[-1] in ('lru_cache', 'cache', 'cached_property'):
                    n += 1
                    rep.fail('C17.c', '%s:memoised' % f_.qualname, f_.where, '%s is memoised: stale defaults' % f_.key)
    rep.floor('C17.c', n, 16)

    # ---------------------------------------------------------------- C17.d
    # the callable is named by its importable module.qualname: decided by interpreting general_identifier on model callables
    # (identmodel, recorded above under C17.a)
    rep.count(sum(1 for i in rep.instances if i.rule == 'C17.a' and 'ident' in i.construct))


def _sf(pr):
    return ','.join(('' if v else '!') + k[:30] for k, v in pr.facts)[:100]


class FieldV(Sym):
    pass


def _field_selection(repo, rep, modname, fname, kind):
    """interpret the selection loop with symbolic fields; every path: shown fields = those with
    repr enabled and (no default or value != default)"""
    mod = repo.module(modname)
    f = mod.funcs.get(fname)
    if f is None:
        raise AnalysisError('%s.%s vanished' % (modname, fname))
    n = 0

    def p_fields(it, a, k, nd):
        return ListV(it.scn_fields)

    def p_pretty_call(it, a, k, nd):
        return S.p_pretty_call(it, a, k, nd)

    def p_ordered(it, a, k, nd):
        return a[0] if a else TupleV([])
    prims = {'fields': p_fields, 'pretty_call': p_pretty_call, 'pretty_call_alt': S.p_pretty_call_alt, 'OrderedDict': p_ordered}
    for nf in ((1, 2, 3) if getattr(rep, 'tier', '') == 'thorough' else (1, 2)):
        it = S.interp(repo, 'builder', prims, max_paths=4000)
        fields = [Sym('f%d' % i) for i in range(nf)]
        it.scn_fields = fields
        cls_attrs = {'__attrs_attrs__': ListV(fields)}
        value = ValueV('value', TypeV('UserCls'), None, extra={})
        # type(value).__attrs_attrs__ : give the TypeV an attribute through a subclassed getattr
        orig_getattr = it.getattr

        def getattr_(obj, attr, node=None, _o=orig_getattr, _f=fields):
            if isinstance(obj, TypeV) and attr == '__attrs_attrs__':
                return ListV(_f)
            if attr == '__dataclass_fields__' and (isinstance(obj, TypeV) or obj is value):
                # what dataclasses keeps on the class: the real fields *and* the pseudo-fields (ClassVar / InitVar) that fields()
                # filters out
                from engine.interp import DictV
                return DictV([(Const('n%d' % i_), x_) for i_, x_ in enumerate(_f)] + [(Const('classvar'), Sym('pseudo_field'))])
            return _o(obj, attr, node)
        it.getattr = getattr_
        try:
            prs = it.explore(f, [value, CtxV()], {})
        except Undecided as e:
            rep.undecided('C17.c', '%s[%d fields]' % (fname, nf), f.where, str(e))
            return n + 1
        for pr in prs:
            rep.count(1)
            n += 1
            lab = '%s[%d fields]{%s}' % (fname, nf, _sf(pr))
            if pr.raised is not None or not isinstance(pr.value, DocV) or not isinstance(pr.value.t, D.Call):
                rep.fail('C17.c', lab, f.where, '%s raises / returns no call document (%s)' % (fname, pr.raised.what if pr.raised else pr.value))
                continue
            t = pr.value.t
            shown = [k for k, _ in t.kwargs]
            vals = [v for _, v in t.kwargs]
            expected = []
            for i in range(nf):
                fx = 'f%d' % i
                facts_ = {k: v for k, v in pr.facts if fx in k}
                repr_on = _fact(facts_, 'truthy(%s.repr)' % fx, True)
                if not repr_on:
                    continue
                examined = _fact(facts_, ('MISSING == %s.default' if kind == 'dataclass' else 'NOTHING == %s.default') % fx, None) is not None
                if not examined:
                    # a field that is shown by repr and whose default the path never looked at: nothing on the path excuses leaving it out
                    expected.append(fx)
                    continue
                if kind == 'dataclass':
                    nodef = _fact(facts_, 'MISSING == %s.default' % fx, None) and _fact(facts_, 'MISSING == %s.default_factory' % fx, None)
                    has_default = _fact(facts_, 'MISSING == %s.default' % fx, None) is False
                    if nodef:
                        show = True
                    elif has_default:
                        show = _differs(facts_, fx)
                    else:
                        show = _differs(facts_, fx)
                else:
                    nodef = _fact(facts_, 'NOTHING == %s.default' % fx, None)
                    show = True if nodef else _differs(facts_, fx)
                if show:
                    expected.append(fx)
            want_names = ['%s.name' % x for x in expected]
            tested = all(_fact({k: v for k, v in pr.facts}, 'truthy(%s.repr)' % x, None) is True for x in expected)
            ok = shown == want_names and all(v == 'getattr(value,%s.name)' % x for v, x in zip(vals, expected)) and \
                t.fn == 'ident(UserCls)' and not t.args and tested
            rep.check(ok, 'C17.c', lab, f.where, 'shown fields = repr-enabled fields without default or differing from it, own name/value, declaration order',
                      'on the path (%s) %s prints %s(%s) but the rule selects %s' % (pr.fact_text()[:200], fname, t.fn,
                                                                                   list(zip(shown, vals)), want_names), nontrivial=True)
    return n


def _fact(facts_, key, default):
    for k, v in facts_.items():
        if k == key:
            return v
    # equality keys are stored with sorted operands
    for k, v in facts_.items():
        if set(k.replace(' ', '').split('==')) == set(key.replace(' ', '').split('==')):
            return v
    return default


def _differs(facts_, fx):
    """the path assumed 'default != value' for this field"""
    for k, v in facts_.items():
        if 'getattr(value,%s.name)' % fx in k and '==' in k:
            return not v
    return False
