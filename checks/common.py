"""Re-use of rule instances across properties: a clause that is a necessary condition of several
properties is evaluated by its home check and imported under the other property's rule id."""
import importlib

from engine.report import Report


def import_instances(repo, rep, home, select, new_rule, why=''):
    """run property ``home`` on the same repo and copy the instances chosen by ``select(instance)``
    into ``rep`` under ``new_rule``; returns the number imported"""
    mod = importlib.import_module('checks.' + home.lower())
    sub = Report(home, rep.tier, rep.seed, quiet=True, write=False)
    mod.run(repo, sub)
    n = 0
    for i in sub.instances:
        if not select(i):
            continue
        n += 1
        if i.verdict == 'holds':
            rep.ok(new_rule, i.construct, i.where, i.detail)
        elif i.verdict == 'VIOLATED':
            rep.fail(new_rule, i.construct, i.where, (why + ': ' if why else '') + i.detail)
        else:
            rep.undecided(new_rule, i.construct, i.where, i.detail)
    return n


_SORTKEY_CACHE = {}


def sortkey_model(repo):
    """The always-sortable key class interpreted on pairs of constants.  Returns (facts, undecided) where facts is a list of
    (label, ok, detail):

      natural-order:   for operands Python can order, key(a) < key(b) is a < b;
      total-fallback:  for operands it cannot order (str / int, None / int, tuple / str, two complex numbers) the comparison answers
                       with a bool, never both ways True, and equal-typed incomparable operands compare False both ways (a stable
                       sort then keeps their order);
      no-identity:     no id() is consulted (the allocator history would change the order)."""
    key = id(repo)
    if key in _SORTKEY_CACHE and _SORTKEY_CACHE[key][0] is repo:
        return _SORTKEY_CACHE[key][1]
    from engine import roles
    from engine.interp import Interp, Const, TypeV, TupleV, Undecided, Raised, PathLimit
    m = repo.module('prettyprinter')
    cname = roles.name(repo, 'sortable_cls')
    ci = m.classes.get(cname)
    facts, und = [], []
    used_id = []

    def p_id(it, a, k, n):
        used_id.append(getattr(n, 'lineno', 0))
        return Const(12345)

    def p_str(it, a, k, n):
        if len(a) == 1 and isinstance(a[0], TypeV):
            return Const("<class '%s'>" % a[0].name)
        return NotImplemented

    def value(x):
        return TupleV([Const(y) for y in x]) if isinstance(x, tuple) else Const(x)
    pairs = [(1, 2), (2, 1), (2, 2), ('a', 'b'), ('b', 'a'), (1.5, 2), (2, 1.5), (3, 2.5), (True, 0.5), (0.5, True), (1, True), ((1, 2), (1, 3)), ('a', 1), (1, 'a'), (None, 1), (1, None), ((1,), 'x'), ('x', (1,)),
             (1j, 2j), (None, None), (b'a', 'a'), ('a', b'a'),
             # keys where a "natural" order (digit runs as numbers, case folded, shorter first) differs from the order of <
             ('item9', 'item10'), ('item10', 'item9'), ('v1.9', 'v1.10'), ('10', '9'), ('B', 'a'), ('a', 'B'), ('ab', 'b'), ('', 'a'), (10, 9), (-1, 1),
             ((2,), (1, 5)), (b'Z', b'a')]
    for a, b in pairs:
        it = Interp(repo, {'id': p_id, 'str': p_str}, max_paths=4, max_depth=40)
        it.concrete_context = True
        it.concrete_classes = {cname}
        label = '%r < %r' % (a, b)
        try:
            ka = it.construct(TypeV(cname), [value(a)], {}, None)
            kb = it.construct(TypeV(cname), [value(b)], {}, None)
            lt = it.find_method(ci, '__lt__')
            if lt is None:
                facts.append(('defines-order', False, '%s does not define __lt__' % cname))
                break
            prs = it.explore(lt, [ka, kb], {})
            prs2 = it.explore(lt, [kb, ka], {})
        except (Undecided, PathLimit) as e:
            und.append('%s: %s' % (label, e))
            continue
        if len(prs) != 1 or len(prs2) != 1:
            und.append('%s: the comparison forks on constants' % label)
            continue
        r1, r2 = prs[0], prs2[0]
        if r1.raised is not None or r2.raised is not None:
            facts.append(('total-fallback[%s]' % label, False, 'comparing the keys of %r and %r raises %s: sorting a dict with such keys fails' % (
                a, b, (r1.raised or r2.raised).what)))
            continue
        v1 = r1.value.v if isinstance(r1.value, Const) else None
        v2 = r2.value.v if isinstance(r2.value, Const) else None
        try:
            nat = a < b
            nat2 = b < a
        except TypeError:
            nat = nat2 = None
        if nat is not None:
            facts.append(('natural-order[%s]' % label, v1 is nat and v2 is nat2, 'key(%r) < key(%r) is %r where %r < %r is %r: comparable keys are not '
                          'ordered by their own <' % (a, b, v1, a, b, nat)))
        else:
            ok = isinstance(v1, bool) and isinstance(v2, bool) and not (v1 and v2) and (type(a) is not type(b) or (not v1 and not v2))
            facts.append(('total-fallback[%s]' % label, ok, 'key(%r) < key(%r) is %r and the reverse %r: the fallback for keys Python cannot order must be '
                          'a consistent order by kind (both False for keys of one type, so that a stable sort keeps their order)' % (a, b, v1, v2)))
    facts.append(('no-identity', not used_id, 'the sort key consults id() (line %s): the order of incomparable keys would depend on the allocator history'
                  % used_id[:1]))
    out = (facts, und)
    _SORTKEY_CACHE.clear()
    _SORTKEY_CACHE[key] = (repo, out)
    return out


def report_sortkey(repo, rep, rule, select=lambda label: True):
    """records the selected facts of the sort-key model under ``rule``; returns the count"""
    from engine import roles
    ci = repo.module('prettyprinter').classes.get(roles.name(repo, 'sortable_cls'))
    where = ci.where if ci is not None else 'prettyprinter/prettyprinter.py'
    facts, und = sortkey_model(repo)
    n = 0
    for label, ok, detail in facts:
        if not select(label):
            continue
        n += 1
        rep.check(ok, rule, 'sort-key:' + label, where, 'holds on the interpreted sort key', detail, nontrivial=True)
    for u in und[:3]:
        n += 1
        rep.undecided(rule, 'sort-key:interpretable', where, u)
    return n
