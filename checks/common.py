"""Re-use of rule instances across properties: a clause that is a necessary condition of several
properties is evaluated by its home check and imported under the other property's rule id."""
import importlib

from engine.report import Report


def import_instances(repo, rep, home, select, new_rule, why=''):
    """run property ``home`` on the same repo and copy the instances chosen by ``select(instance)``
    into ``rep`` under ``new_rule``; returns the number imported"""
    mod = importlib.import_module('checks.' + home.lower())
    sub = Report(home, rep.tier, rep.seed, quiet=True, write=False)
    mod.run(repo, sub)
    n = 0
    for i in sub.instances:
        if not select(i):
            continue
        n += 1
        if i.verdict == 'holds':
            rep.ok(new_rule, i.construct, i.where, i.detail)
        elif i.verdict == 'VIOLATED':
            rep.fail(new_rule, i.construct, i.where, (why + ': ' if why else '') + i.detail)
        else:
            rep.undecided(new_rule, i.construct, i.where, i.detail)
    return n
