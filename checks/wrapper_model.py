"""Small-scope semantic model of the printing wrapper (C13 cycles / sharing, C14 failure containment; also C08: values that
occur twice).

python_to_sdocs, pretty_python_value, unwrap_comments, the wrapper _run_pretty / _run_pretty_visited, the warning helper, the
recursion marker and the whole PrettyContext class are *interpreted* (no execution) on small object graphs.  Only these are
models: functools.singledispatch (as in registry_model), the layout (returns the document), id() (a number per object),
and the printers, which are opaque *behaviours*: a container printer that prints its children under ``ctx.nested_call()`` (with
or without a ``trailing_comment`` parameter), a leaf printer, a printer that raises, one that raises TypeError although it accepts
the comment, and one that returns a non-document.  What comes back is a concrete description of what was printed where; it is
compared with the specification the properties state:

* a value is replaced by the recursion marker exactly when it is being printed higher up on the same path (C13) - shared
  sub-values, also values reached again on a different path, print in full; nothing stays marked after a print returns;
* a failing printer is replaced by repr(value) at that value, with a warning naming the printer, and nothing else changes (C14);
  a non-document return value is an error attributed to the printer, contained by the enclosing printer like any failure;
* a trailing comment is handed to printers that take it; the others print without it after a warning."""
import ast

from engine.interp import (Const, Sym, SymStr, ListV, TupleV, DictV, SetV, ObjV, TypeV, Prim, PartialV, FuncV, NONE, Undecided, Raised, PathLimit, Interp, prov)
from engine.loader import AnalysisError, ClassInfo
from engine import roles as _roles

_NODES = ast.parse('class ModelClass:\n    pass\nclass ModelInstance:\n    pass\nclass ModelSignature:\n    pass\n').body

KINDS = {
    # kind: (accepts trailing_comment, is container)
    'list': (True, True), 'box': (False, True), 'leaf': (False, False), 'bad': (False, False), 'badtc': (True, False), 'badret': (False, False),
    'badrec': (False, False), 'badmem': (True, False), 'retnone': (False, False),
    # instances of subclasses of built-in atomic types (an IntEnum member, a str subclass): printed by their own printer
    'intsub': (False, False), 'strsub': (False, False),
    # instances of the built-in containers themselves (type(value) is list / dict)
    'pylist': (True, True), 'pydict': (True, True),
    # printers that take the trailing comment through **kwargs (no parameter of that name): a working container and one that raises
    # a genuine TypeError
    'listkw': (True, True), 'badtckw': (True, False),
}
VIA_KWARGS = {'listkw', 'badtckw'}
PYTYPE = {'pylist': 'list', 'pydict': 'dict'}
BUILTIN_BASE = {'intsub': 'int', 'strsub': 'str'}


class World:
    def __init__(self, repo):
        self.repo = repo
        self.m = repo.module('prettyprinter')
        self.live = DictV([])
        self.warnings = []
        self._markers = {}
        self.sigs = []
        self.ids = {}
        self.children = {}
        self.names = {}
        prims = {
            'pretty_dispatch.register': self.p_register, 'pretty_dispatch.dispatch': self.p_dispatch, 'pretty_dispatch': self.p_call_dispatch,
            'inspect.signature': self.p_signature, 'signature': self.p_signature, 'method:bind': self.m_bind,
            'warnings.warn': self.p_warn, 'warn': self.p_warn, 'repr': self.p_repr, 'id': self.p_id,
            'format_exception': lambda it, a, k, n: ListV([Const('<traceback>')]),
            'len': self.p_len,
            'layout_smart': lambda it, a, k, n: a[0], 'layout_fast': lambda it, a, k, n: a[0],
        }
        for kind in KINDS:
            prims['P.' + kind] = (lambda it, a, k, n, kind=kind: self.printer(kind, it, a, k, n))
        self.it = Interp(repo, prims, max_paths=16)
        self.it.concrete_context = True
        self.it.concrete_partial = True
        self.it.concrete_classes = {'PrettyContext', _roles.name(repo, 'commented_cls'), _roles.name(repo, 'trailing_cls')}
        self.it.foreign_attr = {'pretty_dispatch': lambda it, attr, n: self.live if attr == 'registry' else Prim('pretty_dispatch.' + attr)}
        self.it.globals_store[(self.m.name, _roles.name(repo, 'dispatch'))] = Prim('pretty_dispatch')
        self.cinfo = ClassInfo(None, _NODES[0])
        self.iinfo = ClassInfo(None, _NODES[1])
        self.siginfo = ClassInfo(None, _NODES[2])
        self.base = self.it.global_name(self.m, _roles.name(repo, 'base_dispatch'))
        self.classes = {}
        for kind in KINDS:
            if kind in PYTYPE:
                c = TypeV(PYTYPE[kind])
                self.classes[kind] = c
                self._register(c, kind)
                continue
            c = ObjV(self.cinfo)
            c.attrs.update({'__module__': Const('model'), '__qualname__': Const(kind), '__name__': Const(kind),
                            '__mro__': TupleV([c] + ([TypeV(BUILTIN_BASE[kind])] if kind in BUILTIN_BASE else []) + [TypeV('object')])})
            self.classes[kind] = c
            self._register(c, kind)
        self.ppv = self.m.funcs.get('pretty_python_value')
        if self.ppv is None:
            raise AnalysisError('pretty_python_value vanished')

    def _register(self, c, kind):
        r = self._call('register_pretty', [c], {})
        dec = r.value
        if r.raised is not None or not isinstance(dec, FuncV):
            raise AnalysisError('register_pretty(cls) does not return a decorator')
        self.it.paths_run = 0
        prs = self.it.explore(dec.fn, [Prim('P.' + kind)], {}, closure=dec.env)
        if len(prs) != 1 or prs[0].raised is not None:
            raise AnalysisError('registering a printer for a class fails in the interpreted register_pretty')

    # -- models
    def p_register(self, it, a, k, n):
        self.live.set(a[0], a[1])
        return a[1]

    def _dispatch(self, cls):
        if isinstance(cls, TypeV):
            r = self.live.get(cls)
            return r if r is not None else self.base
        if isinstance(cls, ObjV) and '__mro__' in cls.attrs:
            for c in cls.attrs['__mro__'].items:
                r = self.live.get(c)
                if r is not None:
                    return r
        return self.base

    def p_dispatch(self, it, a, k, n):
        return self._dispatch(a[0])

    def p_call_dispatch(self, it, a, k, n):
        return it.call_function(self._dispatch(it.type_of(a[0])), list(a), dict(k), n)

    def p_signature(self, it, a, k, n):
        self.sigs.append(a[0])
        sig = ObjV(self.siginfo)
        sig.attrs['__sig__'] = Const(len(self.sigs) - 1)
        # .parameters: the names a caller can see (a **kwargs printer shows 'kwargs', not the keywords it understands)
        fn, npre = a[0], 0
        while isinstance(fn, PartialV):
            npre += len(fn.args)
            fn = fn.func
        if isinstance(fn, Prim) and fn.name.startswith('P.'):
            kind = fn.name[2:]
            names = ['value', 'ctx'] + (['kwargs'] if kind in VIA_KWARGS else (['trailing_comment'] if KINDS[kind][0] else []))
        elif isinstance(fn, FuncV) and fn.fn is not None:
            names = list(fn.fn.params)
        else:
            raise Undecided('signature of %s' % prov(fn))
        sig.attrs['parameters'] = DictV([(Const(x), Const(x)) for x in names[npre:]])
        return sig

    def m_bind(self, it, obj, a, k, n):
        if not (isinstance(obj, ObjV) and obj.cls is self.siginfo):
            return NotImplemented
        fn = self.sigs[obj.attrs['__sig__'].v]
        pre = []
        while isinstance(fn, PartialV):
            pre = list(fn.args) + pre
            fn = fn.func
        if isinstance(fn, Prim) and fn.name.startswith('P.'):
            if 'trailing_comment' in k and not KINDS[fn.name[2:]][0]:
                raise Raised('TypeError: got an unexpected keyword argument trailing_comment', getattr(n, 'lineno', 0))
            if len(pre) + len(a) != 2:
                raise Raised('TypeError: wrong number of positional arguments', getattr(n, 'lineno', 0))
            return NONE
        if isinstance(fn, FuncV) and fn.fn is not None:
            from engine.interp import Frame
            it.bind(fn.fn, Frame(fn.fn, fn.fn.module, fn.env), pre + list(a), dict(k))
        return NONE

    def p_warn(self, it, a, k, n):
        self.warnings.append(prov(a[0]) if a else '')
        return NONE

    def p_repr(self, it, a, k, n):
        if a and isinstance(a[0], ObjV) and a[0].cls is self.iinfo:
            return Const('repr(%s)' % self.names[id(a[0])])
        return NotImplemented

    def p_len(self, it, a, k, n):
        if a and isinstance(a[0], ObjV) and id(a[0]) in self.children:
            return Const(len(self.children[id(a[0])]))
        return NotImplemented

    def p_id(self, it, a, k, n):
        if a and isinstance(a[0], ObjV):
            return Const(self.ids.setdefault(id(a[0]), 1000 + len(self.ids)))
        return NotImplemented

    def printer(self, kind, it, a, k, n):
        accepts, container = KINDS[kind]
        extra = set(k) - ({'trailing_comment'} if accepts else set())
        if extra or len(a) != 2:
            raise Raised('TypeError: P.%s() got an unexpected keyword argument %s' % (kind, sorted(extra)), getattr(n, 'lineno', 0))
        value, ctx = a
        self.printer_calls = getattr(self, 'printer_calls', 0) + 1
        name = self.names.get(id(value), '?')
        if kind == 'bad':
            raise Raised('RuntimeError: boom in the printer of %s' % name, getattr(n, 'lineno', 0))
        if kind in ('badtc', 'badtckw'):
            raise Raised('TypeError: boom inside a printer that accepts the comment (%s)' % name, getattr(n, 'lineno', 0))
        if kind == 'badrec':
            raise Raised('RecursionError: maximum recursion depth exceeded in the printer of %s' % name, getattr(n, 'lineno', 0))
        if kind == 'badmem':
            raise Raised('MemoryError: in the printer of %s' % name, getattr(n, 'lineno', 0))
        if kind == 'badret':
            return Const(42)
        if kind == 'retnone':
            return NONE
        if not container:
            return Const('leaf(%s)' % name)
        dl = it.getattr(ctx, 'depth_left', n)
        tag = TAG[kind]
        if isinstance(dl, Const) and dl.v == 0:
            return Const('%s(%s)[...]' % (tag, name))
        nested = it.call_method(ctx, 'nested_call', [], {}, n)
        parts = []
        for ch in self.children.get(id(value), []):
            r = it.call_function(FuncV(self.ppv), [ch, nested], {}, n)
            parts.append(r.v if isinstance(r, Const) and isinstance(r.v, str) else '<%s>' % prov(r))
        tc = k.get('trailing_comment')
        tail = ''
        if tc is not None and not (isinstance(tc, Const) and tc.v is None):
            tail = '#' + (tc.v if isinstance(tc, Const) else prov(tc))
        return Const('%s(%s)[%s]%s' % (tag, name, ','.join(parts), tail))

    # -- building values
    def new(self, kind, name, children=()):
        o = ObjV(self.iinfo)
        o.attrs['__class__'] = self.classes[kind]
        self.names[id(o)] = name
        self.children[id(o)] = list(children)
        o._kind = kind if hasattr(o, '__dict__') else None
        return o

    def kind_of(self, o):
        for kname, c in self.classes.items():
            oc = o.attrs.get('__class__')
            if oc is c or (isinstance(oc, TypeV) and isinstance(c, TypeV) and oc.name == c.name):
                return kname
        return None

    def trailing(self, v, text):
        return self.it.construct(TypeV(_roles.name(self.repo, 'trailing_cls')), [v, Const(text)], {}, None)

    def _call(self, fname, args, kwargs):
        f = self.m.funcs.get(fname)
        if f is None:
            raise AnalysisError('%s vanished' % fname)
        self.it.paths_run = 0
        prs = self.it.explore(f, args, kwargs)
        if len(prs) != 1:
            raise Undecided('%s forks into %d abstract paths on concrete input: %s' % (fname, len(prs), [p.fact_text() for p in prs][:3]))
        return prs[0]

    def marker(self, obj):
        """what the interpreted pipeline prints for a value that is already being printed (its wording is the package's business)"""
        key = id(obj)
        if key in self._markers:
            return self._markers[key]
        ctx = self.it.construct(TypeV('PrettyContext'), [], {'indent': Const(4), 'depth_left': Const(9)}, None)
        from .wrapper import context_roles
        acq = context_roles(self.repo)['acquire'].name
        self.it.call_method(ctx, acq, [obj], {}, None)
        before = getattr(self, 'printer_calls', 0)
        r = self._call('pretty_python_value', [obj, ctx], {})
        if getattr(self, 'printer_calls', 0) != before:
            raise NotCut('a value that is marked as being printed is handed to its printer again')
        if r.raised is not None or not (isinstance(r.value, Const) and isinstance(r.value.v, str)):
            raise Undecided('printing a value that is already being printed gives %s' % (r.raised.what if r.raised else prov(r.value)))
        self._markers[key] = r.value.v
        return r.value.v

    def top_level_print(self, value, depth=None):
        self.warnings = []
        return self._call('python_to_sdocs', [value], {'indent': Const(4), 'width': Const(79), 'depth': NONE if depth is None else Const(depth),
                                                       'ribbon_width': Const(71),
                                                       'max_seq_len': Const(1000), 'sort_dict_keys': Const(False)})


# ---------------------------------------------------------------------------------------------------- specification
class _Fail(Exception):
    pass


class NotCut(Exception):
    pass


TAG = {'list': 'L', 'box': 'B', 'pylist': 'PL', 'pydict': 'PD', 'listkw': 'LK'}


def spec(w, value, warns, depth=None):
    """what the properties say the print of ``value`` looks like; appends the expected warning kinds; raises ValueError when the
    specification is an error reaching the caller"""
    def unwrap(v):
        tc = None
        while isinstance(v, ObjV) and v.cls.name == __import__('engine.roles', fromlist=['x']).name(w.repo, 'trailing_cls'):
            tc = v.attrs['comment'].v
            v = v.attrs['value']
        return v, tc

    def go(v, path, left):
        v, tc = unwrap(v)
        name = w.names[id(v)]
        kind = w.kind_of(v)
        if id(v) in path:
            return w.marker(v)
        accepts, container = KINDS[kind]
        if tc is not None and not accepts:
            warns.append('no-trailing-comment-support')
            tc = None
        if kind in ('bad', 'badtc', 'badtckw', 'badrec', 'badmem'):
            warns.append('bad-printer')
            return 'repr(%s)' % name
        if kind in ('badret', 'retnone'):
            raise ValueError('non-document')        # an error of this printer: contained by the enclosing printer call, if any
        if not container:
            return 'leaf(%s)' % name
        if left == 0:
            return '%s(%s)[...]' % (TAG[kind], name)
        try:
            parts = [go(ch, path | {id(v)}, None if left is None else left - 1) for ch in w.children[id(v)]]
        except ValueError:
            warns.append('bad-printer')
            return 'repr(%s)' % name
        return '%s(%s)[%s]%s' % (TAG[kind], name, ','.join(parts), ('#' + tc) if tc else '')
    return go(value, frozenset(), depth)


# ---------------------------------------------------------------------------------------------------- scenarios
def _share_counts(repo):
    from engine import thresholds
    m = repo.module('prettyprinter')
    nodes = [f.node for f in m.funcs.values() if f.name.startswith('_run_pretty') or f.name in ('pretty_python_value', '_pretty_recursion')]
    ctx = m.classes.get('PrettyContext')
    if ctx is not None:
        nodes.append(ctx.node)
    mined, _ = thresholds.mine([m], fns=nodes, most=600)
    return sorted({10} | {t + 2 for t in mined})


def scenarios(w):
    """(label, value, property the scenario is about)"""
    out = []
    n = w.new
    a, b, c = n('leaf', 'a'), n('leaf', 'b'), n('leaf', 'c')
    out.append(('flat list', n('list', 'top', [a, b]), 'C13'))
    s = n('list', 's', [a])
    out.append(('shared sub-list twice', n('list', 'top', [s, s]), 'C13'))
    out.append(('shared leaf twice', n('list', 'top', [a, a, n('box', 'bx', [a])]), 'C13'))
    e, t = n('intsub', 'e'), n('strsub', 't')
    out.append(('the same int-subclass and str-subclass instance twice', n('list', 'top', [e, t, n('box', 'bx', [e, t]), e, w.trailing(t, 'tc')]), 'C13'))
    x = n('list', 'x', [])
    w.children[id(x)] = [x]
    out.append(('self loop', x, 'C13'))
    x = n('list', 'x', [a])
    y = n('box', 'y', [x, b])
    w.children[id(x)].append(y)
    out.append(('two-node cycle reached from both ends', n('list', 'top', [x, y]), 'C13'))
    out.append(('cycle then the same nodes again', n('list', 'top', [y, x, y]), 'C13'))
    x = n('list', 'x', [a])
    y = n('list', 'y', [x])
    z = n('list', 'z', [y, x])
    w.children[id(x)].append(z)
    out.append(('three-node cycle with a chord', n('box', 'top', [x, z, y]), 'C13'))
    # the built-in containers themselves (type(value) is list / dict), shared and on cycles
    x = n('pylist', 'x', [a])
    cc = n('pylist', 'c', [x, b])
    w.children[id(x)].append(cc)
    out.append(('built-in lists: shared container on a cycle reached on two paths', n('pylist', 'top', [x, cc]), 'C13'))
    d1 = n('pydict', 'd', [a])
    out.append(('built-in dict shared three times', n('pylist', 'top', [d1, n('pylist', 'in', [d1]), w.trailing(d1, 'tc')]), 'C13'))
    # depth: the same container at two nesting levels with a cut between them
    sh = n('pylist', 's', [a, b])
    out.append(('shared list at two levels, depth 2', n('pylist', 'top', [sh, n('pylist', 'in', [sh])]), 'C11', 2))
    out.append(('shared list at two levels, depth 3', n('pylist', 'top', [n('pylist', 'in', [sh]), sh]), 'C11', 3))
    out.append(('model containers at three levels, depth 1', n('list', 'top', [n('box', 'in', [n('list', 'in2', [a])]), a]), 'C11', 1))
    out.append(('depth 0', n('list', 'top', [a]), 'C11', 0))
    # trailing comments
    out.append(('trailing comment on a printer that takes it', n('list', 'top', [w.trailing(n('list', 'inner', [a]), 'note'), b]), 'C13'))
    out.append(('trailing comment on a printer that does not take it', n('list', 'top', [w.trailing(n('box', 'inner', [a]), 'note'), b]), 'C13'))
    out.append(('trailing comment on a leaf', n('list', 'top', [w.trailing(a, 'note'), a]), 'C13'))
    x = n('box', 'x', [])
    w.children[id(x)] = [w.trailing(x, 'again')]
    out.append(('cycle through a trailing-commented reference', n('list', 'top', [w.trailing(x, 'first'), x]), 'C13'))
    sh = n('box', 'sh', [a])
    out.append(('shared box, once with a trailing comment', n('list', 'top', [w.trailing(sh, 'tc'), sh, w.trailing(sh, 'tc2')]), 'C13'))
    # the same (acyclic) container referenced more often than every size constant the wrapper and the context compare against - and
    # than a fixed small count: every reference is printed in full, none is mistaken for a back-reference
    for cnt in _share_counts(w.repo):
        sh = n('pylist', 's', [a])
        out.append(('built-in list referenced %d times' % cnt, n('pylist', 'top', [sh] * cnt), 'C13'))
        shb = n('box', 'sb', [a, b])
        out.append(('model container referenced %d times' % cnt, n('list', 'top', [shb] * cnt), 'C13'))
    # failures
    bad = n('bad', 'bad')
    out.append(('failing printer between siblings', n('list', 'top', [a, bad, c]), 'C14'))
    out.append(('failing printer twice and nested', n('list', 'top', [bad, n('box', 'in', [bad, a]), bad]), 'C14'))
    out.append(('failing printer with a trailing comment', n('list', 'top', [w.trailing(bad, 'tc'), b]), 'C14'))
    out.append(('TypeError inside a printer that accepts the comment', n('list', 'top', [w.trailing(n('badtc', 'btc'), 'tc'), n('badtc', 'btc2'), b]), 'C14'))
    out.append(('TypeError inside a printer that takes the comment through **kwargs', n('list', 'top', [w.trailing(n('badtckw', 'bkw'), 'tc'), b]), 'C14'))
    out.append(('trailing comment on a printer that takes it through **kwargs', n('list', 'top', [w.trailing(n('listkw', 'lk', [a]), 'note'), b]), 'C14'))
    out.append(('failing printer at top level', bad, 'C14'))
    out.append(('failing printer below a cycle', None, 'C14'))
    x = n('list', 'x', [bad])
    w.children[id(x)].append(x)
    out[-1] = ('failing printer below a cycle', n('list', 'top', [x, a]), 'C14')
    out.append(('RecursionError and MemoryError raised by printers', n('list', 'top', [n('badrec', 'r1'), a, w.trailing(n('badmem', 'm1'), 'tc'), n('box', 'in', [n('badrec', 'r2')])]), 'C14'))
    out.append(('printer returning None', n('list', 'top', [a, n('box', 'in', [n('retnone', 'rn'), b]), c]), 'C14'))
    out.append(('printer returning None at top level', n('retnone', 'rn'), 'C14'))
    br = n('badret', 'br')
    out.append(('non-document return value nested', n('list', 'top', [a, n('box', 'in', [br, b]), c]), 'C14'))
    out.append(('non-document return value with trailing comment', n('list', 'top', [n('list', 'in', [w.trailing(br, 'tc')]), c]), 'C14'))
    out.append(('non-document return value at top level', br, 'C14'))
    return out


def run(repo, rep, want):
    """records the scenarios of property ``want`` ('C13' | 'C14' | 'C08'); returns the instance count"""
    n = 0
    w = World(repo)
    where = w.ppv.where
    prev_call_left = None
    for sc in scenarios(w):
        label, value, prop = sc[:3]
        depth = sc[3] if len(sc) > 3 else None
        if want == 'C08':
            if 'subclass' not in label:
                continue
        elif want == 'C12':
            if 'cycle' not in label and 'loop' not in label:
                continue
        elif prop != want:
            continue
        rule = {'C13': 'C13.a', 'C14': 'C14.a', 'C08': 'C08.e', 'C11': 'C11.d', 'C12': 'C12.e'}[want]
        n += 1
        warns = []
        try:
            try:
                want_text = spec(w, value, warns, depth)
                want_exc = None
            except ValueError:
                want_text, want_exc = None, 'ValueError'
            r = w.top_level_print(value, depth)
        except NotCut as e:
            rep.fail(rule, 'wrapper-model[%s]' % label, where, 'scenario "%s": %s - the recursion is not cut at a back-reference' % (label, e))
            continue
        except (Undecided, PathLimit) as e:
            if want == 'C12' and 'depth exceeded' in str(e):
                rep.fail(rule, 'wrapper-model[%s]' % label, where, 'scenario "%s": the interpreted pipeline keeps descending into the cyclic value '
                         '(no recursion marker after %d nested calls): printing it does not terminate' % (label, w.it.max_depth))
            else:
                rep.undecided(rule, 'wrapper-model[%s]' % label, where, str(e))
            continue
        got = r.value.v if (r.raised is None and isinstance(r.value, Const)) else (prov(r.value) if r.raised is None else None)
        got_exc = r.raised.what.split(':')[0].split('(')[0] if r.raised is not None else None
        if want_exc or got_exc:
            rep.check(want_exc == got_exc, rule, 'wrapper-model[%s]' % label, where, 'a non-document return value is reported as %s' % want_exc,
                      'scenario "%s": expected %s, the interpreted pipeline gives %s' % (
                          label, ('%s raised' % want_exc) if want_exc else repr(want_text), ('%s raised' % r.raised.what) if got_exc else repr(got)), nontrivial=True)
        else:
            rep.check(got == want_text, rule, 'wrapper-model[%s]' % label, where, 'printed as %s' % want_text,
                      'scenario "%s": the specification gives %r, the interpreted pipeline %r' % (label, want_text, got), nontrivial=True)
        # warnings: one per failure and per unsupported trailing comment, each naming the printer (the wording is free)
        if want == 'C14' and not (want_exc or got_exc):
            n += 1
            rep.check(len(w.warnings) == len(warns), 'C14.b', 'wrapper-model:warnings[%s]' % label, where, 'one warning per failure / unsupported comment',
                      'scenario "%s": %d warnings expected (%s), the interpreted pipeline issues %d: %s' % (
                          label, len(warns), sorted(warns), len(w.warnings), [x[:60] for x in w.warnings][:3]), nontrivial=True)
            unnamed = [x for x in w.warnings if not ('__module__' in x and '__qualname__' in x)]
            n += 1
            rep.check(not unnamed, 'C14.b', 'wrapper-model:warning-names-printer[%s]' % label, where, 'every warning names the printer concerned',
                      'scenario "%s": a warning does not contain the printer\'s module and qualified name: %s' % (label, unnamed[:1]), nontrivial=True)
    return n


def comment_wiring(repo, rep, rule):
    """C09.g, semantically: comment() / trailing_comment() wrappers built through the public functions are peeled off in any nesting,
    each text lands in its own slot, a comment is attached to the printed document as a comment annotation, a trailing comment is
    handed to the printer; is_commented recognises exactly such documents.  Returns the instance count."""
    from engine.interp import DocV, AnnotV
    from engine import docterm as D
    w = World(repo)
    m = w.m
    where = m.funcs['unwrap_comments'].where if 'unwrap_comments' in m.funcs else m.relpath
    n = 0

    def call(fname, args):
        return w._call(fname, args, {})
    leaf = w.new('leaf', 'v')
    shapes = [('c',), ('t',), ('c', 't'), ('t', 'c'), ('c', 'c'), ('t', 't'), ('c', 't', 'c'), ()]
    for shape in shapes:
        label = '+'.join({'c': 'comment', 't': 'trailing_comment'}[x] for x in shape) or 'bare value'
        try:
            v = leaf
            want_c = want_t = None
            # built inside-out: the last wrapper applied is the outermost
            for i, kind in enumerate(shape):
                text = '%s%d' % (kind, i)
                r = call('comment' if kind == 'c' else 'trailing_comment', [v, Const(text)])
                if r.raised is not None:
                    raise Undecided('%s raises %s' % (kind, r.raised.what))
                v = r.value
            # unwrap_comments: innermost wrapper of each kind is the one assigned last
            for i, kind in enumerate(shape):
                pass
            inner_c = next(('c%d' % i for i, k in enumerate(shape) if k == 'c'), None)
            inner_t = next(('t%d' % i for i, k in enumerate(shape) if k == 't'), None)
            r = call('unwrap_comments', [v])
            n += 1
            ok = r.raised is None and isinstance(r.value, TupleV) and len(r.value.items) == 3
            got = None
            if ok:
                val, c_, t_ = r.value.items
                got = ('the value' if val is leaf else prov(val), c_.v if isinstance(c_, Const) else prov(c_), t_.v if isinstance(t_, Const) else prov(t_))
                ok = got == ('the value', inner_c, inner_t)
            rep.check(ok, rule, 'unwrap_comments[%s]' % label, where, 'wrappers peeled off, each text in its slot',
                      'unwrap_comments on %s gives (value, comment, trailing_comment) = %s, expected ("the value", %r, %r)'
                      % (label, got if got is not None else (r.raised.what if r.raised else prov(r.value)), inner_c, inner_t), nontrivial=True)
            # printing: comment attached as a comment annotation around the printed document; trailing comment reaches the printer
            w.warnings = []
            r = w._call('pretty_python_value', [v, w.it.construct(TypeV('PrettyContext'), [], {'indent': Const(4), 'depth_left': Const(5)}, None)], {})
            n += 1
            if r.raised is not None:
                rep.fail(rule, 'print[%s]' % label, where, 'printing %s raises %s' % (label, r.raised.what))
                continue
            res = r.value
            okp = True
            detail = ''
            if inner_c is not None:
                t = res.t if isinstance(res, DocV) else None
                okp = isinstance(t, D.Ann) and isinstance(t.label, tuple) and t.label[0] == 'comment' and inner_c in str(t.label[1]) \
                    and isinstance(t.child, D.Text) and t.child.s == 'leaf(v)'
                detail = 'the result is %s' % (D.show(t) if t is not None else prov(res))
            else:
                okp = isinstance(res, Const) and res.v == 'leaf(v)'
                detail = 'the result is %s' % prov(res)
            rep.check(okp, rule, 'print[%s]:comment-attached' % label, where, 'the comment is attached to the printed document (and only then)',
                      'printing %s: %s; expected the printed value%s' % (label, detail, (' inside a comment annotation carrying %r' % inner_c) if inner_c else ' without annotation'),
                      nontrivial=True)
            if inner_t is not None:
                n += 1
                rep.check(any('trailing comment' in x for x in w.warnings), rule, 'print[%s]:trailing-comment-routed' % label, where,
                          'the trailing comment is handed to the printer (the leaf printer does not take one: warning)',
                          'printing %s: the trailing comment never reaches the printer call (no "does not support trailing comments" warning for a '
                          'printer without that parameter; warnings: %s)' % (label, w.warnings[:2]), nontrivial=True)
        except (Undecided, PathLimit) as e:
            n += 1
            rep.undecided(rule, 'comment-wiring[%s]' % label, where, str(e))
    # comment() on a document annotates the document itself; is_commented recognises exactly comment annotations
    try:
        d = DocV(D.Text('x'))
        r = call('comment', [d, Const('cd')])
        n += 1
        t = r.value.t if r.raised is None and isinstance(r.value, DocV) else None
        okd = isinstance(t, D.Ann) and isinstance(t.label, tuple) and t.label[0] == 'comment' and 'cd' in str(t.label[1])
        rep.check(okd, rule, 'comment(doc):annotates', where, 'comment() on a document attaches the comment to it',
                  'comment(<document>, text) returns %s' % (D.show(t) if t is not None else (r.raised.what if r.raised else prov(r.value))), nontrivial=True)
        for lab, val, exp in (('commented document', r.value, True), ('plain document', d, False), ('text', Const('x'), False),
                              ('token annotation', DocV(D.Ann('Token.X', D.Text('x'))), False)):
            rr = call('is_commented', [val])
            n += 1
            rep.check(rr.raised is None and isinstance(rr.value, Const) and bool(rr.value.v) is exp, rule, 'is_commented[%s]' % lab, where,
                      'is_commented(%s) is %s' % (lab, exp), 'is_commented(%s) gives %s' % (lab, prov(rr.value) if rr.raised is None else rr.raised.what), nontrivial=True)
    except (Undecided, PathLimit) as e:
        n += 1
        rep.undecided(rule, 'comment(doc)', where, str(e))
    return n
