"""C10 -- max_seq_len shows exactly the first N elements and says how many were dropped."""
import ast

from engine import facts
from engine.astutil import src, call_name, dotted, Guards, compare_parts, enclosing_map, names_in
from engine.flow import Flow, _walk_no_nested
from engine.linear import form, NotLinear, atom
from engine.loader import AnalysisError
from .ctxuse import attr_reads, single_defs

META = {
    'text': 'max_seq_len, decided on interpreted code: (a) closed-use classification of the setting (compared with len, sub'
            'tracted from len, islice bound, pass-along); (b) the container printers interpreted (E6) on scenarios of 0..3 '
            'elements: exactly the first N elements are shown in order, the notice states len(value) - N, dict pairs are tr'
            'uncated after ordering; (c) the interpreted entry point hands the setting to the root context, None becomes an'
            ' integer no container length exceeds, an explicit None survives the configuration merge (imported C18.b); (d) '
            'when elements were dropped the notice is rendered exactly once, as the head of the one trailing comment follow'
            "ed by the caller's trailing comment, and forces the container to break; the context class interpreted keeps ma"
            'x_seq_len in every derived context and nobody rebuilds a context by hand or calls the private copier; (e) cove'
            'rage of the container types.',
    'note': 'trusts itertools.islice; linear forms treat len(x) as an opaque atom',
    'technique': 'static analysis: abstract interpretation of the container printers, the context class and the entry point; clo'
                 'sed-use classification; who-may-call',
}
META['text'] += " Round 5: take / islice with an unknown count are interpreted as 'everything' or 'a cut tail' under the printers' own truncation fact, so a silent cut of keyword arguments or elements shows; type tests and range tests of the setting against constants are branch tests."

CONTAINER_KEYS = {'list', 'tuple', 'set', 'dict'}


def _in_predicate(par, node):
    """node is (part of a boolean combination that is) a branch test, or the value a predicate function returns"""
    cur = node
    while True:
        p = par.get(id(cur))
        if isinstance(p, ast.BoolOp) or (isinstance(p, ast.UnaryOp) and isinstance(p.op, ast.Not)):
            cur = p
            continue
        if isinstance(p, (ast.If, ast.While, ast.IfExp)):
            return p.test is cur
        return isinstance(p, ast.Return)


def run(repo, rep):
    rep.explanation = ('R-USE closed use (C10.a), R-LIN count arithmetic and slice (C10.b), None normalisation (C10.c), '
                       'notice placement and propagation (C10.d), all container loops truncated (C10.e).')
    rep.not_decided = 'N < 1; containers whose __len__ and __iter__ disagree; layout of the notice.'
    rep.assumptions = ['itertools.islice(it, n) yields the first n items']
    m = repo.module('prettyprinter')
    ATTR = 'max_seq_len'
    printers = {}
    for r in facts.registry(repo):
        if r.key in CONTAINER_KEYS and r.fn is not None and r.module is m:
            printers[r.fn.key] = r.fn
    if len(printers) < 2:
        raise AnalysisError('container printers (list/tuple/set, dict) not found in the registry')

    # ---------------------------------------------------------------- C10.a closed use
    n = 0
    reads = list(attr_reads(repo, ATTR))
    seen_alias = set()
    for f, node in reads:
        par = enclosing_map(f.node)
        p = par.get(id(node))
        g = Guards(f.node)
        use = None
        if isinstance(p, ast.Compare) and len(p.ops) == 1:
            cp = compare_parts(p)
            l, op, r_ = cp
            if r_ is node and op == '>' and isinstance(l, ast.Call) and call_name(l) == 'len':
                use = 'len(x) > N'
            elif l is node and op == '<' and isinstance(r_, ast.Call) and call_name(r_) == 'len':
                use = 'N < len(x)'
            elif op in ('is', 'is not') and src(r_) == 'None':
                use = 'None test'
        if use is None and isinstance(p, ast.Compare) and _in_predicate(par, p) and \
                all(x is node or isinstance(x, ast.Constant) or src(x) in ('sys.maxsize', 'maxsize') for x in [p.left] + list(p.comparators)):
            # a sanity test of the setting against constants (0 <= N <= sys.maxsize) that only selects a branch: which elements a
            # branch shows is decided on the printers (C10.b, C10.e), not here
            use = 'range test against constants'
        elif use is None and isinstance(p, ast.Call) and call_name(p) in ('type', 'isinstance') and p.args and p.args[0] is node:
            use = 'type test'
        elif use is not None:
            pass
        elif isinstance(p, ast.BinOp) and isinstance(p.op, ast.Sub) and p.right is node \
                and isinstance(p.left, ast.Call) and call_name(p.left) == 'len':
            guarded = any(_is_len_gt(ff.test, ff.pol, src(p.left), src(node)) for ff in g.of(p))
            use = 'len(x) - N under len(x) > N' if guarded else None
            if not guarded:
                n += 1
                rep.fail('C10.a', '%s:unguarded-subtraction' % f.qualname, '%s:%d' % (f.module.relpath, node.lineno),
                         '%s computes %s without the guard %s > %s: the count can be zero or negative' % (
                             f.key, src(p), src(p.left), src(node)))
                continue
        elif isinstance(p, ast.Call) and call_name(p) in ('take', 'islice') and p.args:
            if call_name(p) == 'take' and p.args[0] is node:
                use = 'take(N, it)'
            elif call_name(p) == 'islice' and len(p.args) >= 2 and p.args[-1] is node and len(p.args) == 2:
                use = 'islice(it, N)'
        elif isinstance(p, ast.keyword) and p.arg in ('max_seq_len', 'max_seq_length'):
            use = 'pass-along'
        elif isinstance(p, ast.Assign) and f.name == '__init__':
            use = 'store'
        elif isinstance(p, ast.Assign) and len(p.targets) == 1 and isinstance(p.targets[0], ast.Name) and p.value is node:
            # a local name for the setting: every use of that name is a use of the setting
            use = 'local alias'
            al = p.targets[0].id
            if (f.key, al) not in seen_alias:
                seen_alias.add((f.key, al))
                for x in ast.walk(f.node):
                    if isinstance(x, ast.Name) and x.id == al and isinstance(x.ctx, ast.Load):
                        reads.append((f, x))
        n += 1
        rep.check(use is not None, 'C10.a', '%s:use:%s' % (f.qualname, use or src(p)[:50]), '%s:%d' % (f.module.relpath, node.lineno),
                  'allowed use of the setting: %s' % use,
                  '%s uses the max_seq_len setting in %s: outside the closed set of uses (compare with len, subtract from '
                  'len under that guard, take, pass along)' % (f.key, src(p)[:80]), nontrivial=True)
    rep.floor('C10.a', n, 3)

    # ---------------------------------------------------------------- C10.b arithmetic
    n = 0
    take = repo.func('utils', 'take')
    rets = [r for r in ast.walk(take.node) if isinstance(r, ast.Return)]
    n += 1
    pn, pit = take.params[0], take.params[1]
    ok = len(rets) == 1 and src(rets[0].value).replace(' ', '') in (
        'islice(%s,%s)' % (pit, pn), 'islice(%s,0,%s)' % (pit, pn), 'islice(%s,None,%s)' % (pit, pn),
        'itertools.islice(%s,%s)' % (pit, pn))
    rep.check(ok, 'C10.b', 'take:is-islice', take.where, 'take(n, it) = islice(it, n)',
              'take(%s, %s) returns %s: it must yield exactly the first n items' % (pn, pit, [src(r.value) for r in rets]),
              nontrivial=True)
    for f in sorted(printers.values(), key=lambda x: x.key):
        value = f.params[0]
        ctx = f.params[1]
        N = '%s.%s' % (ctx, ATTR)
        defs = single_defs(f.node)
        g = Guards(f.node)
        # the notice, semantically: interpret the printer on values with n elements; on the paths that assumed
        # len(value) > max_seq_len (canonically ``ctx.max_seq_len < n``) the document ends with one comment announcing
        # exactly n - max_seq_len elements, on the other paths with none
        from engine import docterm as D
        from engine.interp import ValueV, TypeV, Sym, SymStr, CtxV, Undecided, NONE
        from . import shape as S
        keys = [r.key for r in facts.registry(repo) if r.fn is f]
        base = 'dict' if 'dict' in keys else 'list'
        def p_plain(it_, a_, k_, n_):
            r_ = S.p_pretty_python_value(it_, a_, k_, n_)
            r_.t.commented = False
            return r_
        itp = S.interp(repo, 'printer', {'pretty_str': S.p_pretty_str_as_sub, 'pretty_python_value': p_plain}, max_paths=4000)
        for nel in (1, 2, 3):
            v = ValueV(value, TypeV(base), [Sym('x%d' % i) for i in range(nel)])
            for tc in (NONE, SymStr('user-comment', nonempty=True)):
                try:
                    res = S.run_printer(repo, itp, f, v, trailing_comment=tc)
                except Undecided as e:
                    rep.undecided('C10.b', '%s:notice[n=%d]' % (f.qualname, nel), f.where, str(e))
                    continue
                for pr, t, ph in res:
                    if pr.raised is not None or t is None or pr.assumed('depth_left', True):
                        continue
                    rep.count(1)
                    longer = None
                    for k_, v_ in pr.facts:
                        if k_ == 'ctx.max_seq_len < %d' % nel:
                            longer = v_
                        elif k_ == '%d <= ctx.max_seq_len' % nel:
                            longer = not v_
                    inner = t.args[0] if isinstance(t, D.Call) and t.args and isinstance(t.args[0], D.T) else t
                    items = inner.items if isinstance(inner, D.Seq) else [a for a in D.linearise(inner, 'break', lambda g_: 'break') if isinstance(a, D.T)]
                    notices = [c for c in items if isinstance(c, D.Cmt) and 'more' in c.prov]
                    n += 1
                    lab = '%s:notice[n=%d,%s,%s]' % (f.qualname, nel, 'longer' if longer else 'fits', 'tc' if tc is not NONE else 'plain')
                    if longer is None:
                        rep.fail('C10.b', lab, f.where, 'the path (%s) never compares len(value) with max_seq_len' % pr.fact_text()[:120])
                        continue
                    if not longer:
                        rep.check(not notices, 'C10.b', lab, f.where, 'no notice when nothing is omitted',
                                  'a truncation notice %s is printed although len(value) <= max_seq_len was assumed' % [c.prov for c in notices][:1],
                                  nontrivial=True)
                        continue
                    want_count = '(%d-ctx.max_seq_len)' % nel
                    last_is_notice = bool(items) and isinstance(items[-1] if not isinstance(inner, D.Seq) else inner.items[-1], D.Cmt) or \
                        (bool(notices) and [x for x in items if isinstance(x, (D.Cmt, D.Sub))][-1] is notices[-1])
                    import re as _re
                    exact = bool(notices) and bool(_re.search(r'[;{]' + _re.escape(want_count) + r'[)}]', notices[0].prov))
                    okn = len(notices) == 1 and exact \
                        and (tc is NONE or 'user-comment' in notices[0].prov) and last_is_notice
                    rep.check(okn, 'C10.b', lab, f.where, 'one trailing notice announcing exactly len(value) - max_seq_len elements',
                              'with %d elements and len(value) > max_seq_len the printed document carries the comments %s: expected exactly one, '
                              'after the last element, announcing %s omitted elements%s' % (nel, [c.prov for c in [x for x in items if isinstance(x, D.Cmt)]],
                                                                                         want_count, ' followed by the user comment' if tc is not NONE else ''),
                              nontrivial=True)
        # truncated iteration of the same container
        n_alias = {a_.targets[0].id for a_ in ast.walk(f.node) if isinstance(a_, ast.Assign) and len(a_.targets) == 1
                   and isinstance(a_.targets[0], ast.Name) and src(a_.value) == N}

        def _as_take(c_):
            # take(N, it)  or  islice(it, N): normalised to (N expr, iterable expr)
            if call_name(c_) == 'take' and len(c_.args) == 2:
                return c_.args[0], c_.args[1]
            if call_name(c_) == 'islice' and len(c_.args) == 2:
                return c_.args[1], c_.args[0]
            return None
        takes = [(c, value, N, defs) for c in ast.walk(f.node) if isinstance(c, ast.Call) and call_name(c) in ('take', 'islice')]
        # ... also when the elements are rendered by a private helper the printer hands its value and context to
        for c in ast.walk(f.node):
            if isinstance(c, ast.Call) and isinstance(c.func, ast.Name) and not takes:
                r_ = repo.resolve(f.module, c.func.id)
                if not (r_ and r_[0] == 'func' and r_[1].name.startswith('_')):
                    continue
                h_ = r_[1]
                bound_ = dict(zip(h_.params, [src(a) for a in c.args]))
                bound_.update({k.arg: src(k.value) for k in c.keywords if k.arg})
                hv_ = [p_ for p_, a_ in bound_.items() if a_ == value]
                hc_ = [p_ for p_, a_ in bound_.items() if a_ == ctx]
                if hv_ and hc_:
                    from .ctxuse import single_defs as _sd
                    for t_ in ast.walk(h_.node):
                        if isinstance(t_, ast.Call) and call_name(t_) == 'take':
                            takes.append((t_, hv_[0], '%s.%s' % (hc_[0], ATTR), _sd(h_.node)))
        n += 1
        okt = False
        detail = 'no take(...) call'
        for t, value_, N_, defs_ in takes:
            nt_ = _as_take(t)
            if nt_ is not None and (src(nt_[0]) == N_ or (N_ == N and src(nt_[0]) in n_alias)):
                it = nt_[1]
                okt = _iterates(it, value_, defs_)
                detail = 'take(%s, %s)' % (src(nt_[0]), src(it))
            else:
                detail = src(t)
        rep.check(okt, 'C10.b', '%s:first-N-of-same-container' % f.qualname, f.where,
                  'elements come from take(max_seq_len, <iteration of the printed container>)',
                  'the elements shown by %s come from %s: they must be the first max_seq_len items of %s itself' % (f.name, detail, value),
                  nontrivial=True)
    rep.floor('C10.b', n, 20)

    # ---------------------------------------------------------------- C10.c None
    # the setting reaches the root context; None (documented: disables truncation) becomes an integer no container length exceeds
    # (an int, because islice rejects float infinity) - read off the interpreted entry point
    from . import entrymodel
    n = entrymodel.report(repo, rep, 'C10.c', lambda k: k in ('ctx:max_seq_len', 'ctx:max_seq_len-none-is-unlimited', 'given:single-path', 'none:single-path'),
                          'max_seq_len=None must disable truncation: len(value) > None raises TypeError inside the printer and the container degrades to repr')
    # an explicit None must survive the configuration merge (it is not "argument omitted")
    from .c18 import check_merge
    n += check_merge(repo, rep, 'C10.c')
    rep.floor('C10.c', n, 7)

    # ---------------------------------------------------------------- C10.d placement & propagation
    # read off the interpreted printers (E6): when elements were dropped the notice is rendered exactly once, as (the head of) the one
    # trailing comment - followed by the caller's trailing comment when there is one - and the container is forced to break
    n = 0
    from engine import docterm as D
    from .c11 import depth_feasible
    itd = S.interp(repo, 'printer')

    def cmts(t, out):
        if isinstance(t, D.Cmt):
            out.append(t)
        for attr in ('items', 'args', 'kwargs', 'child', 'broken', 'flat', 'left', 'right'):
            v_ = getattr(t, attr, None)
            if isinstance(v_, list):
                for x in v_:
                    for y in (x if isinstance(x, tuple) else (x,)):
                        if isinstance(y, D.T):
                            cmts(y, out)
            elif isinstance(v_, D.T):
                cmts(v_, out)
        return out
    for f in sorted(printers.values(), key=lambda x: x.key):
        keys = sorted({r.key.strip("'") for r in facts.registry(repo) if r.fn is f and r.key.strip("'") in ('list', 'tuple', 'set', 'dict')})
        for base in keys:
            for with_tc in (False, True):
                try:
                    v = ValueV('value', S.type_scenario(base, True), [Sym('x0'), Sym('x1')])
                    kw = {'trailing_comment': SymStr('CALLER-COMMENT', nonempty=True)} if with_tc else {}
                    res = S.run_printer(repo, itd, f, v, **kw)
                except Undecided as e:
                    n += 1
                    rep.undecided('C10.d', '%s[%s]' % (f.qualname, base), f.where, str(e))
                    continue
                for pr, t, ph in res:
                    if pr.raised is not None or t is None or (depth_feasible(pr.facts, 0) and not depth_feasible(pr.facts, 1)):
                        continue
                    truncated = any('max_seq_len' in k_ and v_ for k_, v_ in pr.facts)
                    if not truncated:
                        continue
                    cs = cmts(t, [])
                    notice = [c for c in cs if 'more elements' in c.prov]
                    lab = '%s[%s,%s]' % (f.qualname, base, 'with caller comment' if with_tc else 'no caller comment')
                    n += 1
                    ok = len(notice) == 1 and (not with_tc or ('CALLER-COMMENT' in notice[0].prov and
                                                                 notice[0].prov.index('more elements') < notice[0].prov.index('CALLER-COMMENT')))
                    ok = ok and (not with_tc or sum('CALLER-COMMENT' in c.prov for c in cs) == 1)
                    rep.check(ok, 'C10.d', lab + ':notice-becomes-trailing-comment', f.where, 'notice rendered once, heading the trailing comment',
                              '%s on a truncated %s (%s): the comments of the result are %s - the notice must appear exactly once, followed by the '
                              'caller\'s trailing comment when there is one' % (f.name, base, pr.fact_text()[:60], [c.prov[:70] for c in cs]), nontrivial=True)
                    n += 1
                    forced = (isinstance(t, D.Seq) and t.force) or isinstance(t, D.AB) or (isinstance(t, D.Call) and D.contains_forced_break(D.Cat(
                        [a_ for a_ in t.args if isinstance(a_, D.T)])))
                    shown = D.show(t)
                    forced = forced or 'force=True' in shown or shown.startswith('AB(')
                    rep.check(forced, 'C10.d', lab + ':notice-forces-break', f.where, 'a truncation notice forces the container to break',
                              '%s on a truncated %s returns %s: the notice is a comment, the closing bracket must not follow it on the same line'
                              % (f.name, base, shown[:90]), nontrivial=True)
    # every derived context keeps the setting, the constructor stores it (semantic model of the context class)
    from . import ctxmodel
    n += ctxmodel.report(repo, rep, 'C10.d', lambda k: 'max_seq_len' in k or k.endswith(':returns-new-context'),
                         'nested containers would not see the configured max_seq_len')
    n += ctxmodel.construction_sites(repo, rep, 'C10.d', 'the configured max_seq_len must reach every nested container')
    rep.floor('C10.d', n, 12)

    # ---------------------------------------------------------------- C10.e coverage
    n = 0
    # the container printers and the private helpers they hand the container to (the parameter that receives it plays the part
    # of ``value`` there)
    scope = [(f, f.params[0]) for f in sorted(printers.values(), key=lambda x: x.key)]
    for f, value in list(scope):
        for c in ast.walk(f.node):
            if isinstance(c, ast.Call) and isinstance(c.func, ast.Name):
                r_ = repo.resolve(f.module, c.func.id)
                if r_ and r_[0] == 'func' and r_[1].name.startswith('_') and r_[1].parent is None:
                    bound_ = dict(zip(r_[1].params, [src(a) for a in c.args]))
                    bound_.update({k.arg: src(k.value) for k in c.keywords if k.arg})
                    for p_, a_ in bound_.items():
                        if a_ == value and (r_[1], p_) not in scope:
                            scope.append((r_[1], p_))
    for f, value in scope:
        defs = single_defs(f.node)
        g = Guards(f.node)
        for node in ast.walk(f.node):
            its = []
            if isinstance(node, ast.For):
                its.append(node.iter)
            elif isinstance(node, ast.comprehension):
                its.append(node.iter)
            for it in its:
                if _direct_iteration(it, value, defs):
                    n += 1
                    rep.fail('C10.e', '%s:untruncated-loop:%s' % (f.qualname, src(it)[:40]), '%s:%d' % (f.module.relpath, it.lineno),
                             '%s iterates %s without take(max_seq_len, ...): every element is printed regardless of the limit'
                             % (f.name, src(it)))
                elif isinstance(it, ast.Call) and call_name(it) in ('take', 'islice'):
                    n += 1
                    rep.ok('C10.e', '%s:truncated-loop:%s' % (f.qualname, src(it)[:40]), '%s:%d' % (f.module.relpath, it.lineno),
                           'loop over the container goes through take')
        # list(value)[0] shortcut is dominated by len(value) == 1
        for node in ast.walk(f.node):
            if isinstance(node, ast.Subscript) and isinstance(node.value, ast.Call) and call_name(node.value) in ('list', 'tuple') \
                    and node.value.args and src(node.value.args[0]) == value:
                n += 1
                ok = any(ff.pol and ff.text.replace(' ', '') == 'len(%s)==1' % value for ff in g.of(node)) and src(node.slice) == '0'
                rep.check(ok, 'C10.e', '%s:single-element-shortcut' % f.qualname, '%s:%d' % (f.module.relpath, node.lineno),
                          'whole-container access only for len == 1',
                          '%s materialises %s outside the len(%s) == 1 shortcut' % (f.name, src(node), value), nontrivial=True)
    # the elements shown are the first N in the container's *own* iteration order: a printer must not hand on a re-hashed copy
    # (set(value) / frozenset(value) iterate in the order of a table of another size, and drop duplicates of a list)
    for r in facts.registry(repo):
        if r.fn is None or r.module is not m or r.key not in ('frozenset', 'set', 'list', 'tuple', 'deque', "'collections.deque'"):
            continue
        f = r.fn
        for c in ast.walk(f.node):
            if isinstance(c, ast.Call) and call_name(c) in ('set', 'frozenset') and c.args and src(c.args[0]) == f.params[0]:
                n += 1
                rep.fail('C10.e', '%s:rehashed-copy:%s' % (f.qualname, src(c)), '%s:%d' % (f.module.relpath, c.lineno),
                         '%s prints %s instead of the container itself: a set built from it iterates in the order of its own hash table, so '
                         'with max_seq_len the elements shown are not the first ones of the value (and the count of a list with duplicates '
                         'is wrong)' % (f.name, src(c)))
    rep.floor('C10.e', n, 3)


def _is_len_gt(test, pol, lentext, ntext):
    cp = compare_parts(test, pol)
    if not cp:
        return False
    l, op, r = cp
    return (src(l) == lentext and op == '>' and src(r) == ntext) or (src(r) == lentext and op == '<' and src(l) == ntext)


def _not_none(test, pol, text):
    cp = compare_parts(test, pol)
    return bool(cp) and src(cp[0]) == text and src(cp[2]) == 'None' and cp[1] in ('is not', '!=')


def _iterates(it, value, defs, depth=0):
    """expression iterates the container ``value`` itself (all of it, any order)"""
    if depth > 5:
        return False
    t = src(it)
    if t in (value, value + '.keys()', value + '.items()', 'iter(%s)' % value):
        return True
    if isinstance(it, ast.Call) and call_name(it) in ('sorted', 'list', 'iter', 'tuple'):
        return bool(it.args) and _iterates(it.args[0], value, defs, depth + 1)
    if isinstance(it, ast.IfExp):
        return _iterates(it.body, value, defs, depth + 1) and _iterates(it.orelse, value, defs, depth + 1)
    if isinstance(it, ast.Name):
        ds = defs.get(it.id, [])
        return bool(ds) and all(_iterates(d, value, defs, depth + 1) for d in ds)
    return False


def _direct_iteration(it, value, defs):
    if isinstance(it, ast.Call) and call_name(it) in ('take', 'islice'):
        return False
    if isinstance(it, ast.Call) and call_name(it) in ('enumerate', 'zip', 'reversed'):
        return any(_direct_iteration(a, value, defs) for a in it.args)
    return _iterates(it, value, defs)
