"""C11 -- depth cuts off exactly below the requested nesting level."""
import ast

from engine import facts
from engine.astutil import src, call_name, dotted, Guards, compare_parts, enclosing_map, names_in
from engine.flow import Flow, _walk_no_nested
from engine.linear import form, NotLinear, atom, const
from engine.loader import AnalysisError
from .ctxuse import attr_reads, single_defs, ctx_chain, print_sites

META = {
    'text': 'Static closed-use, arithmetic and dominance rules for the depth setting in the core printers: (a) depth_left is '
            'used only in comparisons with 0, in the one decrement and as pass-along, and None is normalised to +inf '
            'before the first context is built; (b) nested_call yields depth_left - 1 (canonical linear form) and every '
            'print of a child in a core container printer (sequence elements, non-string dict keys, dict values, call '
            'arguments and keyword arguments) uses a context whose derivation chain from the printer\'s own context '
            'contains exactly one nested_call(), the documented exceptions (hugged sole argument, string dict keys) being '
            'recognised by their guards; (c) every child print is dominated by the false branch of the printer\'s depth '
            'test and the true branch returns a placeholder containing the ellipsis; (d) with depth_left > 0 every test has '
            'the same outcome as with +inf. Leaf printers without a placeholder are outside the rule set.',
    'note': 'string dict keys are printed by the str printer with the dict\'s own context (source comment: "not a nested call '
            'on purpose"); recorded as a note',
    'technique': 'static analysis: closed-use classification, canonical linear forms, context-derivation chains by def-use, '
                 'guard facts (dominance)',
}

CONTAINER_KEYS = {'list', 'tuple', 'set', 'dict'}
DEPTH_TEST_KEYS = {'list', 'tuple', 'set', 'dict', 'str', 'bytes', 'int', 'float'}


def _depth_fact(f_, ctx):
    """(is a depth test, polarity meaning 'exhausted')"""
    cp = compare_parts(f_.test, f_.pol)
    if not cp:
        return None
    l, op, r = cp
    if src(l) == ctx + '.depth_left' and src(r) == '0':
        if op in ('==', '<='):
            return 'exhausted'
        if op in ('!=', '>'):
            return 'left'
    if src(r) == ctx + '.depth_left' and src(l) == '0':
        if op in ('==', '>='):
            return 'exhausted'
        if op in ('!=', '<'):
            return 'left'
    return None


def run(repo, rep):
    rep.explanation = ('R-USE closed use of depth_left (C11.a), R-LIN decrement and exactly-one-level derivation chains '
                       '(C11.b), R-GUARD no recursion below the cut and placeholder shape (C11.c).')
    rep.not_decided = 'leaf printers without a placeholder (bool, None, Ellipsis); placeholder layout.'
    rep.assumptions = ['comparisons of an int or +inf with 0']
    m = repo.module('prettyprinter')
    ATTR = 'depth_left'
    ci = repo.cls('prettyprinter', 'PrettyContext')

    # ---------------------------------------------------------------- C11.a
    n = 0
    for f, node in attr_reads(repo, ATTR):
        par = enclosing_map(f.node)
        p = par.get(id(node))
        use = None
        if isinstance(p, ast.Compare) and len(p.ops) == 1:
            other = p.comparators[0] if p.left is node else p.left
            if src(other) == '0' and type(p.ops[0]) in (ast.Eq, ast.LtE, ast.Gt, ast.NotEq, ast.GtE, ast.Lt):
                use = 'compare with 0'
        elif isinstance(p, ast.BinOp) and isinstance(p.op, ast.Sub) and p.left is node and src(p.right) == '1' \
                and f.cls is ci:
            use = 'decrement in %s' % f.name
        elif isinstance(p, ast.keyword) and p.arg == ATTR:
            use = 'pass-along'
        n += 1
        rep.check(use is not None, 'C11.a', '%s:use:%s' % (f.qualname, use or src(p)[:50]), '%s:%d' % (f.module.relpath, node.lineno),
                  'allowed use: %s' % use,
                  '%s uses depth_left in %s: outside the closed set of uses (compare with 0, the decrement, pass along)'
                  % (f.key, src(p)[:80]), nontrivial=True)
    rep.floor('C11.a', n, 8)
    # an explicit depth=None (no limit) must reach the pipeline as None, whatever default was configured (imported from C18.b)
    from .c18 import check_merge
    rep.floor('C11.a:explicit-none', check_merge(repo, rep, 'C11.a'), 6)
    # depth reaches the root context; None means unlimited (read off the interpreted entry point)
    from . import entrymodel
    n2 = entrymodel.report(repo, rep, 'C11.a', lambda k: k in ('ctx:depth', 'ctx:depth-none-is-unlimited', 'given:single-path', 'none:single-path',
                                                                 'value-printed', 'context-is-a-PrettyContext'),
                           'the requested depth does not reach the root context')
    from . import ctxmodel
    n2 += ctxmodel.report(repo, rep, 'C11.a', lambda k: k == 'ctor:stores:depth_left')

    # ---------------------------------------------------------------- C11.b
    n = 0
    n += ctxmodel.report(repo, rep, 'C11.b', lambda k: 'depth_left' in k and not k.startswith('ctor:') or k.endswith(':returns-new-context'),
                         'one nesting level must cost exactly one unit of depth')
    printers = {}
    for r in facts.registry(repo):
        if r.key in CONTAINER_KEYS and r.fn is not None and r.module is m:
            printers[r.fn.key] = r.fn
    pca = m.funcs.get('pretty_call_alt')
    if pca is None:
        raise AnalysisError('pretty_call_alt vanished')
    targets = list(printers.values()) + [pca]
    for f in sorted(targets, key=lambda x: x.key):
        ctx = 'ctx'
        value = f.params[0] if f is not pca else None
        defs = single_defs(f.node)
        g = Guards(f.node)
        for call, val, ctxe, entry in print_sites(f.node):
            if ctxe is None or val is None:
                continue
            ch = ctx_chain(ctxe, defs)
            label = '%s:child-print:%s(%s)' % (f.qualname, entry, src(val)[:30])
            n += 1
            if ch is None or ch[0] != ctx:
                rep.undecided('C11.b', label, '%s:%d' % (f.module.relpath, call.lineno),
                              'context expression %s is not a derivation chain of ctx' % src(ctxe))
                continue
            k = ch[1].count('nested_call')
            other = [x for x in ch[1] if x not in ('nested_call', 'use_multiline_strategy', 'assoc')]
            if other:
                rep.undecided('C11.b', label, '%s:%d' % (f.module.relpath, call.lineno), 'unknown context method %s' % other)
                continue
            if k == 1:
                rep.ok('C11.b', label, '%s:%d' % (f.module.relpath, call.lineno), 'child printed one level deeper', nontrivial=True)
                continue
            # documented exceptions
            fs = g.of(call)
            if k == 0 and entry == 'pretty_str' and any(ff.pol and ff.text.replace(' ', '') in (
                    'isinstance(%s,(str,bytes))' % src(val), 'isinstance(%s,str)' % src(val)) for ff in fs):
                rep.ok('C11.b', label, '%s:%d' % (f.module.relpath, call.lineno),
                       'string dict key printed with the dict\'s own context (documented exception)')
                rep.note('string dict keys do not consume a depth level (%s:%d, "not a nested call on purpose")' % (f.module.relpath, call.lineno))
                continue
            if k == 0 and f is pca and any(ff.pol and 'in (list, dict, tuple)' in ff.text for ff in fs) and \
                    any(ff.pol and ff.text.replace(' ', '') == 'len(args)==1' for ff in fs):
                rep.ok('C11.b', label, '%s:%d' % (f.module.relpath, call.lineno),
                       'hugged sole list/dict/tuple argument does not consume a level (documented exception)')
                continue
            rep.fail('C11.b', label, '%s:%d' % (f.module.relpath, call.lineno),
                     '%s prints the child %s with a context derived through %d nested_call() steps (%s); each container must '
                     'consume exactly one depth level' % (f.name, src(val), k, src(ctxe)))
    n += ctxmodel.construction_sites(repo, rep, 'C11.b', 'the remaining depth must be derived level by level')
    rep.floor('C11.b', n, 9)
    # C11.d: the depth a container is cut at depends on where it occurs, not on where it was printed first (interpreted wrapper
    # model: the same container at two nesting levels with the cut between them)
    from . import wrapper_model
    rep.floor('C11.d', wrapper_model.run(repo, rep, 'C11'), 4)

    # ---------------------------------------------------------------- C11.c
    n = 0
    need_test = {}
    for r in facts.registry(repo):
        if r.key in DEPTH_TEST_KEYS and r.fn is not None and r.module is m:
            need_test[r.fn.key] = r.fn
    need_test[pca.key] = pca
    for f in sorted(need_test.values(), key=lambda x: x.key):
        ctx = f.params[1] if f is not pca else f.params[0]
        g = Guards(f.node)
        tests = []
        for node in ast.walk(f.node):
            if isinstance(node, ast.If):
                for at in _atoms(node.test):
                    d = _depth_fact(at, ctx)
                    if d:
                        tests.append((node, d))
        n += 1
        rep.check(len(tests) >= 1, 'C11.c', '%s:has-depth-test' % f.qualname, f.where, 'printer tests the remaining depth',
                  '%s never tests ctx.depth_left: values below the cut are printed in full' % f.name, nontrivial=True)
        # placeholder returns: every return under 'exhausted' mentions the ellipsis
        for r_ in ast.walk(f.node):
            if isinstance(r_, ast.Return) and r_.value is not None:
                fs = g.of(r_)
                kinds = {_depth_fact(ff, ctx) for ff in fs} - {None}
                if 'exhausted' in kinds:
                    n += 1
                    env = single_defs(f.node)
                    txt = src(r_.value)
                    closure = txt
                    for nm in names_in(r_.value):
                        for d in env.get(nm, []):
                            closure += ' ' + src(d)
                    okp = 'ELLIPSIS' in closure or '...' in closure or 'Ellipsis' in closure
                    rep.check(okp, 'C11.c', '%s:placeholder-has-ellipsis@%s' % (f.qualname, _ret_label(r_, g, ctx)),
                              '%s:%d' % (f.module.relpath, r_.lineno), 'placeholder shows the ellipsis',
                              '%s returns %s when the depth is exhausted: no ellipsis placeholder' % (f.name, txt[:80]), nontrivial=True)
                    rec = [c for c in ast.walk(r_.value) if isinstance(c, ast.Call) and call_name(c) in ('pretty_python_value', 'pretty_dispatch')]
                    n += 1
                    rep.check(not rec, 'C11.c', '%s:placeholder-no-recursion@%s' % (f.qualname, _ret_label(r_, g, ctx)),
                              '%s:%d' % (f.module.relpath, r_.lineno), 'placeholder does not print children',
                              '%s still prints children in its depth placeholder' % f.name)
        # child prints dominated by 'left'
        if f.key in printers or f is pca:
            for call, val, ctxe, entry in print_sites(f.node):
                if val is None:
                    continue
                fs = g.of(call)
                kinds = [_depth_fact(ff, ctx) for ff in fs]
                n += 1
                rep.check('left' in kinds and 'exhausted' not in kinds, 'C11.c',
                          '%s:child-print-above-cut:%s(%s)' % (f.qualname, entry, src(val)[:30]),
                          '%s:%d' % (f.module.relpath, call.lineno), 'child printed only while depth is left',
                          '%s prints the child %s on a path where the remaining depth was not tested to be positive (%s): '
                          'recursion continues below the cut' % (f.name, src(val), [t for t in g.texts(call) if 'depth' in t] or 'no depth fact'),
                          nontrivial=True)
    rep.floor('C11.c', n, 25)
    rep.count(n + n2)


def _atoms(test):
    from engine.astutil import atomise
    return atomise(test, True)


def _ret_label(r, g, ctx):
    fs = [ff for ff in g.of(r) if _depth_fact(ff, ctx) is None]
    return '&'.join(sorted({('' if ff.pol else '!') + ff.text[:28] for ff in fs})) or 'direct'
