"""C11 -- depth cuts off exactly below the requested nesting level."""
import ast

from engine import facts
from engine.astutil import src, call_name, dotted, Guards, compare_parts, enclosing_map, names_in
from engine.flow import Flow, _walk_no_nested
from engine.linear import form, NotLinear, atom, const
from engine.loader import AnalysisError
from . import shape as S
from . import ctxmodel
from .ctxuse import attr_reads, single_defs, ctx_chain, print_sites

META = {
    'text': 'The depth setting, decided on interpreted code: (a) closed-use classification of depth_left (comparisons with 0, the one '
            'decrement, pass-along); the interpreted entry point hands the requested depth to the root context, None becomes '
            '+inf, and an explicit None survives the configuration merge (imported C18.b); (b) the context class interpreted: '
            'nested_call yields depth_left - 1 and keeps everything else, contexts are built from scratch only by the entry point; '
            'the core container printers and the call builder are interpreted (E6) on native and subclass scenarios and every child '
            'document on a path with depth left was printed under exactly one nested_call() (hugged sole argument and string dict keys '
            'excepted, as documented); (c) for every interpreted path the tests on the remaining depth are evaluated at 0 and at 1: a '
            'path taken with no depth left returns the ellipsis placeholder and prints nothing below, a path taken with one level left '
            'prints its children (no early cut); the same for the leaf printers that have a placeholder (str, bytes, int, float); '
            '(d) the wrapper model: the same container at two nesting levels is cut where it occurs, not where it was first printed.',
    'note': 'string dict keys are printed by the str printer with the dict\'s own context (source comment: "not a nested call '
            'on purpose")',
    'technique': 'static analysis: abstract interpretation of the printers, the call builder, the context class and the entry point; '
                 'small-scope evaluation of the depth tests of each path; closed-use classification',
}
META['text'] += " Round 5: (b) container printers are also run on sequences scaled past their size constants with elements of known kinds: on a path taken with one depth level left no element is written as a literal; a branch on 'more than k levels left' in a judged printer (or its private helper) is an allowed use."

CONTAINER_KEYS = {'list', 'tuple', 'set', 'dict'}
DEPTH_TEST_KEYS = {'list', 'tuple', 'set', 'dict', 'str', 'bytes', 'int', 'float'}


def _depth_fact(f_, ctx):
    """(is a depth test, polarity meaning 'exhausted')"""
    cp = compare_parts(f_.test, f_.pol)
    if not cp:
        return None
    l, op, r = cp
    if src(l) == ctx + '.depth_left' and src(r) == '0':
        if op in ('==', '<='):
            return 'exhausted'
        if op in ('!=', '>'):
            return 'left'
    if src(r) == ctx + '.depth_left' and src(l) == '0':
        if op in ('==', '>='):
            return 'exhausted'
        if op in ('!=', '<'):
            return 'left'
    return None


def is_placeholder(t):
    """a depth placeholder: the call T(...) with the ellipsis as its only argument, or brackets around the text '...'"""
    from engine import docterm as D
    if isinstance(t, D.Call):
        if len(t.args) != 1 or t.kwargs:
            return False
        a0 = t.args[0]
        if isinstance(a0, D.T):
            return is_placeholder(a0) or D.show(a0).strip() == 'Ellipsis'
        return 'Ellipsis' in str(a0)
    found = []

    def walk(x):
        if isinstance(x, D.Text) and x.s == '...':
            found.append(x)
        for attr in ('items', 'child', 'broken', 'flat'):
            v = getattr(x, attr, None)
            if isinstance(v, list):
                for y in v:
                    if isinstance(y, D.T):
                        walk(y)
            elif isinstance(v, D.T):
                walk(v)
    walk(t)
    return bool(found)


def depth_feasible(facts, d):
    """is the conjunction of the path's tests on the remaining depth satisfied when that depth is d?  (other tests are ignored);
    None when a depth test cannot be evaluated"""
    import re
    for key, val in facts:
        if 'depth_left' not in key:
            continue
        if key.startswith(('type(', 'isinstance(')) or ' == type(' in key:
            continue        # what kind of number the remaining depth is, not how much is left
        expr = re.sub(r'[\w\.\[\]]*depth_left(?:-(\d+))?', lambda m_: '(D-%s)' % (m_.group(1) or '0'), key)
        if not re.fullmatch(r"[\sD\d\(\)\-\+<>=!]+", expr):
            return None
        try:
            got = bool(eval(expr, {'__builtins__': {}}, {'D': d}))      # arithmetic comparison text produced by the interpreter itself
        except Exception:
            return None
        if got != bool(val):
            return False
    return True


def _is_branch_test(par, node):
    """node is (part of a boolean combination that is) the test of an if / while / conditional expression"""
    cur = node
    while True:
        p = par.get(id(cur))
        if isinstance(p, (ast.BoolOp, ast.UnaryOp)) and (not isinstance(p, ast.UnaryOp) or isinstance(p.op, ast.Not)):
            cur = p
            continue
        if isinstance(p, ast.Return):
            return True         # the value a predicate helper returns: a branch test of its caller
        return isinstance(p, (ast.If, ast.While, ast.IfExp)) and p.test is cur


def run(repo, rep):
    rep.explanation = ('R-USE closed use of depth_left (C11.a), R-LIN decrement and exactly-one-level derivation chains '
                       '(C11.b), R-GUARD no recursion below the cut and placeholder shape (C11.c).')
    rep.not_decided = 'leaf printers without a placeholder (bool, None, Ellipsis); placeholder layout.'
    rep.assumptions = ['comparisons of an int or +inf with 0']
    m = repo.module('prettyprinter')
    ATTR = 'depth_left'
    ci = repo.cls('prettyprinter', 'PrettyContext')

    # ---------------------------------------------------------------- C11.a
    n = 0
    # the printers whose every path is judged at the cut and one level above it (C11.b / C11.c below)
    judged = set()
    for base_ in ('list', 'tuple', 'set', 'frozenset', 'dict', 'str', 'bytes', 'int', 'float'):
        try:
            judged.add(S.printer_for(repo, base_).key)
        except AnalysisError:
            pass
    # the printers whose paths are judged, and the private module functions they call (interpreted with them)
    by_name = {g_.name: g_ for g_ in m.funcs.values() if g_.cls is None and g_.parent is None}
    todo_ = [g_ for g_ in m.funcs.values() if g_.key in judged]
    while todo_:
        g_ = todo_.pop()
        for c_ in ast.walk(g_.node):
            if isinstance(c_, ast.Call) and isinstance(c_.func, ast.Name) and c_.func.id.startswith('_') and c_.func.id in by_name \
                    and by_name[c_.func.id].key not in judged:
                judged.add(by_name[c_.func.id].key)
                todo_.append(by_name[c_.func.id])
    reads = list(attr_reads(repo, ATTR))
    seen_alias = set()
    for f, node in reads:
        par = enclosing_map(f.node)
        p = par.get(id(node))
        use = None
        if isinstance(p, ast.Assign) and len(p.targets) == 1 and isinstance(p.targets[0], ast.Name) and p.value is node and f.cls is not ci:
            # a local name for the setting: every use of that name is a use of the setting
            use = 'local alias'
            al = p.targets[0].id
            if (f.key, al) not in seen_alias:
                seen_alias.add((f.key, al))
                for x in ast.walk(f.node):
                    if isinstance(x, ast.Name) and x.id == al and isinstance(x.ctx, ast.Load):
                        reads.append((f, x))
        elif isinstance(p, ast.Call) and call_name(p) in ('type', 'isinstance') and p.args and p.args[0] is node:
            use = 'type test'
        elif isinstance(p, ast.BinOp) and isinstance(p.op, ast.Sub) and p.left is node and src(p.right) == '1' \
                and isinstance(par.get(id(p)), ast.keyword) and par[id(p)].arg == ATTR and isinstance(par.get(id(par[id(p)])), ast.Call) \
                and ctxmodel._derives_like_public(repo, f, par[id(par[id(p)])]):
            # the decrement handed to the copier by a helper that - interpreted - derives contexts the way nested_call does
            use = 'decrement in the derivation helper %s' % f.name
        elif isinstance(p, ast.BinOp) and isinstance(p.op, ast.Sub) and p.left is node and src(p.right) == '1' and f.key in judged \
                and isinstance(par.get(id(p)), ast.Compare) and len(par[id(p)].ops) == 1 and par[id(p)].left is p \
                and src(par[id(p)].comparators[0]) == '0' and _is_branch_test(par, par[id(p)]):
            # "what is left after one more level" compared with 0 in a branch test of a judged printer (or its helper)
            use = 'decrement compared with 0 in a branch test'
        if use is not None:
            pass
        elif isinstance(p, ast.Compare) and len(p.ops) == 1:
            other = p.comparators[0] if p.left is node else p.left
            if src(other) == '0' and type(p.ops[0]) in (ast.Eq, ast.LtE, ast.Gt, ast.NotEq, ast.GtE, ast.Lt):
                use = 'compare with 0'
            elif isinstance(other, ast.Constant) and type(other.value) is int and other.value > 0 and _is_branch_test(par, p) and f.key in judged:
                # a test "more than k levels left" that only selects a branch of a printer whose paths are judged below: what each branch
                # prints at the cut and one level above it is decided there (C11.b / C11.c), with this test among the path's facts
                use = 'branch on a comparison with %d' % other.value
        elif isinstance(p, ast.BinOp) and isinstance(p.op, ast.Sub) and p.left is node and src(p.right) == '1' \
                and f.cls is ci:
            use = 'decrement in %s' % f.name
        elif isinstance(p, ast.keyword) and p.arg == ATTR:
            use = 'pass-along'
        n += 1
        rep.check(use is not None, 'C11.a', '%s:use:%s' % (f.qualname, use or src(p)[:50]), '%s:%d' % (f.module.relpath, node.lineno),
                  'allowed use: %s' % use,
                  '%s uses depth_left in %s: outside the closed set of uses (compare with 0, the decrement, pass along)'
                  % (f.key, src(p)[:80]), nontrivial=True)
    rep.floor('C11.a', n, 8)
    # an explicit depth=None (no limit) must reach the pipeline as None, whatever default was configured (imported from C18.b)
    from .c18 import check_merge
    rep.floor('C11.a:explicit-none', check_merge(repo, rep, 'C11.a'), 6)
    # depth reaches the root context; None means unlimited (read off the interpreted entry point)
    from . import entrymodel
    n2 = entrymodel.report(repo, rep, 'C11.a', lambda k: k in ('ctx:depth', 'ctx:depth-none-is-unlimited', 'given:single-path', 'none:single-path',
                                                                 'value-printed', 'context-is-a-PrettyContext'),
                           'the requested depth does not reach the root context')
    n2 += ctxmodel.report(repo, rep, 'C11.a', lambda k: k == 'ctor:stores:depth_left')

    # ---------------------------------------------------------------- C11.b
    n = 0
    n += ctxmodel.report(repo, rep, 'C11.b', lambda k: 'depth_left' in k and not k.startswith('ctor:') or k.endswith(':returns-new-context'),
                         'one nesting level must cost exactly one unit of depth')
    # children of the core container printers and of the call builder: read off the interpreted printers (E6).  On every path with
    # depth left, every child document was printed under a context derived through exactly one nested_call(); on every path with the
    # depth exhausted nothing below is printed and the placeholder shows the ellipsis (C11.c).  String dict keys go through the
    # string printer with the dict's own context (documented exception, they show up as contextual documents, not as children).
    from engine import docterm as D
    from engine.interp import ValueV, Sym as _Sym, Undecided as _Undecided
    nc = 0

    def subs(t, out):
        if isinstance(t, D.Sub):
            out.append(t)
        for attr in ('items', 'args', 'kwargs', 'child', 'broken', 'flat', 'left', 'right'):
            v = getattr(t, attr, None)
            if isinstance(v, list):
                for x in v:
                    for y in (x if isinstance(x, tuple) else (x,)):
                        if isinstance(y, D.T):
                            subs(y, out)
            elif isinstance(v, D.T):
                subs(v, out)
        return out
    itp = S.interp(repo, 'printer')
    for base in ('list', 'tuple', 'set', 'frozenset', 'dict'):
        for native in (True, False):
            # one and two elements of unknown type; and - a branch taken only for many elements of one kind - more elements than every
            # size constant the printer compares against (and than a fixed small count), of known kinds
            try:
                counts_ = S.scaled_counts(repo, S.printer_for(repo, base))[0] if native and base != 'dict' else []
            except AnalysisError:
                counts_ = []
            for k, kind_ in [(1, None), (2, None)] + [(c_, kd_) for c_ in counts_ for kd_ in ('int', 'float', 'Sub_int')]:
                try:
                    fn = S.printer_for(repo, base)
                    v = ValueV('value', S.type_scenario(base, native), S.typed_elements(k, kind_))
                    res = S.run_printer(repo, itp, fn, v)
                except (_Undecided, AnalysisError) as e:
                    n += 1
                    rep.undecided('C11.b', 'children[%s,%s,n=%d]' % (base, 'native' if native else 'subclass', k), m.relpath, str(e))
                    continue
                for pr, t, ph in res:
                    if pr.raised is not None:
                        # a container printer that raises degrades the value to its plain repr - which ignores the depth limit
                        nc += 1
                        rep.fail('C11.c', '%s[%s,%s,n=%d]:raises{%s}' % (fn.name, base, 'native' if native else 'subclass', k, pr.fact_text()[:60]), fn.where,
                                 '%s raises %s on the path (%s): the value falls back to repr(value), which prints everything below the cut'
                                 % (fn.name, pr.raised.what[:80], pr.fact_text()[:100]))
                        continue
                    if t is None:
                        continue
                    lab = '%s[%s,%s,n=%d%s]' % (fn.name, base, 'native' if native else 'subclass', k, ',' + kind_ if kind_ else '')
                    ch = subs(t, [])
                    shown = D.show(t)
                    if isinstance(t, D.Call) and t.via != 'build_fncall' and not ch and not any('depth_left' in key for key, _ in pr.facts):
                        continue        # delegated to the call builder (pretty_call / pretty_call_alt): decided there (C17.b import below)
                    at0, at1 = depth_feasible(pr.facts, 0), depth_feasible(pr.facts, 1)
                    nc += 1
                    if at0 is None or at1 is None:
                        rep.undecided('C11.c', lab + ':depth-tests', fn.where, 'cannot evaluate the depth tests of the path (%s)' % pr.fact_text()[:100])
                        continue
                    placeholder = not ch and is_placeholder(t)
                    if at0:
                        rep.check(placeholder, 'C11.c', lab + ':placeholder', fn.where, 'with no depth left nothing below is printed; the placeholder shows the ellipsis',
                                  '%s on a path taken when no depth is left (%s) returns %s: values below the cut are printed / no ellipsis placeholder'
                                  % (fn.name, pr.fact_text()[:80] or 'no tests', shown[:100]), nontrivial=True)
                    elif at1:
                        rep.check(not placeholder, 'C11.c', lab + ':no-early-cut', fn.where, 'with one level left the children are printed',
                                  '%s returns the placeholder %s on a path taken when one level of depth is left (%s): the cut comes a level too early'
                                  % (fn.name, shown[:80], pr.fact_text()[:80]), nontrivial=True)
                        bad = [(c.prov, c.ctx) for c in ch if not str(c.ctx).startswith('ctx+1:')]
                        # an element written out directly (its repr, a literal) where it must be shown as a placeholder: with one level
                        # left the elements themselves are at the cut
                        lits = [(nm_, D.show(i_)[:60]) for nm_, how_, i_ in (S.element_view(t.items) if isinstance(t, D.Seq) else []) if how_ == 'literal']
                        others = [i_ for nm_, how_, i_ in (S.element_view(t.items) if isinstance(t, D.Seq) else []) if how_ == 'other']
                        n += 1
                        cut_ = pr.assumed('max_seq_len <', True)     # a path that shows a prefix of the elements - possibly none
                        rep.check(not bad and not lits and (bool(ch) or bool(others) or cut_), 'C11.b', lab + ':children-one-level-deeper', fn.where, 'every child printed one level deeper',
                                  ('%s writes the element %s as %s on a path taken when one level of depth is left (%s): the elements are at the cut there and '
                                   'must be shown as placeholders' % (fn.name, lits[0][0], lits[0][1], pr.fact_text()[:80])) if lits and not bad else
                                  '%s prints %s under contexts that are not exactly one nested_call() below its own (children found: %d): each container '
                                  'must consume exactly one depth level' % (fn.name, bad or 'no child at all', len(ch)), nontrivial=True)
    # leaf printers that have a placeholder (strings, numbers): the same cut
    for base in ('str', 'bytes', 'int', 'float'):
        try:
            fn = S.printer_for(repo, base)
            res = S.run_printer(repo, itp, fn, ValueV('value', S.type_scenario(base, True), None))
        except (_Undecided, AnalysisError) as e:
            nc += 1
            rep.undecided('C11.c', 'leaf[%s]' % base, m.relpath, str(e))
            continue
        for pr, t, ph in res:
            if pr.raised is not None or t is None:
                continue
            at0 = depth_feasible(pr.facts, 0)
            if at0:
                nc += 1
                shown = D.show(t)
                rep.check(is_placeholder(t), 'C11.c', '%s[%s]:placeholder' % (fn.name, base), fn.where, 'with no depth left the value is shown as T(...)',
                          '%s on a path taken when no depth is left (%s) returns %s instead of the %s(...) placeholder'
                          % (fn.name, pr.fact_text()[:60] or 'no tests', shown[:80], base), nontrivial=True)
    rep.count(nc)
    # the call builder: imported from C17.b (children of a call one level deeper, hugged sole argument excepted, F(...) at the cut)
    from .common import import_instances
    n += import_instances(repo, rep, 'C17', lambda i: i.rule == 'C17.b' and i.construct.endswith((':nested-context', ':hug-context', ':hug-only-exact-builtin-containers')), 'C11.b',
                          'arguments of a call must be printed exactly one level deeper')
    nc += import_instances(repo, rep, 'C17', lambda i: i.rule == 'C17.b' and i.construct.endswith(':depth-placeholder'), 'C11.c',
                           'a call at the cut must be shown as F(...)')
    n += ctxmodel.construction_sites(repo, rep, 'C11.b', 'the remaining depth must be derived level by level')
    rep.floor('C11.b', n, 9)
    # C11.d: the depth a container is cut at depends on where it occurs, not on where it was printed first (interpreted wrapper
    # model: the same container at two nesting levels with the cut between them)
    from . import wrapper_model
    rep.floor('C11.d', wrapper_model.run(repo, rep, 'C11'), 4)

    # ---------------------------------------------------------------- C11.c (recorded above, together with C11.b)
    n = nc
    rep.floor('C11.c', n, 25)
    rep.count(n + n2)


def _atoms(test):
    from engine.astutil import atomise
    return atomise(test, True)


def _ret_label(r, g, ctx):
    fs = [ff for ff in g.of(r) if _depth_fact(ff, ctx) is None]
    return '&'.join(sorted({('' if ff.pol else '!') + ff.text[:28] for ff in fs})) or 'direct'
