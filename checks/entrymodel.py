"""python_to_sdocs decided semantically: the pipeline entry is interpreted (no execution) with the printer dispatch and the layout
as recording primitives and the context class interpreted for real.  Facts about what reaches the root context and the layout
are read off the recorded calls - however the source spells them (temporaries, positional or keyword arguments, helpers)."""
from engine.interp import (Const, Sym, SymStr, ListV, TupleV, DictV, SetV, ObjV, TypeV, Prim, NONE, Undecided, Raised, PathLimit, Interp, prov)
from engine.loader import AnalysisError

_CACHE = {}


def facts(repo):
    """dict of named facts; raises AnalysisError when the entry cannot be interpreted"""
    key = id(repo)
    if key in _CACHE and _CACHE[key][0] is repo:
        return _CACHE[key][1]
    m = repo.module('prettyprinter')
    pts = m.funcs.get('python_to_sdocs')
    if pts is None:
        raise AnalysisError('python_to_sdocs vanished')
    lay = repo.module('layout')
    out = {'where': pts.where}

    def run(kw):
        log = {'print': [], 'layout': []}

        def p_print(it, a, k, n):
            f = m.funcs['pretty_python_value']
            b = dict(zip(f.params, a))
            b.update(k)
            log['print'].append(b)
            return Const('<doc>')

        def p_layout(name):
            def h(it, a, k, n):
                f = lay.funcs[name]
                b = dict(zip(f.params, a))
                b.update(k)
                # defaults of the layout function that were not given
                for p_, d_ in zip(reversed(f.node.args.args), reversed(f.node.args.defaults)):
                    b.setdefault(p_.arg, Sym('<default:%s>' % p_.arg))
                log['layout'].append((name, b))
                return Sym('<sdocs>')
            return h
        prims = {'pretty_python_value': p_print, 'layout_smart': p_layout('layout_smart'), 'layout_fast': p_layout('layout_fast')}
        if 'best_layout' in lay.funcs:
            prims['best_layout'] = p_layout('best_layout')
        it = Interp(repo, prims, max_paths=8)
        it.concrete_context = True
        it.concrete_classes = {'PrettyContext'}
        prs = it.explore(pts, [Sym('VALUE')], kw)
        return prs, log
    base = {'indent': Const(3), 'width': Const(40), 'depth': Const(7), 'ribbon_width': Const(20), 'max_seq_len': Const(5), 'sort_dict_keys': Const(True)}
    missing = [p for p in base if p not in pts.params]
    if missing:
        raise AnalysisError('python_to_sdocs no longer takes %s' % missing)
    try:
        prs, log = run(dict(base))
        prs2, log2 = run(dict(base, depth=NONE, max_seq_len=NONE, width=Const(20), ribbon_width=Const(40)))
        prs3, log3 = run(dict(base))
    except (Undecided, PathLimit) as e:
        raise AnalysisError('python_to_sdocs cannot be interpreted: %s' % e)
    for tag, p_, l_ in (('given', prs, log), ('none', prs2, log2)):
        ok = len(p_) == 1 and p_[0].raised is None and len(l_['print']) == 1 and len(l_['layout']) == 1
        out['%s:single-path' % tag] = ok
        if not ok:
            out['%s:why' % tag] = 'paths=%d raised=%s prints=%d layouts=%d' % (len(p_), p_[0].raised.what if p_ and p_[0].raised else None, len(l_['print']), len(l_['layout']))
    if not (out['given:single-path'] and out['none:single-path']):
        _CACHE[key] = (repo, out)
        return out

    def ctx_of(l_):
        c = l_['print'][0].get('ctx')
        return c if isinstance(c, ObjV) else None
    c1, c2, c3 = ctx_of(log), ctx_of(log2), ctx_of(log3)
    out['value-printed'] = prov(log['print'][0].get('value')) == 'VALUE'
    out['context-is-a-PrettyContext'] = c1 is not None and c2 is not None
    if c1 is not None and c2 is not None:
        g = lambda c, a: c.attrs.get(a)
        out['ctx:indent'] = isinstance(g(c1, 'indent'), Const) and g(c1, 'indent').v == 3
        out['ctx:depth'] = isinstance(g(c1, 'depth_left'), Const) and g(c1, 'depth_left').v == 7
        d2 = g(c2, 'depth_left')
        out['ctx:depth-none-is-unlimited'] = isinstance(d2, Const) and isinstance(d2.v, (int, float)) and d2.v == float('inf')
        out['ctx:depth-none-is-unlimited:got'] = prov(d2) if d2 is not None else None
        out['ctx:max_seq_len'] = isinstance(g(c1, 'max_seq_len'), Const) and g(c1, 'max_seq_len').v == 5
        m2 = g(c2, 'max_seq_len')
        out['ctx:max_seq_len-none-is-unlimited'] = isinstance(m2, Const) and isinstance(m2.v, int) and not isinstance(m2.v, bool) and m2.v >= 2 ** 31
        out['ctx:max_seq_len-none-is-unlimited:got'] = prov(m2) if m2 is not None else None
        out['ctx:sort_dict_keys'] = isinstance(g(c1, 'sort_dict_keys'), Const) and g(c1, 'sort_dict_keys').v is True
        v1, v3 = g(c1, 'visited'), (g(c3, 'visited') if c3 is not None else None)
        out['ctx:visited-fresh-per-call'] = isinstance(v1, SetV) and isinstance(v3, SetV) and v1 is not v3 and not v1.items and not v3.items
    for tag, l_, w_, r_ in (('given', log, 40, 0.5), ('none', log2, 20, 1.0)):
        name, b = l_['layout'][0]
        out['layout:%s:strategy' % tag] = name
        out['layout:%s:doc' % tag] = prov(b.get('doc', b.get(list(b)[0] if b else '', NONE))) == repr('<doc>')
        wv = b.get('width')
        out['layout:%s:width' % tag] = isinstance(wv, Const) and wv.v == w_
        out['layout:%s:width:got' % tag] = prov(wv) if wv is not None else None
        rf = b.get('ribbon_frac')
        out['layout:%s:ribbon_frac' % tag] = isinstance(rf, Const) and isinstance(rf.v, (int, float)) and abs(rf.v - r_) < 1e-9
        out['layout:%s:ribbon_frac:got' % tag] = prov(rf) if rf is not None else None
    # the ribbon: for page widths and ribbon widths up to and past every size constant the entry compares against, the fraction handed
    # to the layout gives back the requested ribbon - round(ribbon_frac * width) == min(ribbon_width, width), the layout's own formula
    from engine import thresholds
    mined, _b = thresholds.mine([m], fns=[pts.node], most=2000)
    widths = sorted(set(list(range(1, 41)) + [50, 64, 72, 79, 80, 99, 100, 101, 120, 150, 200, 256, 300] + [t + d for t in mined for d in (1, 7, t // 2 + 1)]))
    bad = None
    cnt = 0
    try:
        for w_ in widths:
            for r_ in sorted({1, max(1, w_ // 3), max(1, w_ // 2), max(1, w_ - 1), w_, w_ + 5, 71} if w_ > 3 else {1, w_, w_ + 2}):
                prs_, log_ = run(dict(base, width=Const(w_), ribbon_width=Const(r_)))
                if len(prs_) != 1 or prs_[0].raised is not None or len(log_['layout']) != 1:
                    raise Undecided('python_to_sdocs(width=%d, ribbon_width=%d) forks / raises' % (w_, r_))
                b_ = log_['layout'][0][1]
                rf_, wv_ = b_.get('ribbon_frac'), b_.get('width')
                if not (isinstance(rf_, Const) and isinstance(rf_.v, (int, float)) and isinstance(wv_, Const) and wv_.v == w_):
                    raise Undecided('the layout is called with ribbon_frac=%s width=%s' % (prov(rf_) if rf_ is not None else None, prov(wv_) if wv_ is not None else None))
                cnt += 1
                eff = max(0, min(w_, round(rf_.v * w_)))
                if eff != min(r_, w_) and bad is None:
                    bad = 'width=%d, ribbon_width=%d: the layout is given ribbon_frac=%r, which gives a ribbon of %d columns instead of %d' % (w_, r_, rf_.v, eff, min(r_, w_))
        out['layout:ribbon-grid'] = bad is None and cnt >= 100
        out['layout:ribbon-grid:got'] = bad or ('%d combinations' % cnt)
    except (Undecided, PathLimit) as e:
        out['layout:ribbon-grid'] = False
        out['layout:ribbon-grid:got'] = 'not interpretable: %s' % e
    _CACHE.clear()
    _CACHE[key] = (repo, out)
    return out


def report(repo, rep, rule, select, why=''):
    f = facts(repo)
    n = 0
    for k, v in sorted(f.items()):
        if k in ('where',) or k.endswith((':why', ':got', ':strategy')) or not select(k):
            continue
        n += 1
        got = f.get(k + ':got')
        rep.check(bool(v), rule, 'entry:' + k, f['where'], 'python_to_sdocs, interpreted: %s' % k,
                  '%sinterpreting python_to_sdocs(value, indent=3, width=40|20, depth=7|None, ribbon_width=20|40, max_seq_len=5|None, sort_dict_keys=True): '
                  'the fact %s does not hold%s%s' % ((why + ': ') if why else '', k, (' (got %s)' % got) if got is not None else '',
                                                     (' [' + f.get(k.split(':')[0] + ':why', '') + ']') if f.get(k.split(':')[0] + ':why') else ''), nontrivial=True)
    return n
