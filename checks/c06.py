"""C06 -- whatever fits on one line is put on one line."""
from .layout_arith import run_arith

META = {
    'text': 'Static conformance of the same width arithmetic in the >= direction: a budget smaller than '
            'min(width - column, indent + ribbon - column), a guard stricter than budget >= 0, text charged more '
            'than its length, a ribbon fraction not clamped to 1 or a predicate that fails early makes a fitting '
            'group break, so each canonical-form equality is a necessary condition. Additionally forced breaks '
            '(AlwaysBreak fails both predicates; the printers\' own always_break choices) are shown independent of '
            'the layout configuration. That every fitting group is in fact laid out flat, and the pformat-level '
            'sentence about one-line values, are run-time statements and are NOT decided.',
    'note': 'same trusted base as C05; the smart look-ahead rule (continue past a hard break only while indent > '
            'min_nesting_level with budget page_width - indent) is checked as stated in the property',
    'technique': 'static analysis: canonical linear normal forms and comparison normal forms (e >= 0) of guards; '
                 'def-use closure for configuration independence of forced breaks',
}
META['text'] += ' The forced break the printers add on their own for very long sequences is a threshold on the number of elements only.'
META['text'] += ' Round 5: the interpreted layouts include documents scaled past every size constant of the layout engine; the ribbon fraction computed by the entry gives back the requested ribbon on a grid of page / ribbon widths (L.b).'


def run(repo, rep):
    rep.explanation = ('R-LIN arithmetic conformance for the >= direction (budget not smaller than the admissible '
                       'width), same rule instances as C05 plus L.e: forced breaks are configuration independent.')
    rep.not_decided = ('that groups which fit are actually laid out flat for a concrete document; the sentence about '
                       'single-line values at width >= L.')
    rep.assumptions = ['integer arithmetic; round() and len() opaque', 'ast parser']
    run_arith(repo, rep, 'C06')
    # the printers' own forced break for very long sequences is a threshold on the number of elements, nothing else
    from .c12 import shortcut_counts_elements_only
    rep.floor('C06.L.e:threshold', shortcut_counts_elements_only(repo, rep, 'C06.L.e'), 1)
