"""C04 -- the layout engine only ever picks one of the layouts a document denotes.

Decides the structural obligations of the three stack machines, the normaliser and the
plain renderer (DESIGN section 4, C04.a-i).  Does not decide membership of the output in
the denotation for a concrete document.
"""
import ast

from engine import facts
from engine.astutil import src, dotted, call_name, Guards, compare_parts, enclosing_map
from engine.linear import form, NotLinear, atom, const
from engine.loader import AnalysisError
from engine.switch import enumerate_paths, inline

META = {
    'text': 'Decided on what the code computes, by abstract interpretation of the package source on small concrete document'
            's built through the interpreted combinators: (n) layout_smart and layout_fast - best_layout, both fitting pred'
            'icates, normalisation, the contextual evaluators of align - emit, at nine page widths and three ribbon fractio'
            'ns, a text that is the rendering of the document under some assignment of flat / broken to its groups and fill'
            ' separators (forced breaks break every enclosing group, align indents relative to the column), with annotation'
            ' markers around exactly the fragments they wrap; (f,g) the combinators build what they say, reject non-documen'
            'ts, and normalize_doc preserves the denotation (texts over all choices plus the indentation each flat group is'
            ' measured from) on 300 documents incl. negative nest amounts, empty texts, NIL, nested always_break, flat_choi'
            'ce, annotate, fill; (i) the plain renderer writes exactly the fragments and line breaks it is given, trimming '
            'only trailing blanks of the last fragment per line; (m) document objects are never written after construction '
            '(lazy FlatChoice excepted); (a,c,e) exhaustive dispatch, emission facts and annotation pairing of the three st'
            'ack machines; (j) align. Hard line breaks inside a group laid out flat are the recorded finding C04.h.',
    'note': 'trusts the ast parser and that document kinds are exactly the Doc subclasses in doctypes.py plus str; decides '
            'structure, not behaviour; C04.h (hard break inside a flat group) is a listed known finding',
    'technique': 'static analysis: abstract interpretation of constructors, normalisation, layout and renderer on small-scope do'
                 'cuments against a denotational reference; stack-machine branch facts; who-may-write on document objects',
}
META['text'] += ' (m, refined) documents handed to the layout and the module constants are unchanged by it (before/after snapshots on interpreted layouts); the stack-machine rules (a,c,e) apply while a loop is in the recognised dispatch form - a restructured loop is decided by (n) alone.'
META['text'] += ' Round 5: layout model, immutability model and renderer model also run documents / sdoc streams scaled one past every size constant mined from layout.py, doc.py, doctypes.py, render.py, utils.py (and past a fixed small scale).'


def _w(m, ln):
    return '%s:%d' % (m.fn.module.relpath, ln)


def _mode_of_path(path, mode_var):
    """mode implied by the path conditions inside a branch: 'BREAK_MODE' / 'FLAT_MODE' / None"""
    implied = None
    for text, pol in path.conds:
        try:
            t = ast.parse(text, mode='eval').body
        except SyntaxError:
            continue
        cp = compare_parts(t, pol)
        if not cp:
            continue
        l, op, r = cp
        names = {dotted(l), dotted(r)}
        if mode_var not in names:
            continue
        other = (names - {mode_var}).pop() if len(names) == 2 else None
        if other not in ('BREAK_MODE', 'FLAT_MODE'):
            continue
        if op in ('is', '=='):
            implied = other
        elif op in ('is not', '!=') and implied is None:
            implied = 'FLAT_MODE' if other == 'BREAK_MODE' else 'BREAK_MODE'
    return implied


def run(repo, rep):
    rep.explanation = (
        'Static rule checking over layout.py, doctypes.py, doc.py, render.py: (a) each of the '
        'three stack machines dispatches on every document kind and raises on anything else; '
        '(b) children are pushed in reverse document order, the annotation pop marker below the '
        'annotated doc; (c) text is emitted unmodified with the column advanced by its length, '
        'hard breaks emit SLine(indent) and reset the column, Nest adds its amount; (d) '
        'flat_choice takes the branch of the current mode, AlwaysBreak forces break mode and '
        'fails both predicates; (e) annotation push/pop pairing; (f) normalisation drops only '
        'NIL; (g) constructors accept str wherever validate_doc does; (h) a hard break inside a '
        'flat group must fail the predicate; (i) the renderer writes text unchanged except for '
        'rstrip of the last text fragment of a line.')
    rep.not_decided = ('membership of the emitted text in the set of layouts for a concrete '
                       'document; the flat/broken decision itself (C05/C06); fill spacing.')
    rep.assumptions = ['ast parser; document kinds are exactly the Doc subclasses of doctypes.py '
                       'plus str']
    kinds, singleton = facts.doc_kinds(repo)
    ms = facts.machines(repo)
    modes = facts.mode_constants(repo)
    rep.analysed['doc_kinds'] = kinds
    rep.analysed['machines'] = {k: [list(b.kinds) for b in m.branches] for k, m in ms.items()}
    rep.count(sum(len(b.paths) for m in ms.values() for b in m.branches))

    expected = [k for k in kinds if k not in ('Doc',)]
    # The structural rules below read facts off the dispatch loops.  They apply to a loop only while it is in the recognised form (one
    # closed chain of kind tests, every push a visible triple); a loop that was restructured - handlers moved into helpers, a dispatch
    # table, a shared implementation - is decided by the interpreted layout model (C04.n) alone, which does not depend on the form.
    all_exact = all(m.exact and not any(b.opaque for b in m.branches) for m in ms.values())
    rep.analysed['machines_shape'] = {k: ('recognised' if m.exact else 'not recognised (%s): decided by the layout model only' % m.reason)
                                      for k, m in ms.items()}
    from engine.switch import NullMachine
    ms = {k: (m if m.exact else NullMachine(m.fn, m.reason)) for k, m in ms.items()}
    for k, m in ms.items():
        if not m.exact:
            rep.note('%s is not in the recognised dispatch form (%s): its structural rules are not evaluated, the interpreted layout model '
                     'decides' % (k, m.reason))
    # ------------------------------------------------------------------ C04.a exhaustiveness
    n_a = 0
    for name, m in ms.items():
        if not m.exact:
            continue
        handled = set()
        for b in m.branches:
            for k in b.kinds:
                handled.add(singleton.get(k, k))
        if 'Doc' in handled:
            continue
        for k in expected:
            n_a += 1
            rep.check(k in handled, 'C04.a', '%s:%s' % (name, k), _w(m, m.loop.lineno),
                      'kind handled by a dispatch branch',
                      'document kind %s has no branch in %s: such a document raises or is '
                      'silently skipped' % (k, name))
        # a branch that does nothing at all for a content-carrying kind loses text
        for b in m.branches:
            if b.opaque:
                continue
            for k in b.kinds:
                kk = singleton.get(k, k)
                if kk in ('NIL',) or kk.startswith('SAnnotation'):
                    continue
                empty = all(not p.events and p.end in ('fall', 'continue') for p in b.paths)
                rep.check(not empty, 'C04.a', '%s:%s:nonempty' % (name, kk), _w(m, b.lineno),
                          'branch acts on the node',
                          'branch for %s does nothing: its content is dropped' % kk)
    if all_exact:
        rep.floor('C04.a', n_a, 33)

    # (C04.b push order and C04.d mode facts used to be read off the branch structure of the three machines; they are decided
    # on what the machines compute - the layout model below, C04.n - since structural rewrites of those branches are common)
    # ------------------------------------------------------------------ C04.c emission facts
    m = ms['best_layout']
    iv, mv, dv = m.indent_var, m.mode_var, m.doc_var
    n_c = 0
    b = m.branch('str')
    for p in (b.paths if b and not b.opaque else []):
        ys = [e for e in p.events if e[0] == 'yield']
        sets = [e for e in p.events if e[0] == 'set']
        n_c += 1
        rep.check(len(ys) == 1 and ys[0][1] == dv, 'C04.c', 'best_layout:str:yield', _w(m, b.lineno),
                  'text emitted unmodified, once',
                  'the str branch must yield the text itself exactly once; yields %s' % [y[1] for y in ys],
                  nontrivial=True)
        adv = [s for s in sets if s[2] == '+=' and s[3] == 'len(%s)' % dv]
        n_c += 1
        rep.check(len(adv) == 1 and len(sets) == 1, 'C04.c', 'best_layout:str:column',
                  _w(m, b.lineno), 'column advanced by len(text)',
                  'the output column must advance by len(text) exactly; updates: %s' % [s[1:4] for s in sets],
                  nontrivial=True)
        rep.check(not p.pushes(), 'C04.c', 'best_layout:str:no-push', _w(m, b.lineno), '',
                  'text must not be pushed back on the stack')
    b = m.branch('HARDLINE')
    outcol = None
    for p in (b.paths if b and not b.opaque else []):
        ys = [e for e in p.events if e[0] == 'yield']
        sets = [e for e in p.events if e[0] == 'set']
        n_c += 1
        rep.check(len(ys) == 1 and ys[0][1] == 'SLine(%s)' % iv, 'C04.c', 'best_layout:HARDLINE:yield',
                  _w(m, b.lineno), 'line break carries the current indentation',
                  'a hard break must yield SLine(%s) once; yields %s' % (iv, [y[1] for y in ys]),
                  nontrivial=True)
        n_c += 1
        good = len(sets) == 1 and sets[0][2] == '=' and sets[0][3] == iv
        rep.check(good, 'C04.c', 'best_layout:HARDLINE:column', _w(m, b.lineno),
                  'column reset to the indentation',
                  'after a hard break the column must be set to the indentation; updates: %s'
                  % [s[1:4] for s in sets], nontrivial=True)
        if good:
            outcol = sets[0][1]
    # the same variable is the one advanced by text
    bs = m.branch('str')
    if bs and outcol:
        for p in bs.paths:
            for s in p.events:
                if s[0] == 'set':
                    rep.check(s[1] == outcol, 'C04.c', 'best_layout:column-variable', _w(m, s[4]),
                              'one column variable', 'text advances %s but line breaks reset %s' % (s[1], outcol))
    # every yield in best_layout is one of the four sanctioned forms
    allowed = {dv, 'SLine(%s)' % iv, 'SAnnotationPush(%s.annotation)' % dv}
    for br in m.branches:
        for p in br.paths:
            for e in p.events:
                if e[0] == 'yield':
                    n_c += 1
                    ok = e[1] in allowed and (
                        e[1] != dv or set(br.kinds) & {'str', 'SAnnotationPop'})
                    rep.check(ok, 'C04.c', 'best_layout:%s:yield-form' % '/'.join(br.kinds), _w(m, e[2]),
                              'sanctioned emission',
                              'branch %s yields %s: only the text itself, SLine(indent) and '
                              'annotation events may be emitted' % ('/'.join(br.kinds), e[1]))
    # indentation arithmetic of every push, all three machines
    for name, mm in ms.items():
        for br in mm.branches:
            for p in br.paths:
                for x in p.pushes():
                    try:
                        f = form(ast.parse(x[1], mode='eval').body)
                    except (NotLinear, SyntaxError):
                        # not an expression this rule can read: the layout model decides the indentation of what is printed
                        continue
                    n_c += 1
                    if 'Nest' in br.kinds:
                        want = atom(mm.indent_var).add(atom(mm.doc_var + '.indent'))
                        rep.check(f == want and x[3] == mm.doc_var + '.doc', 'C04.c',
                                  '%s:Nest:indent' % name, _w(mm, x[5]),
                                  'nest adds its amount',
                                  'Nest must push (indent + doc.indent, mode, doc.doc); found '
                                  '(%s, %s, %s)' % (x[1], x[2], x[3]), nontrivial=True)
                    else:
                        rep.check(f == atom(mm.indent_var), 'C04.c',
                                  '%s:%s:indent-unchanged' % (name, '/'.join(br.kinds)), _w(mm, x[5]),
                                  'indentation propagated unchanged',
                                  'only Nest may change the indentation; %s pushes indent %s'
                                  % ('/'.join(br.kinds), x[1]))
    if all_exact:
        rep.floor('C04.c', n_c, 20)

    # ------------------------------------------------------------------ C04.e annotation pairing
    m = ms['best_layout']
    b = m.branch('Annotated')
    n_e = 0
    for p in (b.paths if b and not b.opaque else []):
        ys = [e for e in p.events if e[0] == 'yield']
        n_e += 1
        rep.check(len(ys) == 1 and ys[0][1] == 'SAnnotationPush(%s.annotation)' % dv, 'C04.e',
                  'best_layout:Annotated:push-event', _w(m, b.lineno), 'one push event with the annotation',
                  'the Annotated branch must yield exactly SAnnotationPush(doc.annotation); yields %s'
                  % [y[1] for y in ys], nontrivial=True)
    b = m.branch('SAnnotationPop')
    n_e += 1
    if b is None and not m.exact:
        pass
    elif b is None:
        rep.fail('C04.e', 'best_layout:SAnnotationPop:branch', _w(m, m.loop.lineno),
                 'best_layout has no branch emitting the pop marker')
    else:
        for p in b.paths:
            ys = [e for e in p.events if e[0] == 'yield']
            rep.check(len(ys) == 1 and ys[0][1] == dv, 'C04.e', 'best_layout:SAnnotationPop:emit',
                      _w(m, b.lineno), 'pop marker emitted once',
                      'the pop marker must be yielded exactly once; yields %s' % [y[1] for y in ys],
                      nontrivial=True)
    # nothing else constructs annotation events in layout.py
    lay = repo.module('layout')
    for f in lay.funcs.values():
        for c in ast.walk(f.node):
            if isinstance(c, ast.Call) and call_name(c) in ('SAnnotationPush', 'SAnnotationPop'):
                n_e += 1
                rep.check(f.qualname == 'best_layout', 'C04.e', '%s:creates-%s' % (f.qualname, call_name(c)),
                          '%s:%d' % (lay.relpath, c.lineno), 'annotation events created only by the Annotated branch',
                          '%s creates an annotation event outside the Annotated branch of best_layout' % f.qualname)
    if all_exact:
        rep.floor('C04.e', n_e, 4)

    # C04.n: both strategies interpreted on small concrete documents at small widths: the emitted text is the rendering of the
    # document under some assignment of flat / broken to its groups and fill separators; annotation markers are properly nested
    from . import layoutmodel
    rep.floor('C04.n', layoutmodel.run(repo, rep, {'C04': 'C04.n', 'ann': 'C04.e'}), 2)
    # C04.f / C04.g (and what used to be C04.k): the combinators and normalisation, interpreted on small concrete documents and
    # compared through their denotation (texts over all flat/break choices + where each flat group is measured from)
    from . import docmodel
    rep.floor('C04.f+g', docmodel.run(repo, rep), 3)
    _flatchoice_order(repo, rep)
    _align(repo, rep)
    _hardline_in_flat(repo, rep, ms)
    _renderer(repo, rep)


# --------------------------------------------------------------------------- C04.f (argument order of the public combinator)
def _flatchoice_order(repo, rep):
    """kept for the diagnostic only: decided semantically by the document model (a swapped pair changes the denotation)"""
    return 0


# --------------------------------------------------------------------------- C04.j
def _align(repo, rep):
    """C04.j: align(d) indents the continuation lines of d to the column where d starts, hang(i, d) i columns further, nest(i, d) i
    columns further than the enclosing indentation.  Decided by the interpreted layout model (C04.n): its documents contain align
    (nested, inside groups, after text), hang with three amounts and nest with positive, zero and negative amounts, laid out at nine
    widths; here only the anchors are counted, so that a vanished combinator is not a silent pass."""
    docm = repo.module('doc')
    n = 0
    for name in ('align', 'hang', 'nest'):
        n += 1
        rep.check(name in docm.funcs, 'C04.j', '%s:exists' % name, docm.relpath, 'combinator present (behaviour: C04.n)',
                  'doc.%s vanished' % name)
    from . import layoutmodel
    kinds = set()
    for t in layoutmodel.documents('quick', 0):
        kinds |= layoutmodel._kinds(t)
    n += 1
    rep.check({'align', 'hang', 'nest'} <= kinds, 'C04.j', 'layout-model-covers-align-hang-nest', docm.relpath,
              'the layout model exercises the three combinators', 'the layout model has no document with %s' % sorted({'align', 'hang', 'nest'} - kinds))
    rep.floor('C04.j', n, 4)


# --------------------------------------------------------------------------- C04.h
def _hardline_in_flat(repo, rep, ms):
    for name in ('fast_fitting_predicate', 'smart_fitting_predicate'):
        m = ms[name]
        b = m.branch('HARDLINE')
        if b is None:
            continue
        mode_aware = False
        for p in b.paths:
            if _mode_of_path(p, m.mode_var) is not None:
                mode_aware = True
        # a hard break met in FLAT_MODE lies inside the group under test
        rep.check(mode_aware, 'C04.h', '%s:HARDLINE:ignores-mode' % name, _w(m, b.lineno),
                  'hard break in flat mode fails the predicate',
                  'the HARDLINE branch answers without looking at the mode: a hard break inside the '
                  'group being measured flat does not make the group break '
                  "(group(concat(['a', LINE, 'b', HARDLINE, 'c'])) renders 'a b\\nc')", nontrivial=True)


# --------------------------------------------------------------------------- C04.i
def _renderer(repo, rep):
    """C04.i: the plain renderer writes exactly the text fragments and line breaks it is given (annotations invisible, the last text
    fragment of each line without trailing blanks): decided by interpreting it, with as_lines and rfind_idx, on a few hundred small
    sdoc sequences"""
    from . import c16_render
    rep.floor('C04.i', c16_render.plain_renderer(repo, rep, 'C04.i'), 1)

    # ---------------------------------------------------------------- C04.m the document is read-only for the layout
    # (imported from C19.d): a document that remembers something from one visit - an evaluated contextual part, a consumed
    # child list - is laid out differently the second time it is visited (another indentation, another width)
    from . import shared_state as SS
    rep.floor('C04.m', SS.doc_object_stores(repo, rep, 'C04.m'), 6)


def _renderer_facts(rep, m, f, rule, allow_extra_writes):
    """facts shared by the plain and the coloured renderer (C04.i / C16.f); returns count"""
    n = 0
    node = f.node
    g = Guards(node)
    par = enclosing_map(node)
    stream = f.params[0]
    writes = [c for c in ast.walk(node) if isinstance(c, ast.Call) and call_name(c) == stream + '.write']
    inner = None
    for lp in ast.walk(node):
        if isinstance(lp, ast.For) and isinstance(lp.target, ast.Name) and \
                any(w in list(ast.walk(lp)) for w in writes):
            inner = lp          # innermost loop containing writes wins (walk is outer-first)
    if inner is None:
        raise AnalysisError('%s: no loop writing to the stream' % f.key)
    v = inner.target.id
    text_written = line_written = False
    for w in writes:
        a = src(w.args[0]) if w.args else ''
        fs = g.of(w)
        is_str = any(f_.pol and f_.text == 'isinstance(%s, str)' % v for f_ in fs)
        is_line = any(f_.pol and f_.text == 'isinstance(%s, SLine)' % v for f_ in fs)
        if is_str:
            n += 1
            text_written |= a == v
            rep.check(a == v, rule, '%s:write-text' % f.name, '%s:%d' % (m.relpath, w.lineno),
                      'text written unchanged', 'text fragments must be written unchanged; writes %s' % a,
                      nontrivial=True)
        elif is_line:
            n += 1
            good = a.replace(' ', '') in ('newline+separator*%s.indent' % v, 'newline+%s.indent*separator' % v)
            line_written |= good
            rep.check(good, rule, '%s:write-line' % f.name, '%s:%d' % (m.relpath, w.lineno),
                      'line break = newline + indent separators',
                      'SLine must be written as newline + separator * indent; writes %s' % a, nontrivial=True)
        elif not allow_extra_writes:
            n += 1
            rep.fail(rule, '%s:write-other' % f.name, '%s:%d' % (m.relpath, w.lineno),
                     'the plain renderer writes %s outside the text / line-break cases' % a)
    n += 2
    rep.check(text_written, rule, '%s:text-is-written' % f.name, f.where, 'text case present',
              'no write of text fragments found')
    rep.check(line_written, rule, '%s:line-is-written' % f.name, f.where, 'line case present',
              'no write of line breaks found')
    # the only mutation of a line's fragments is rstrip() of the last text fragment
    line_var = src(inner.iter)
    stores = [s for s in ast.walk(node) if isinstance(s, ast.Assign)
              and isinstance(s.targets[0], ast.Subscript) and src(s.targets[0].value) == line_var]
    n += 1
    rep.check(len(stores) <= 1, rule, '%s:one-trim' % f.name, f.where, 'at most one rewrite of a line fragment',
              'the renderer rewrites line fragments at %d places' % len(stores))
    for s in stores:
        tgt = s.targets[0]
        n += 1
        idx = src(tgt.slice)
        env = _single_assign_env(node)
        val = inline(s.value, env, deep=True)
        want = inline(ast.parse(src(tgt), mode='eval').body, env, deep=True)
        ok_val = isinstance(val, ast.Call) and isinstance(val.func, ast.Attribute) and val.func.attr == 'rstrip' \
            and not val.args and not val.keywords and src(val.func.value) == src(want)
        # idx comes from rfind_idx(lambda x: isinstance(x, str), line)
        idx_def = env.get(idx)
        pred_src = ''
        if idx_def is not None and isinstance(idx_def, ast.Call) and idx_def.args:
            pa = idx_def.args[0]
            pred_src = src(pa)
            if isinstance(pa, ast.Name) and pa.id in m.funcs:
                hf = m.funcs[pa.id]
                rr = [r_ for r_ in ast.walk(hf.node) if isinstance(r_, ast.Return) and r_.value is not None]
                pred_src = src(rr[0].value) if len(rr) == 1 else ''
        ok_idx = idx_def is not None and isinstance(idx_def, ast.Call) and call_name(idx_def) == 'rfind_idx' \
            and 'isinstance' in pred_src and 'str' in pred_src \
            and 'not' not in pred_src.split()
        guarded = any(ff.text.replace(' ', '') in ('%s!=-1' % idx, '%s>=0' % idx, '%s>-1' % idx) and ff.pol
                      for ff in g.of(s))
        rep.check(ok_val and ok_idx and guarded, rule, '%s:trim-last-text' % f.name,
                  '%s:%d' % (m.relpath, s.lineno), 'only trailing whitespace of the last text fragment is trimmed',
                  'a line fragment is rewritten as %s (index from %s, guard %s): only rstrip() of the last '
                  'text fragment is allowed' % (src(val), src(idx_def) if idx_def is not None else '?', guarded),
                  nontrivial=True)
    for c in ast.walk(node):
        if isinstance(c, ast.Call) and isinstance(c.func, ast.Attribute) and \
                c.func.attr in ('strip', 'lstrip', 'replace', 'lower', 'upper', 'expandtabs', 'title', 'format'):
            n += 1
            rep.fail(rule, '%s:text-transform:%s' % (f.name, c.func.attr), '%s:%d' % (m.relpath, c.lineno),
                     'renderer applies %s() to output text' % c.func.attr)
    return n


def _single_assign_env(fn):
    counts = {}
    vals = {}
    for s in ast.walk(fn):
        if isinstance(s, ast.Assign) and len(s.targets) == 1 and isinstance(s.targets[0], ast.Name):
            counts[s.targets[0].id] = counts.get(s.targets[0].id, 0) + 1
            vals[s.targets[0].id] = s.value
    return {k: v for k, v in vals.items() if counts[k] == 1}


def utils_rules(repo, rep, rule):
    """rfind_idx returns the index of the *last* element satisfying the predicate (the renderers trim that
    fragment): reversed scan, index length - i - 1, -1 when nothing matches"""
    u = repo.module('utils')
    f = u.funcs.get('rfind_idx')
    n = 0
    if f is None:
        raise AnalysisError('utils.rfind_idx vanished')
    pred, seq = f.params[0], f.params[1]
    loops = [l for l in ast.walk(f.node) if isinstance(l, ast.For)]
    n += 1
    ok = False
    detail = 'no loop'
    if len(loops) == 1:
        lp = loops[0]
        it = src(lp.iter).replace(' ', '')
        rets = [r for r in ast.walk(lp) if isinstance(r, ast.Return)]
        env = {src(a.targets[0]): a.value for a in ast.walk(f.node) if isinstance(a, ast.Assign) and isinstance(a.targets[0], ast.Name)}
        if it in ('enumerate(reversed(%s))' % seq,) and isinstance(lp.target, ast.Tuple) and len(rets) == 1:
            i, el = (e.id for e in lp.target.elts)
            g = Guards(f.node)
            try:
                want = atom('len(%s)' % seq).add(atom(i).scale(-1)).add(const(-1))
                ok = form(rets[0].value, env) == want and any(ff.pol and ff.text == '%s(%s)' % (pred, el) for ff in g.of(rets[0]))
            except NotLinear:
                ok = False
            detail = 'returns %s under %s' % (src(rets[0].value), g.texts(rets[0]))
        elif it == 'range(len(%s)-1,-1,-1)' % seq and len(rets) == 1:
            ok = src(rets[0].value) == src(lp.target)
            detail = 'range scan'
        else:
            detail = 'iterates %s' % it
    tail = f.node.body[-1]
    ok = ok and isinstance(tail, ast.Return) and src(tail.value) == '-1'
    rep.check(ok, rule, 'rfind_idx:last-match-index', f.where, 'index of the last match, -1 if none',
              'utils.rfind_idx no longer returns the index of the last element satisfying the predicate (%s): the renderers would trim '
              'the wrong text fragment of a line' % detail, nontrivial=True)
    return n
