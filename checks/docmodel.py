"""Small-scope semantic model of the document constructors and of normalisation (C04.f / C04.g / C04.k, imported by C03, C05, C09).

The public combinators of doc.py and ``normalize_doc`` with every ``normalize`` method of doctypes.py are *interpreted* (no
execution) on small concrete documents.  Each scenario is a term of a tiny grammar (texts, '', NIL, LINE, SOFTLINE, HARDLINE,
concat, group, nest with positive / zero / negative amounts, always_break, flat_choice, annotate, fill); it is built twice:
through the interpreted combinators (an object graph of the package's own classes) and as a specification term.  Both are given
the same denotation - the set of texts (with line breaks and indentation) over all flat / break choices of the groups, where a
group that contains a forced break anywhere on its flat path cannot be flat, together with the indentation each group is measured
from - and compared:

  constructors faithful:   den(object graph built by the combinators)      == den(specification term)
  normalisation preserves: den(normalize_doc(object graph))                == den(specification term)
  forced breaks hoisted:   a normalised document whose flat path contains a forced break is an AlwaysBreak at the top (what the
                           layout relies on to skip the look-ahead), and normalising again changes nothing (idempotent)
  cost:                    the number of normalize calls grows linearly with the nesting depth of flat_choice documents that share
                           a sub-document (C12)"""
import itertools
import random

from engine.interp import (Const, Sym, ListV, TupleV, ObjV, TypeV, Prim, FuncV, NONE, Undecided, Raised, PathLimit, Interp, prov)
from engine.loader import AnalysisError


# ---------------------------------------------------------------------------------------------------- specification terms
# ('t', s) | ('nil',) | ('hl',) | ('line',) | ('soft',) | ('cat', [..]) | ('grp', x) | ('nest', i, x) | ('ab', x) | ('fc', broken, flat)
# | ('ann', x) | ('fill', [..])
def _flat_forced(t):
    """is a forced break on the path taken when t is laid out flat?"""
    k = t[0]
    if k == 'ab':
        return True
    if k in ('cat', 'fill'):
        return any(_flat_forced(x) for x in t[1])
    if k in ('grp', 'ann'):
        return _flat_forced(t[1])
    if k == 'nest':
        return _flat_forced(t[2])
    if k == 'fc':
        return _flat_forced(t[2])
    if k in ('line', 'soft'):
        return False
    return False


def denote(t):
    """set of (text, frozenset of (indent, flat text) of the groups laid out flat)"""
    out = set()

    def go(t, mode, indent, choose, acc):
        k = t[0]
        if k == 't':
            return t[1]
        if k == 'nil':
            return ''
        if k == 'hl':
            return '\n' + ' ' * max(indent, 0) if indent >= 0 else '\n<%d>' % indent
        if k == 'line':
            return ' ' if mode == 'flat' else go(('hl',), mode, indent, choose, acc)
        if k == 'soft':
            return '' if mode == 'flat' else go(('hl',), mode, indent, choose, acc)
        if k in ('cat', 'fill'):
            return ''.join(go(x, mode, indent, choose, acc) for x in t[1])
        if k == 'nest':
            return go(t[2], mode, indent + t[1], choose, acc)
        if k == 'ann':
            # the annotated stretch is part of what a document denotes: one push / pop pair per annotate(), carrying its annotation
            lab = t[2] if len(t) > 2 else '<label>'
            return '\x01%s:' % (lab,) + go(t[1], mode, indent, choose, acc) + '\x02'
        if k == 'ab':
            return go(t[1], 'break', indent, choose, acc)
        if k == 'fc':
            return go(t[2] if mode == 'flat' else t[1], mode, indent, choose, acc)
        if k == 'grp':
            if mode == 'flat':
                return go(t[1], 'flat', indent, choose, acc)
            if _flat_forced(t[1]):
                return go(t[1], 'break', indent, choose, acc)
            m = choose(t)
            s = go(t[1], m, indent, choose, acc)
            if m == 'flat' and s:
                acc.add((indent, s))
            return s
        raise ValueError(k)

    groups = []

    def collect(t):
        k = t[0]
        if k == 'grp':
            groups.append(t)
            collect(t[1])
        elif k in ('cat', 'fill'):
            for x in t[1]:
                collect(x)
        elif k in ('ann', 'ab'):
            collect(t[1])
        elif k == 'nest':
            collect(t[2])
        elif k == 'fc':
            collect(t[1])
            collect(t[2])
    collect(t)
    groups = groups[:6]
    for bits in itertools.product(['break', 'flat'], repeat=len(groups)):
        assign = {id(g): b for g, b in zip(groups, bits)}
        acc = set()
        text = go(t, 'break', 0, lambda g: assign.get(id(g), 'break'), acc)
        out.add((text, frozenset(acc)))
    return out


# ---------------------------------------------------------------------------------------------------- the interpreted side
class World:
    def __init__(self, repo):
        self.repo = repo
        self.dt = repo.module('doctypes')
        self.dm = repo.module('doc')
        self.calls = 0
        prims = {}
        import sys
        sys.setrecursionlimit(max(sys.getrecursionlimit(), 20000))
        self.it = Interp(repo, prims, max_paths=8, max_depth=400)
        self.it.concrete_context = True
        self.it.concrete_docs = True
        self.it.concrete_classes = set(self.dt.classes)
        self.NIL = self.it.global_name(self.dm, 'NIL')
        self.HL = self.it.global_name(self.dm, 'HARDLINE')
        self.LINE = self.it.global_name(self.dm, 'LINE')
        self.SOFT = self.it.global_name(self.dm, 'SOFTLINE')
        for v, nm in ((self.NIL, 'NIL'), (self.HL, 'HARDLINE'), (self.LINE, 'LINE'), (self.SOFT, 'SOFTLINE')):
            if not isinstance(v, ObjV):
                raise AnalysisError('%s is not an object of a document class' % nm)

    def call(self, module, fname, args, kwargs=None):
        f = module.funcs.get(fname)
        if f is None:
            raise AnalysisError('%s.%s vanished' % (module.name, fname))
        self.it.paths_run = 0
        prs = self.it.explore(f, args, kwargs or {})
        if len(prs) != 1:
            raise Undecided('%s forks into %d abstract paths on a concrete document' % (fname, len(prs)))
        if prs[0].raised is not None:
            raise Raised(prs[0].raised.what, prs[0].raised.lineno)
        return prs[0].value

    def build(self, t):
        """the document of term t through the public combinators"""
        k = t[0]
        if k == 't':
            return Const(t[1])
        if k == 'nil':
            return self.NIL
        if k == 'hl':
            return self.HL
        if k == 'line':
            return self.LINE
        if k == 'soft':
            return self.SOFT
        if k == 'cat':
            return self.call(self.dm, 'concat', [ListV([self.build(x) for x in t[1]])])
        if k == 'fill':
            return self.call(self.dm, 'fill', [ListV([self.build(x) for x in t[1]])])
        if k == 'grp':
            return self.call(self.dm, 'group', [self.build(t[1])])
        if k == 'nest':
            return self.call(self.dm, 'nest', [Const(t[1]), self.build(t[2])])
        if k == 'ab':
            return self.call(self.dm, 'always_break', [self.build(t[1])])
        if k == 'ann':
            return self.call(self.dm, 'annotate', [Const(t[2] if len(t) > 2 else '<label>'), self.build(t[1])])
        if k == 'fc':
            return self.call(self.dm, 'flat_choice', [], {'when_broken': self.build(t[1]), 'when_flat': self.build(t[2])})
        raise ValueError(k)

    def normalize(self, doc):
        return self.call(self.dt, 'normalize_doc', [doc])

    def term_of(self, v, depth=0):
        """specification term denoted by an object graph of the package's document classes (read through the public attributes)"""
        if depth > 40:
            raise Undecided('document nesting too deep')
        if isinstance(v, Const) and isinstance(v.v, str):
            return ('t', v.v)
        if not isinstance(v, ObjV):
            raise Undecided('a document is %s' % prov(v))
        if v is self.NIL:
            return ('nil',)
        if v is self.HL:
            return ('hl',)
        cn = v.cls.name
        g = lambda a: self.it.getattr(v, a, None)
        if cn == 'Nil':
            return ('nil',)
        if cn == 'HardLine':
            return ('hl',)
        if cn in ('Concat', 'Fill'):
            return ('cat' if cn == 'Concat' else 'fill', [self.term_of(x, depth + 1) for x in self.it.iterate(g('docs'))])
        if cn == 'Group':
            return ('grp', self.term_of(g('doc'), depth + 1))
        if cn == 'AlwaysBreak':
            return ('ab', self.term_of(g('doc'), depth + 1))
        if cn == 'Annotated':
            lab_ = g('annotation')
            return ('ann', self.term_of(g('doc'), depth + 1), lab_.v if isinstance(lab_, Const) else prov(lab_))
        if cn == 'Nest':
            i = g('indent')
            if not (isinstance(i, Const) and isinstance(i.v, int)):
                raise Undecided('nest amount %s' % prov(i))
            return ('nest', i.v, self.term_of(g('doc'), depth + 1))
        if cn == 'FlatChoice':
            # the accessors are part of the class's contract (the layout reads the alternatives through them)
            return ('fc', self.term_of(g('when_broken'), depth + 1), self.term_of(g('when_flat'), depth + 1))
        raise Undecided('unknown document class %s' % cn)


# ---------------------------------------------------------------------------------------------------- scenarios
ATOMS = [('t', 'a'), ('t', 'bb'), ('t', ''), ('t', ' '), ('t', ', '), ('nil',), ('line',), ('soft',), ('hl',)]


def show(t):
    k = t[0]
    if k == 't':
        return repr(t[1])
    if k in ('nil', 'hl', 'line', 'soft'):
        return {'nil': 'NIL', 'hl': 'HARDLINE', 'line': 'LINE', 'soft': 'SOFTLINE'}[k]
    if k in ('cat', 'fill'):
        return '%s([%s])' % ('concat' if k == 'cat' else 'fill', ', '.join(show(x) for x in t[1]))
    if k in ('nest', 'hang'):
        return '%s(%d, %s)' % (k, t[1], show(t[2]))
    if k == 'fc':
        return 'flat_choice(when_broken=%s, when_flat=%s)' % (show(t[1]), show(t[2]))
    return '%s(%s)' % ({'grp': 'group', 'ab': 'always_break', 'ann': 'annotate', 'align': 'align'}[k], show(t[1]))


def scenarios(tier, seed):
    a, b = ('t', 'a'), ('t', 'bb')
    L, S, H, N = ('line',), ('soft',), ('hl',), ('nil',)
    ab = lambda x: ('ab', x)
    g = lambda x: ('grp', x)
    c = lambda *xs: ('cat', list(xs))
    out = [
        a, ('t', ''), ('t', ' '), N, L, H, c(), c(N, ('t', '')), c(a), c(a, L, b), c(a, ('t', ' '), b), g(c(a, ('t', ','), ('t', ' '), b)), c(('t', ' ')), g(c(a, L, b)), g(a), g(N), g(c()),
        ('nest', 4, c(a, L, b)), ('nest', 4, g(c(a, L, ('nest', -2, c(b, L, a))))), ('nest', 0, c(a, H, b)), ('nest', -3, c(a, L, b)),
        ('nest', 2, ('nest', 3, c(a, L, b))), g(('nest', 4, c(a, L, b, L, a))), ('nest', 4, g(c(a, L, b))),
        ab(c(a, L, b)), g(ab(c(a, L, b))), g(c(a, L, ab(c(b, L, a)))), g(c(a, L, g(c(b, S, ab(a))))), c(ab(a)), c(ab(c(a, L, b))),
        g(c(g(c(a, L, ab(b))))), g(c(c(ab(c(a, L, b))))), g(c(a, L, c(g(ab(c(b, L, a)))), L, a)), ('nest', 2, ab(c(a, L, b))), g(('nest', 2, ab(c(a, L, b)))),
        ab(ab(c(a, L, b))), g(('ann', ab(c(a, L, b)))), g(c(a, L, ('ann', c(b, L, ab(a))))), ('ann', g(c(a, L, b))), ('ann', N),
        ('fc', c(a, H, b), c(a, b)), g(('fc', c(a, H, b), a)), g(c(a, L, ('fc', ab(c(b, L, a)), b))), g(('fc', a, ab(c(a, L, b)))),
        ('fill', [a, L, b, L, a]), g(('fill', [a, L, b, L, a])), ('fill', [a, L, N, L, b]), ('fill', [ab(c(a, L, b)), L, a]), g(('fill', [a, L, ab(b)])), ('fill', [N]), ('fill', []),
        g(c(g(c(a, L, b)), L, g(c(b, L, a)))), g(c(a, H, b)), g(c(a, L, c(N, c(N)), b)),
        c(g(c(a, L, b)), H, g(('nest', 4, c(a, S, b)))),
        # nested annotations: each annotate() is one push / pop pair, also when the annotations are equal (1 == True) or the same
        ('ann', ('ann', a)), ('ann', ('ann', a, True), 1), g(c(a, L, ('ann', ('ann', c(b, L, a), 'inner'), 'outer'))), ('ann', g(('ann', a))),
        # a forced break around nothing is still a forced break for the enclosing groups
        g(c(ab(N), L, a)), g(c(a, L, ab(('t', '')))), g(('nest', 2, c(ab(c()), L, a, L, b))), g(c(a, L, ab(g(N)), L, b)), g(c(a, L, ab(('nest', 2, ('t', ''))))),
        g(c(a, L, ('ann', ab(N)))), g(('fill', [a, L, ab(N), L, b])), ('nest', 2, N), g(('nest', 2, ('t', ''))), ab(N), c(a, ab(N), b),
    ]
    rng = random.Random(seed or 7)

    def gen(d):
        r = rng.random()
        if d <= 0 or r < 0.25:
            return rng.choice(ATOMS)
        if r < 0.45:
            return ('cat', [gen(d - 1) for _ in range(rng.randint(0, 3))])
        if r < 0.6:
            return ('grp', gen(d - 1))
        if r < 0.72:
            return ('nest', rng.choice([4, 2, 0, -2]), gen(d - 1))
        if r < 0.82:
            return ('ab', gen(d - 1))
        if r < 0.9:
            return ('fc', gen(d - 1), gen(d - 1))
        if r < 0.95:
            return ('ann', gen(d - 1))
        return ('fill', [gen(d - 1) for _ in range(rng.randint(0, 3))])
    for _ in range(250 if tier != 'thorough' else 1500):
        out.append(gen(4))
    return out


def _first_diff(da, db):
    only_a = sorted(da - db)[:1]
    only_b = sorted(db - da)[:1]
    return 'only the specification has %r; only the document has %r' % (only_a and only_a[0][0], only_b and only_b[0][0]) \
        if (only_a and only_b and only_a[0][0] != only_b[0][0]) or not (only_a and only_b) else \
        'same texts, but the groups laid out flat are measured from other indentations: %s vs %s' % (sorted(only_a[0][1]), sorted(only_b[0][1]))


def run(repo, rep, rules=None):
    """rules: mapping of clause -> rule id; returns instance count"""
    rules = rules or {'constructors': 'C04.g', 'normalisation': 'C04.f', 'rejects': 'C04.g'}
    w = World(repo)
    where = repo.module('doctypes').relpath
    stats = {k: [0, []] for k in ('constructors', 'normalisation', 'hoisting', 'idempotent', 'rejects')}
    undecided = []
    scs = scenarios(rep.tier, rep.seed)
    for t in scs:
        try:
            want = denote(t)
            try:
                doc = w.build(t)
            except Raised as e:
                stats['constructors'][1].append('building %s through the combinators raises %s' % (show(t), e.what))
                continue
            try:
                got = denote(w.term_of(doc))
            except Raised as e:
                stats['constructors'][1].append('reading the document built for %s raises %s' % (show(t), e.what))
                continue
            if got == want:
                stats['constructors'][0] += 1
            else:
                stats['constructors'][1].append('the document built for %s does not denote the layouts of that expression: %s' % (show(t), _first_diff(want, got)))
                continue
            try:
                nd = w.normalize(doc)
                nt = w.term_of(nd)
                gotn = denote(nt)
            except Raised as e:
                stats['normalisation'][1].append('normalising %s raises %s' % (show(t), e.what))
                continue
            if gotn == want:
                stats['normalisation'][0] += 1
            else:
                stats['normalisation'][1].append('normalisation changes what %s denotes (normal form %s): %s' % (show(t), show(nt), _first_diff(want, gotn)))
                continue
            if 'hoisting' in rules:
                if _flat_forced(nt) and nt[0] != 'ab':
                    stats['hoisting'][1].append('the normal form of %s is %s: it has a forced break on its flat path but is not an AlwaysBreak at the top, '
                                                'so an enclosing group is not known to break' % (show(t), show(nt)))
                else:
                    stats['hoisting'][0] += 1
            if 'idempotent' in rules:
                nt2 = w.term_of(w.normalize(nd))
                if nt2 == nt:
                    stats['idempotent'][0] += 1
                else:
                    stats['idempotent'][1].append('normalising the normal form of %s again changes it: %s -> %s' % (show(t), show(nt), show(nt2)))
        except (Undecided, PathLimit) as e:
            if len(undecided) < 5:
                undecided.append('%s on %s' % (e, show(t)))
    if 'rejects' in rules:
        bad = Const(42)
        for name, args, kw in [('concat', [ListV([Const('a'), bad])], {}), ('fill', [ListV([bad])], {}), ('group', [bad], {}), ('nest', [Const(2), bad], {}),
                               ('always_break', [bad], {}), ('flat_choice', [], {'when_broken': bad, 'when_flat': Const('a')}),
                               ('flat_choice', [], {'when_broken': Const('a'), 'when_flat': bad}), ('align', [bad], {}), ('hang', [Const(2), bad], {})]:
            try:
                w.call(w.dm, name, args, kw)
                stats['rejects'][1].append('%s() accepts 42 as a document: the mistake surfaces only inside the layout algorithm, far from its cause' % name)
            except Raised as e:
                if e.what.startswith(('ValueError', 'AssertionError', 'TypeError')):
                    stats['rejects'][0] += 1
                else:
                    stats['rejects'][1].append('%s(42) raises %s' % (name, e.what))
            except (Undecided, PathLimit) as e:
                undecided.append('%s on %s(42)' % (e, name))
    n = 0
    rep.count(len(scs))
    rep.analysed['document_scenarios'] = len(scs)
    names = {'constructors': 'combinators-build-what-they-say', 'normalisation': 'normalisation-preserves-layouts', 'hoisting': 'forced-break-hoisted-to-the-top',
             'idempotent': 'normalisation-idempotent', 'rejects': 'combinators-reject-non-documents'}
    for k, rule in rules.items():
        okc, bad = stats[k]
        n += 1
        if bad:
            for i, d in enumerate(bad[:4]):
                rep.fail(rule, names[k] if i == 0 else '%s#%d' % (names[k], i + 1), where, d)
        else:
            rep.check(okc >= (9 if k == 'rejects' else 40), rule, names[k], where, 'held on %d interpreted documents' % okc,
                      'only %d documents could be compared' % okc, nontrivial=True)
    for u in undecided:
        n += 1
        rep.undecided(rules.get('normalisation', 'C04.f'), 'document-model-interpretable', where, u)
    return n


def cost(repo, rep, rule):
    """C12: normalising a document in which both alternatives of nested flat_choice documents share a sub-document takes a number of
    normalisation calls that grows linearly with the nesting depth (the lazy normalisation of FlatChoice exists for this reason)"""
    w = World(repo)
    where = repo.module('doctypes').relpath
    a, H, L = ('t', 'a'), ('hl',), ('line',)

    def nested(d, shape):
        x = a
        for _ in range(d):
            if shape == 'both-forced':
                x = ('grp', ('fc', ('ab', ('cat', [x, H])), ('ab', ('cat', [x]))))
            elif shape == 'plain':
                x = ('grp', ('fc', ('cat', [x, H, a]), ('cat', [x, a])))
            else:
                x = ('cat', [('grp', ('fc', ('cat', [x, L]), x)), L])
        return x
    n = 0
    for shape in ('both-forced', 'plain', 'in-concat'):
        counts = []
        try:
            for d in (1, 2, 3, 4):
                doc = w.build(nested(d, shape))
                w.it.call_counts = {}
                w.normalize(doc)
                counts.append(sum(v for k, v in w.it.call_counts.items() if k.endswith(':normalize_doc') or k.endswith('.normalize')))
            w.it.call_counts = None
        except (Undecided, PathLimit, Raised) as e:
            n += 1
            rep.undecided(rule, 'normalisation-cost[%s]' % shape, where, str(e))
            continue
        n += 1
        d1, d2, d3 = counts[1] - counts[0], counts[2] - counts[1], counts[3] - counts[2]
        rep.check(d3 <= d2 + 2 and d2 <= d1 + 2, rule, 'normalisation-cost-linear[%s]' % shape, where,
                  'normalisation calls at nesting depth 1/2/3/4: %s' % counts,
                  'normalising flat_choice documents nested 1/2/3/4 deep (both alternatives share the inner document) takes %s normalisation '
                  'calls: the work grows faster than linearly with the depth - both alternatives are normalised although the layout uses one' % counts,
                  nontrivial=True)
    # building: wrapping an existing document into one more level (annotate / group / flat_choice with the same child in both
    # alternatives - what the printers do for a commented element) costs the same number of calls at every level: a combinator that
    # walks the document it is given (deep validation, eager normalisation) visits the shared child twice per level
    for shape in ('annotated-choice', 'nested-groups'):
        per_level = []
        try:
            x = w.build(a)
            for d in range(1, 8):
                w.it.call_counts = {}
                if shape == 'annotated-choice':
                    br = w.call(w.dm, 'concat', [ListV([x, w.HL])])
                    fl = w.call(w.dm, 'concat', [ListV([x])])
                    fc = w.call(w.dm, 'flat_choice', [], {'when_broken': br, 'when_flat': fl})
                    x = w.call(w.dm, 'annotate', [Const('<label>'), w.call(w.dm, 'group', [fc])])
                else:
                    x = w.call(w.dm, 'group', [w.call(w.dm, 'nest', [Const(2), w.call(w.dm, 'concat', [ListV([x, w.LINE, x])])])])
                per_level.append(sum(w.it.call_counts.values()))
            w.it.call_counts = None
        except (Undecided, PathLimit, Raised) as e:
            n += 1
            rep.undecided(rule, 'construction-cost[%s]' % shape, where, str(e))
            continue
        n += 1
        rep.check(max(per_level[2:]) <= per_level[1] + 2, rule, 'construction-cost-constant-per-level[%s]' % shape, where,
                  'calls for wrapping one more level, levels 1..7: %s' % per_level,
                  'wrapping a document into one more annotate / group / flat_choice level takes %s interpreted calls at levels 1..7: a combinator '
                  'walks the whole document it is given, and a child that sits in both alternatives is walked twice per level - the work doubles with '
                  'every nesting level of commented values' % per_level, nontrivial=True)
    return n


# ---------------------------------------------------------------------------------------------------- comment documents (C09.b / C09.d)
def denote_fill(t):
    """like denote(), but the blank separators inside a fill choose flat / broken independently (what fill is for); returns a set of texts"""
    texts = set()
    seps = []

    def collect(t):
        k = t[0]
        if k == 'fill':
            for x in t[1]:
                if x[0] == 'fc':
                    seps.append(x)
                collect(x)
        elif k == 'cat':
            for x in t[1]:
                collect(x)
        elif k in ('ann', 'ab', 'grp'):
            collect(t[1])
        elif k == 'nest':
            collect(t[2])
        elif k == 'fc':
            collect(t[1])
            collect(t[2])
    collect(t)
    seps = seps[:7]

    def go(t, mode, indent, assign):
        k = t[0]
        if k == 't':
            return t[1]
        if k == 'nil':
            return ''
        if k == 'hl':
            return '\n' + ' ' * max(indent, 0)
        if k in ('line', 'soft'):
            return (' ' if k == 'line' else '') if mode == 'flat' else '\n' + ' ' * max(indent, 0)
        if k in ('cat', 'fill'):
            return ''.join(go(x, mode, indent, assign) for x in t[1])
        if k == 'nest':
            return go(t[2], mode, indent + t[1], assign)
        if k == 'ann':
            return go(t[1], mode, indent, assign)
        if k == 'ab':
            return go(t[1], 'break', indent, assign)
        if k == 'grp':
            return go(t[1], mode if mode == 'flat' or _flat_forced(t[1]) else 'flat', indent, assign)
        if k == 'fc':
            m = assign.get(id(t), mode)
            return go(t[2] if m == 'flat' else t[1], m, indent, assign)
        raise ValueError(k)
    for bits in itertools.product(['break', 'flat'], repeat=len(seps)):
        texts.add(go(t, 'break', 0, {id(s_): b for s_, b in zip(seps, bits)}))
    texts.add(go(t, 'flat', 0, {}))
    return texts


COMMENT_TEXTS = ['w', 'two words', 'three little words', '  leading blanks', 'trailing blanks   ', 'wide   gaps  inside', 'tab\tseparated',
                 'first\nsecond', 'first line\nsecond line', 'para one\n\npara two', 'ends with newline\n', 'x\n \ny', ' ', '\n', 'a\n\n\nb', '#hash inside', 'a b\nc',
                 # line ends other than \\n: a bare carriage return ends a line of Python source too
                 'one\rtwo', 'dos line\r\nsecond', 'tail\r', 'x\ry z\rw']


def comments(repo, rep, rule):
    """commentdoc(text) interpreted on small concrete texts: in every layout every line starts with '#', the words of the text appear in
    order and nothing else does, separate lines of the text stay on separate lines; '' is rejected.  Returns the instance count."""
    import re
    w = World(repo)
    m = repo.module('prettyprinter')
    f = m.funcs.get('commentdoc')
    if f is None:
        raise AnalysisError('commentdoc vanished')
    w.it.eager_generators = {g_.name for g_ in repo.module('utils').funcs.values()}
    bad, und = [], []
    ok = 0
    # comment texts with more words than every size constant the comment builder compares against (and than a fixed small count)
    from . import shape as _S
    counts, mined = _S.scaled_counts(repo, f)
    rep.note('comment builder: size constants %s; word counts %s' % ({k: v[:1] for k, v in mined.items()} or 'none', counts))
    scaled = []
    for c_ in counts:
        scaled.append(' '.join('w%d' % i for i in range(c_ + 1)))
        scaled.append(' '.join('w%d' % i for i in range(c_ + 1)) + '\nsecond ' + ' '.join('v%d' % i for i in range(c_)))
    for text in COMMENT_TEXTS + scaled:
        try:
            doc = w.call(m, 'commentdoc', [Const(text)])
            layouts = denote_fill(w.term_of(doc))
            nd = w.normalize(doc)
            layouts |= denote_fill(w.term_of(nd))
        except Raised as e:
            bad.append('commentdoc(%r) raises %s' % (text, e.what))
            continue
        except (Undecided, PathLimit) as e:
            und.append('%s on commentdoc(%r)' % (e, text))
            continue
        words = text.split()
        src_lines = text.splitlines() or ['']
        problem = None
        for lay in sorted(layouts):
            lines = re.split(r'\r\n|\n|\r', lay)       # the line ends of Python source
            if not all(ln.startswith('#') for ln in lines):
                problem = 'the layout %r has a line that does not start with "#": the rest of the comment would be read as code' % lay
                break
            got_words = ' '.join(ln[1:] for ln in lines).split()
            if got_words != words:
                k_ = next((j for j, (x_, y_) in enumerate(zip(got_words, words)) if x_ != y_), min(len(got_words), len(words)))
                problem = ('the layout %r shows the words %s, the comment text has %s' % (lay, got_words, words)) if len(words) < 12 else (
                    'a layout of the comment shows %d words where the text has %d: from word %d on it has %s where the text has %s'
                    % (len(got_words), len(words), k_, got_words[k_:k_ + 3], words[k_:k_ + 3]))
                break
            if len(lines) < len(src_lines):
                problem = 'the layout %r has %d lines for a comment text of %d lines' % (lay, len(lines), len(src_lines))
                break
            if any(ln != ln.rstrip() and ln.strip() == '#' for ln in lines):
                pass
        if problem:
            bad.append('commentdoc(%s): %s' % (repr(text) if len(text) < 60 else repr(text[:40]) + '... (%d words)' % len(words), problem))
        else:
            ok += 1
    # the empty text is rejected (every call site tests the comment for truthiness first)
    try:
        w.call(m, 'commentdoc', [Const('')])
        bad.append("commentdoc('') returns a document instead of rejecting the empty text")
    except Raised as e:
        if e.what.startswith('ValueError'):
            ok += 1
        else:
            bad.append("commentdoc('') raises %s" % e.what)
    except (Undecided, PathLimit) as e:
        und.append(str(e))
    n = 1
    if bad:
        for i, d in enumerate(bad[:4]):
            rep.fail(rule, 'comment-lines-start-with-hash' if i == 0 else 'comment-lines-start-with-hash#%d' % (i + 1), f.where, d)
    else:
        rep.check(ok >= 12 or bool(und), rule, 'comment-lines-start-with-hash', f.where, 'held on %d interpreted comment texts (all layouts)' % ok,
                  'only %d comment texts could be interpreted' % ok, nontrivial=True)
    for u in und[:4]:
        n += 1
        rep.undecided(rule, 'commentdoc-interpretable', f.where, u)
    return n
