"""C16 -- the coloured renderer decided semantically.

The renderer (and everything it calls inside the package: the line splitter, rfind_idx, the style builder) is
interpreted abstractly on small *concrete* annotated sdoc sequences: texts, line breaks, and balanced push/pop pairs of
syntax tokens and of other annotation values, nested up to depth 3.  The stream, the pygments style object and the
colorful module are models:

* ``stream.write(x)``            records x
* ``style.style_for_token(t)``   returns a concrete attribute dict chosen by the scenario (a *profile*: any combination of
                                 color / bgcolor / bold / italic / underline)
* ``colorful.<name>``            is resolved *at attribute access* under colorful's style grammar (read from the installed
                                 colorful sources) against the current palette, to a list of SGR operations; an
                                 unparsable name raises, like colorful does
* ``colorful.update_palette``    updates the palette;   ``a & b`` concatenates;   ``str(style)`` is the operation list

What was written is then decoded by an SGR state machine (reset / fg / bg / modifiers) - the decoding the property itself
names - and compared with the specification: the characters are those of the plain renderer on the same input (which is
interpreted too), every non-blank character carries exactly the attributes of the innermost enclosing syntax token (none
outside tokens), and the final state is the reset state.  Nothing here depends on how the source spells the algorithm."""
import ast
import itertools
import random
import re

from engine.astutil import src
from engine.interp import (Const, Sym, SymStr, ListV, TupleV, DictV, ObjV, TypeV, AnnotV, Prim, NONE, Undecided, Raised, PathLimit, prov)
from engine.loader import AnalysisError
from . import shape as S

PROFILES = [
    {'color': 'fg-A', 'bgcolor': '', 'bold': False, 'italic': False, 'underline': False},
    {'color': 'fg-B', 'bgcolor': '', 'bold': True, 'italic': False, 'underline': False},
    {'color': '', 'bgcolor': 'bg-C', 'bold': False, 'italic': False, 'underline': True},
    {'color': '', 'bgcolor': '', 'bold': False, 'italic': False, 'underline': False},
    {'color': 'fg-E', 'bgcolor': 'bg-E', 'bold': False, 'italic': True, 'underline': False},
    {'color': '', 'bgcolor': '', 'bold': True, 'italic': True, 'underline': True},
    {'color': 'fg-A', 'bgcolor': '', 'bold': True, 'italic': False, 'underline': False},
    {'color': 'fg-A', 'bgcolor': 'bg-C', 'bold': False, 'italic': False, 'underline': False},
    {'color': '', 'bgcolor': 'bg-C', 'bold': False, 'italic': True, 'underline': False},
]
MOD_OF = {'bold': 'bold', 'italic': 'italic', 'underline': 'underlined'}
DEFAULT_STATE = (None, None, frozenset())


def expected_state(profile):
    return (profile['color'] or None, profile['bgcolor'] or None,
            frozenset(MOD_OF[k] for k in MOD_OF if profile[k]))


class ColorfulError(Exception):
    pass


def translate_style(name, modifiers, palette):
    """colorful.core.translate_style as SGR operations"""
    parts = name.split('_')
    ops = []
    i = 0
    while i < len(parts) and parts[i] in modifiers:
        ops.append(('reset',) if parts[i] == 'reset' else ('mod', parts[i]))
        i += 1
    if i == len(parts):
        return ops
    if parts[i] != 'on':
        if parts[i] not in palette:
            raise ColorfulError('the color "%s" is unknown (style name %r)' % (parts[i], name))
        ops.append(('fg', palette[parts[i]]))
        i += 1
        if i == len(parts):
            return ops
        i += 1          # the 'on' keyword, consumed unchecked by colorful
    else:
        i += 1
    if i >= len(parts):
        return ops
    if parts[i] not in palette:
        raise ColorfulError('the background color "%s" is unknown (style name %r)' % (parts[i], name))
    ops.append(('bg', palette[parts[i]]))
    return ops


_OP_RE = re.compile(r'SGR<([^<>]*)>')


def _enc(ops):
    return ''.join('SGR<%s>' % '='.join(op) for op in ops)


def _dec(text):
    return [tuple(x.split('=', 1)) for x in _OP_RE.findall(text)]


class World:
    """one interpretation of a renderer over one scenario"""

    def __init__(self, repo, grammar, profile_of_pyg=None):
        self.repo = repo
        self.modifiers, self.real, base_palette = grammar
        self.palette = {k: 'named:' + k for k in base_palette}
        self.writes = []
        self.profile_of_pyg = profile_of_pyg or {}
        self.unknown_pyg = []
        prims = {
            'method:write': self.m_write,
            'method:style_for_token': self.m_style_for_token,
            'colorful.update_palette': self.p_update_palette,
        }
        self.it = S.interp(repo, 'builder', prims, max_paths=64)
        self.it.concrete_context = True
        self.it.concrete_classes = {'SLine', 'SAnnotationPush', 'SAnnotationPop', 'CommentAnnotation'}
        self.it.eager_generators = {f.name for mod in ('render', 'color', 'utils') for f in repo.module(mod).funcs.values()}
        self.it.foreign_attr = {'colorful': self.colorful_attr}

    # -- models
    def m_write(self, it, obj, a, k, n):
        if not (isinstance(obj, Const) and obj.v == '<STREAM>'):
            return NotImplemented
        self.writes.append(a[0] if a else NONE)
        return NONE

    def m_style_for_token(self, it, obj, a, k, n):
        key = prov(a[0]) if a else '?'
        p = self.profile_of_pyg.get((prov(obj), key)) or self.profile_of_pyg.get(key)
        if p is None:
            self.unknown_pyg.append(key)
            p = PROFILES[3]
        self.style_objs = getattr(self, 'style_objs', []) + [obj]
        d = DictV([(Const(k_), Const(v_)) for k_, v_ in p.items()])
        for extra in ('roman', 'sans', 'mono', 'border'):
            d.set(Const(extra), Const(None))
        return d

    def p_update_palette(self, it, a, k, n):
        d = a[0]
        if not isinstance(d, DictV):
            raise Undecided('colorful.update_palette(%s)' % prov(d))
        for kk, vv in d.items:
            if not isinstance(kk, Const):
                raise Undecided('palette name %s is not constant' % prov(kk))
            self.palette[kk.v] = vv.v if isinstance(vv, Const) else prov(vv)
        return NONE

    def colorful_attr(self, it, attr, n):
        if attr in self.real:
            return Prim('colorful.' + attr)
        try:
            ops = translate_style(attr, self.modifiers, self.palette)
        except ColorfulError as e:
            raise Raised('ColorfulAttributeError: %s' % e, getattr(n, 'lineno', 0))
        return Sym(_enc(ops) or 'SGR<nop>', 'style')

    def p_str(self, it, a, k, n):
        if a and isinstance(a[0], Sym) and 'SGR<' in a[0].prov:
            return SymStr(a[0].prov, nonempty=True)
        return NotImplemented


def _build(it, tree, values):
    """tree -> ListV of sdoc values"""
    out = []

    def rec(items):
        for item in items:
            if item[0] == 't':
                out.append(Const(item[1]))
            elif item[0] == 'l':
                out.append(it.construct(TypeV('SLine'), [Const(item[1])], {}, None))
            else:
                v = values[item[1]](it)
                out.append(it.construct(TypeV('SAnnotationPush'), [v], {}, None))
                rec(item[2])
                out.append(it.construct(TypeV('SAnnotationPop'), [v], {}, None))
    rec(tree)
    return ListV(out)


def _show(tree):
    def txt(x):
        return repr(x) if len(x) < 24 else '%r*%d' % (x[0], len(x)) if len(set(x)) == 1 else '%r...(%d characters)' % (x[:12], len(x))

    def rec(items):
        if len(items) > 40:
            return '%s ... %s (%d sdocs)' % (rec(items[:14]), rec(items[-4:]), len(items))
        return ''.join(txt(i[1]) if i[0] == 't' else 'NL(%d)' % i[1] if i[0] == 'l' else '<%s>%s</%s>' % (i[1], rec(i[2]), i[1])
                       for i in items)
    return rec(tree)


def _two(a, b):
    """two texts for a message: whole when short, otherwise their lengths and the first difference"""
    if len(a) < 200 and len(b) < 200:
        return repr(a), repr(b)
    i = next((i for i, (x, y) in enumerate(zip(a, b)) if x != y), min(len(a), len(b)))
    return ('of %d characters (...%r at %d)' % (len(a), a[max(0, i - 12):i + 8], i), 'of %d characters (...%r)' % (len(b), b[max(0, i - 12):i + 8]))


def _expected_chars(tree, state_of):
    """non-blank characters with the state of the innermost enclosing syntax token"""
    out = []

    def rec(items, cur):
        for item in items:
            if item[0] == 't':
                out.extend((ch, cur) for ch in item[1] if not ch.isspace())
            elif item[0] == 'a':
                rec(item[2], state_of.get(item[1], cur) if item[1] in state_of else cur)
    rec(tree, DEFAULT_STATE)
    return out


def _decode(writes):
    """[(char, state)] for text and the final state; raises Undecided for a write that is neither text nor style"""
    fg, bg, mods = DEFAULT_STATE
    chars = []
    for w in writes:
        if isinstance(w, Const) and isinstance(w.v, str):
            chars.extend((ch, (fg, bg, frozenset(mods))) for ch in w.v)
            continue
        text = prov(w)
        ops = _dec(text)
        rest = _OP_RE.sub('', text).replace('str(', '(')
        if not ops or rest.strip('()&+ '):
            raise Undecided('the renderer writes %s, which is neither text nor a style string' % text)
        for op in ops:
            if op[0] == 'reset':
                fg, bg, mods = DEFAULT_STATE
            elif op[0] == 'fg':
                fg = op[1]
            elif op[0] == 'bg':
                bg = op[1]
            elif op[0] == 'mod':
                mods = frozenset(mods | {op[1]})
    return chars, (fg, bg, frozenset(mods))


def _fmt(state):
    fg, bg, mods = state
    if state == DEFAULT_STATE:
        return 'unstyled'
    return 'fg=%s bg=%s %s' % (fg, bg, '+'.join(sorted(mods)) or '-')


def _token_table(repo, it):
    m = repo.module('color')
    for name, vals in m.assigns.items():
        v = vals[-1]
        if isinstance(v, ast.Dict) and v.keys and all(k is not None and src(k).startswith('Token.') for k in v.keys):
            t = it.global_name(m, name)
            if isinstance(t, DictV):
                return t
    raise AnalysisError('cannot find the token -> pygments token table in color.py')


# ---------------------------------------------------------------------------------------------------- scenarios
def _chain_tree(chain, shape, letters):
    nxt = iter(letters)

    def t(pad=''):
        return ('t', pad + next(nxt) + pad)
    if shape == 'texts':
        inner = [t()]
        for v in reversed(chain):
            inner = [t(), ('a', v, inner), t()]
        return inner
    if shape == 'lines':
        inner = [t(' '), ('l', 4), t()]
        for d, v in enumerate(reversed(chain)):
            inner = [t(), ('a', v, inner), t(' '), ('l', 2 * d), t()]
        return inner
    if shape == 'tight':
        inner = [t()]
        for v in reversed(chain):
            inner = [('a', v, inner)]
        return inner
    if shape == 'siblings':
        other = {'T1': 'T2', 'T2': 'N', 'N': 'T1', 'T3': 'T1', 'S': 'T2'}[chain[-1]]
        inner = [('a', chain[-1], [t()]), ('a', other, [t(' ')]), ('l', 0), t(), ('a', chain[-1], [t(' ')])]
        for v in reversed(chain[:-1]):
            inner = [t(), ('a', v, inner), t()]
        return inner
    raise ValueError(shape)


def scenarios(tier, seed):
    letters = 'abcdefghijklmnopqrstuvwxyzABCDEFGHIJKLMNOPQRSTUVWXYZ0123456789'
    out = [[], [('t', 'a')], [('t', 'a'), ('t', '  '), ('l', 2), ('t', '# '), ('t', ' '), ('l', 0), ('a', 'T1', [('t', 'b'), ('t', ' ')]), ('t', ' ')], [('t', 'a\tb'), ('a', 'T1', [('t', 'c\td')])], [('t', 'a '), ('l', 0), ('t', ' '), ('l', 3), ('t', 'b')], [('l', 2)], [('a', 'N', [])], [('a', 'T1', [])],
           # trailing whitespace other than plain spaces (a repr ending in a tab, a no-break space, a form feed): both renderers trim it alike
           [('t', 'a\t'), ('l', 0), ('t', 'b\xa0'), ('l', 2), ('a', 'T1', [('t', 'c \t ')]), ('l', 0), ('t', 'd\x0c')],
           [('a', 'T2', [('t', 'x'), ('t', '\t')]), ('l', 1), ('t', 'y')]]
    for depth in (1, 2, 3):
        for chain in itertools.product(['T1', 'T2', 'N'], repeat=depth):
            for shape in ('texts', 'lines', 'tight', 'siblings'):
                out.append(_chain_tree(list(chain), shape, letters))
    out.append(_chain_tree(['T1', 'S', 'T3'], 'texts', letters))
    out.append(_chain_tree(['S', 'T1'], 'lines', letters))
    if tier == 'thorough':
        rng = random.Random(seed)
        for _ in range(600):
            nxt = iter(letters)

            def gen(depth, budget):
                items = []
                for _i in range(rng.randint(0, 3)):
                    r = rng.random()
                    if r < 0.4 or depth >= 3 or budget[0] <= 0:
                        items.append(('t', next(nxt) + rng.choice(['', '', ' ', '  '])))
                    elif r < 0.55:
                        items.append(('l', rng.choice([0, 1, 4])))
                    else:
                        budget[0] -= 1
                        items.append(('a', rng.choice(['T1', 'T2', 'T3', 'N', 'S']), gen(depth + 1, budget)))
                return items
            out.append(gen(0, [6]))
    return out


def run(repo, rep, members):
    from .c16 import _colorful_grammar
    mods, real, palette = _colorful_grammar()
    grammar = (mods, real, palette)
    m = repo.module('color')
    f = m.funcs.get('colored_render_to_stream')
    plain = repo.module('render').funcs.get('default_render_to_stream')
    if f is None or plain is None:
        raise AnalysisError('colored_render_to_stream / default_render_to_stream vanished')
    w0 = World(repo, grammar)
    table = _token_table(repo, w0.it)
    rep.analysed['token_table_keys'] = len(table.items)

    def pyg_of(member):
        v = table.get(AnnotV('Token.' + member))
        return prov(v) if v is not None else None

    def run_one(tree, tokens, profiles, style_given=True):
        """tokens: scenario key -> Token member name; returns (world, results, plain_text)"""
        profile_of_pyg = {}
        state_of = {}
        for key, member in tokens.items():
            pg = pyg_of(member)
            if pg is None:
                continue
            p = profile_of_pyg.setdefault(pg, profiles[key])
            state_of[key] = expected_state(p)
        w = World(repo, grammar, profile_of_pyg)
        values = {k: (lambda it, mem=mem: AnnotV('Token.' + mem)) for k, mem in tokens.items()}
        values['N'] = lambda it: it.construct(TypeV('CommentAnnotation'), [Const('note')], {}, None)
        values['S'] = lambda it: Const('user-annotation')
        sd = _build(w.it, tree, values)
        w.it.max_while = 4000 + 40 * len(tree)
        style = Const('<STYLE>') if style_given else NONE
        prs = w.it.explore(f, [Const('<STREAM>'), sd, style], {})
        wp = World(repo, grammar)
        wp.it.max_while = 4000 + 40 * len(tree)
        sdp = _build(wp.it, tree, values)
        pp = wp.it.explore(plain, [Const('<STREAM>'), sdp], {})
        return w, prs, wp, pp, state_of

    n = {'a': 0, 'b': 0, 'c': 0, 'e': 0, 'f': 0}
    where = f.where

    def judge(tree, tokens, profiles, label, rule_b='C16.b'):
        desc = _show(tree)
        try:
            w, prs, wp, pp, state_of = run_one(tree, tokens, profiles)
        except (Undecided, PathLimit) as e:
            rep.undecided('C16.f', 'render[%s]' % label, where, '%s on %s' % (e, desc))
            return None
        rep.count(len(prs))
        if len(prs) != 1 or len(pp) != 1:
            rep.undecided('C16.f', 'render[%s]' % label, where, 'the renderer has %d / the plain renderer %d abstract paths on concrete input %s: %s'
                          % (len(prs), len(pp), desc, [p.fact_text() for p in prs][:2]))
            return None
        if prs[0].raised is not None:
            what = prs[0].raised.what
            rule = 'C16.a' if what.startswith('KeyError') else 'C16.e' if 'Colorful' in what else 'C16.f'
            n[rule[-1]] += 1
            rep.fail(rule, 'renders-without-error[%s]' % label, '%s:%s' % (m.relpath, prs[0].raised.lineno),
                     'rendering %s with token styles %s raises %s' % (desc, {k: profiles[k] for k in tokens if k in profiles}, what))
            return None
        if pp[0].raised is not None:
            rep.undecided('C16.f', 'plain-render[%s]' % label, where, 'the plain renderer raises %s on %s' % (pp[0].raised.what, desc))
            return None
        try:
            chars, final = _decode(w.writes)
            pchars, _ = _decode(wp.writes)
        except Undecided as e:
            rep.undecided('C16.f', 'decode[%s]' % label, where, '%s (input %s)' % (e, desc))
            return None
        text = ''.join(c for c, _ in chars)
        ptext = ''.join(c for c, _ in pchars)
        n['f'] += 1
        rep.check(text == ptext, 'C16.f', 'plain-text-agreement', where, 'styling removed, the coloured output is the plain output',
                  'for %s the coloured renderer writes the text %s but the plain renderer %s' % (desc, *_two(text, ptext)), nontrivial=True)
        if text != ptext:
            return False
        exp = _expected_chars(tree, state_of)
        got = [(c, s) for c, s in chars if not c.isspace()]
        n['b'] += 1
        bad = None
        if [c for c, _ in exp] != [c for c, _ in got]:
            rep.undecided('C16.b', 'attribution[%s]' % label, where, 'non-blank characters of %s do not line up with what was written (%r)' % (desc, text))
            return None
        for (c, want), (_, have) in zip(exp, got):
            if want != have:
                bad = (c, want, have)
                break
        rep.check(bad is None, rule_b, 'innermost-token-style', where, 'every character is shown in the style of the innermost enclosing syntax token',
                  bad and 'rendering %s (token styles %s): character %r is written in state [%s] but its innermost enclosing syntax token '
                  'calls for [%s]' % (desc, {k: _fmt(v) for k, v in state_of.items()}, bad[0], _fmt(bad[2]), _fmt(bad[1])), nontrivial=True)
        n['c'] += 1
        rep.check(final == DEFAULT_STATE, 'C16.c', 'ends-in-reset-state', where, 'the stream ends in the reset state',
                  'after rendering %s the terminal is left in state [%s]: colour leaks into later output' % (desc, _fmt(final)), nontrivial=True)
        return bad is None and final == DEFAULT_STATE

    # every Token member has a style mapping and renders (C16.a)
    for i, mem in enumerate(members):
        tree = [('t', 'a'), ('a', 'T1', [('t', 'x')]), ('t', 'b')]
        n['a'] += 1
        has = pyg_of(mem) is not None
        rep.check(has, 'C16.a', 'table-has:%s' % mem, where, 'token has a pygments mapping',
                  'Token.%s has no entry in the token->pygments table: rendering a document annotated with it raises KeyError' % mem, nontrivial=True)
        judge(tree, {'T1': mem}, {'T1': PROFILES[i % len(PROFILES)]}, 'member:' + mem, rule_b='C16.a')
    # the nesting scenarios
    mem3 = [mm for mm in members if pyg_of(mm) is not None]
    distinct = []
    seen_pyg = set()
    for mm in mem3:
        if pyg_of(mm) not in seen_pyg:
            seen_pyg.add(pyg_of(mm))
            distinct.append(mm)
    if len(distinct) < 3:
        raise AnalysisError('fewer than three distinctly mapped tokens')
    scs = scenarios(rep.tier, rep.seed)
    for i, tree in enumerate(scs):
        toks = {'T1': distinct[i % len(distinct)], 'T2': distinct[(i + 1) % len(distinct)], 'T3': distinct[(i + 2) % len(distinct)]}
        profs = {'T1': PROFILES[i % len(PROFILES)], 'T2': PROFILES[(i // 2 + 1) % len(PROFILES)], 'T3': PROFILES[(i // 3 + 2) % len(PROFILES)]}
        judge(tree, toks, profs, 's%d' % i)
    # streams longer (in items and in characters) than every size constant the renderers read, and than a fixed small scale
    scaled, mined = scaled_streams(repo, ('color', 'render', 'utils'))
    rep.note('coloured renderer: size constants read by color / render / utils: %s; %d streams scaled past them (and past 8)' % (
        {k_: v_[:2] for k_, v_ in mined.items()} or 'none', len(scaled)))
    for i, tree in enumerate(scaled):
        if len(tree) > 40 and i % 5 not in (1, 3):
            continue        # two of the four line lengths per scale
        judge(tree, {'T1': distinct[i % len(distinct)]}, {'T1': PROFILES[i % len(PROFILES)]}, 'scaled%d' % i)
    # pairs of token styles in one rendering (styles that share some attributes must not be confused), side by side and nested
    k = 0
    for p_, q_ in itertools.permutations(PROFILES, 2):
        for tree in ([('a', 'T1', [('t', 'x')]), ('t', 'm'), ('a', 'T2', [('t', 'y')]), ('a', 'T1', [('t', 'z')])],
                     [('a', 'T1', [('t', 'x'), ('a', 'T2', [('t', 'y')]), ('t', 'z')])]):
            k += 1
            judge(tree, {'T1': distinct[k % len(distinct)], 'T2': distinct[(k + 1) % len(distinct)]}, {'T1': p_, 'T2': q_}, 'pair%d' % k)
    # two renderings with different pygments styles in one process: nothing remembered from the first may colour the second
    try:
        tree = [('a', 'T1', [('t', 'x')]), ('t', 'y')]
        pg = pyg_of(distinct[0])
        w2 = World(repo, grammar, {(repr('<STYLE>'), pg): PROFILES[1], (repr('<STYLE2>'), pg): PROFILES[2]})
        vals = {'T1': lambda it: AnnotV('Token.' + distinct[0])}
        ok2 = True
        detail = ''
        for style_name, prof in (('<STYLE>', PROFILES[1]), ('<STYLE2>', PROFILES[2]), ('<STYLE>', PROFILES[1])):
            w2.writes = []
            prs = w2.it.explore(f, [Const('<STREAM>'), _build(w2.it, tree, vals), Const(style_name)], {})
            if len(prs) != 1 or prs[0].raised is not None:
                ok2, detail = False, 'rendering with %s raises / forks' % style_name
                break
            chars, final = _decode(w2.writes)
            got = dict((c, s_) for c, s_ in chars)
            if got.get('x') != expected_state(prof) or got.get('y') != DEFAULT_STATE or final != DEFAULT_STATE:
                ok2, detail = False, 'rendering with %s after another style shows the token as [%s], expected [%s]' % (
                    style_name, _fmt(got.get('x', DEFAULT_STATE)), _fmt(expected_state(prof)))
                break
        n['b'] += 1
        rep.check(ok2, 'C16.b', 'style-per-call', where, 'each call uses the style it is given', detail, nontrivial=True)
    except (Undecided, PathLimit) as e:
        rep.undecided('C16.b', 'style-per-call', where, str(e))
    # style omitted -> the module's *current* default style is asked
    try:
        tree = [('a', 'T1', [('t', 'x')])]
        pg = pyg_of(distinct[0])
        wd = World(repo, grammar, {pg: PROFILES[0]})
        wd.it.globals_store[(m.name, 'default_style')] = Const('<DEFAULT-STYLE>')
        sd = _build(wd.it, tree, {'T1': lambda it: AnnotV('Token.' + distinct[0])})
        prs = wd.it.explore(f, [Const('<STREAM>'), sd, NONE], {})
        objs = getattr(wd, 'style_objs', [])
        n['b'] += 1
        rep.check(len(prs) == 1 and prs[0].raised is None and len(objs) >= 1 and all(isinstance(o, Const) and o.v == '<DEFAULT-STYLE>' for o in objs),
                  'C16.b', 'default-style-when-omitted', where, 'style=None uses the configured default style',
                  'with style=None the renderer asks %s for token styles (raised: %s)' % ([prov(o) for o in objs], prs[0].raised.what if prs and prs[0].raised else None))
    except (Undecided, PathLimit) as e:
        rep.undecided('C16.b', 'default-style-when-omitted', where, str(e))
    rep.analysed['render_scenarios'] = len(scs) + len(members)
    rep.floor('C16.a', n['a'], len(members))
    rep.floor('C16.b', n['b'], 100)
    rep.floor('C16.c', n['c'], 100)
    rep.floor('C16.f', n['f'], 100)


def style_builder(repo, rep, modifiers, real, palette, _style_ok):
    """C16.d / C16.e: every combination of style attributes gives a style that colorful accepts, that starts from reset and that
    sets exactly the attributes asked for.  Found through the renderer: whatever turns style_for_token's result into what is
    written."""
    m = repo.module('color')
    f = m.funcs.get('colored_render_to_stream')
    grammar = (modifiers, real, palette)
    w0 = World(repo, grammar)
    table = _token_table(repo, w0.it)
    first_key, first_pyg = table.items[0]
    n = 0
    everything = {'color': 'fg-OUTER', 'bgcolor': 'bg-OUTER', 'bold': True, 'italic': True, 'underline': True}
    outer_key, outer_pyg = next(((k, v) for k, v in table.items if prov(v) != prov(first_pyg)), (None, None))
    if outer_key is None:
        raise AnalysisError('the token table maps every token to the same pygments token')
    for bits in itertools.product([False, True], repeat=5):
        prof = {'color': 'fg-X' if bits[0] else '', 'bgcolor': 'bg-Y' if bits[1] else '', 'bold': bits[2], 'italic': bits[3], 'underline': bits[4]}
        label = ','.join(k for k in prof if prof[k]) or 'nothing'
        w = World(repo, grammar, {prov(first_pyg): prof, prov(outer_pyg): everything})
        # alone, and inside a token that has every attribute set (nothing of the outer style may stay on)
        tree = [('a', 'T', [('t', 'x')]), ('t', 'm'), ('a', 'O', [('t', 'o'), ('a', 'T', [('t', 'y')]), ('t', 'p')])]
        sd = _build(w.it, tree, {'T': lambda it: first_key, 'O': lambda it: outer_key})
        n += 1
        try:
            prs = w.it.explore(f, [Const('<STREAM>'), sd, Const('<STYLE>')], {})
        except (Undecided, PathLimit) as e:
            rep.undecided('C16.e', 'style[%s]' % label, f.where, str(e))
            continue
        if len(prs) != 1:
            rep.undecided('C16.e', 'style[%s]' % label, f.where, '%d abstract paths' % len(prs))
            continue
        if prs[0].raised is not None:
            rep.fail('C16.e', 'style-accepted-by-colorful[%s]' % label, '%s:%s' % (m.relpath, prs[0].raised.lineno),
                     'a pygments style with {%s} makes rendering fail: %s' % (label, prs[0].raised.what))
            continue
        rep.ok('C16.e', 'style-accepted-by-colorful[%s]' % label, f.where, 'every style name fetched from colorful parses', nontrivial=True)
        try:
            chars, _ = _decode(w.writes)
        except Undecided as e:
            rep.undecided('C16.d', 'style[%s]' % label, f.where, str(e))
            continue
        got = dict(chars)
        n += 1
        rep.check(got.get('x') == expected_state(prof), 'C16.d', 'style-sets-what-was-asked[%s]' % label, f.where,
                  'the style sets exactly the attributes of the pygments style',
                  'a token whose pygments style has {%s} is shown as [%s]' % (label, _fmt(got.get('x', DEFAULT_STATE))), nontrivial=True)
        n += 1
        rep.check(got.get('y') == expected_state(prof) and got.get('p') == expected_state(everything), 'C16.d', 'style-built-from-reset', f.where,
                  'an inner token style cancels the outer one, which is restored afterwards',
                  'a token with {%s} inside a token with every attribute set is shown as [%s] (expected [%s]); the outer text after it as [%s]: '
                  'attributes of the enclosing style stay on - a token style must start from reset'
                  % (label, _fmt(got.get('y', DEFAULT_STATE)), _fmt(expected_state(prof)), _fmt(got.get('p', DEFAULT_STATE))), nontrivial=True)
    return n


# ---------------------------------------------------------------------------------------------------- the plain renderer (C04.i)
def plain_spec(tree):
    """the text the property calls for: text fragments and line breaks in order, annotations invisible, every line break followed by
    its indentation, and on every line the last text fragment without its trailing blanks"""
    flat = []

    def rec(items):
        for item in items:
            if item[0] == 't':
                flat.append(('t', item[1]))
            elif item[0] == 'l':
                flat.append(('l', item[1]))
            else:
                rec(item[2])
    rec(tree)
    lines = [[]]
    for it in flat:
        if it[0] == 'l':
            lines.append([it])
        else:
            lines[-1].append(it)
    out = []
    for ln in lines:
        idx = max([i for i, it in enumerate(ln) if it[0] == 't'], default=None)
        for i, it in enumerate(ln):
            if it[0] == 'l':
                out.append('\n' + ' ' * it[1])
            else:
                out.append(it[1].rstrip() if i == idx else it[1])
    return ''.join(out)


def scaled_streams(repo, modules, most=9000):
    """sdoc streams longer (in items, and in characters) than every size constant the renderer reads, plus a fixed small scale: lines
    of several texts that end in blanks, so that a consumer cutting the stream anywhere cuts inside a line after such a text"""
    from engine import thresholds
    mods = []
    for nm in modules:
        try:
            mods.append(repo.module(nm))
        except AnalysisError:
            pass
    mined, beyond = thresholds.mine(mods, most=most)
    out = []
    for T in sorted(set(mined) | {8}):
        for per_line in (4, 5, 6, 7):
            tree = []
            while len(tree) < T + 9:
                tree.append(('l', 2))
                tree.extend(('t', '%s ' % chr(97 + i)) for i in range(per_line - 2))
                tree.append(('t', 'z'))
            tree.append(('t', ' end  '))
            out.append(tree)
        # few items, many characters
        out.append([('t', 'x' * (T + 1)), ('l', 0), ('t', 'y' * (T // 2 + 1) + ' '), ('t', 'w  '), ('l', 3), ('a', 'T1', [('t', 'k' * (T + 3))]), ('l', 0), ('t', 'tail ')])
    return out, mined


def plain_renderer(repo, rep, rule):
    """interprets default_render_to_stream (with as_lines, rfind_idx and whatever helpers it uses) on the scenario trees and compares
    what is written with the specification; returns the instance count"""
    from .c16 import _colorful_grammar
    grammar = _colorful_grammar()
    plain = repo.module('render').funcs.get('default_render_to_stream')
    if plain is None:
        raise AnalysisError('default_render_to_stream vanished')
    ok = 0
    bad = []
    und = []
    scs = scenarios(rep.tier, rep.seed)
    scs += [[('t', 'a '), ('t', 'b'), ('t', ' '), ('a', 'N', [('t', ' ')]), ('l', 2), ('t', ' c ')], [('t', '  ')], [('l', 0), ('l', 3), ('l', 0)],
            [('t', 'x'), ('a', 'T1', [('l', 4), ('t', 'y  '), ('a', 'N', [])]), ('l', 1), ('t', ' ')]]
    scaled, mined = scaled_streams(repo, ('render', 'utils'))
    rep.note('plain renderer: size constants read by render / utils: %s; %d streams scaled past them (and past 8)' % (
        {k: v[:2] for k, v in mined.items()} or 'none', len(scaled)))
    scs += scaled
    for tree in scs:
        w = World(repo, grammar)
        w.it.max_while = 4000 + 40 * len(tree)
        values = {k: (lambda it, k=k: Const('<token %s>' % k)) for k in ('T1', 'T2', 'T3')}
        values['N'] = lambda it: Const('<note>')
        values['S'] = lambda it: Const('user-annotation')
        try:
            prs = w.it.explore(plain, [Const('<STREAM>'), _build(w.it, tree, values)], {})
        except (Undecided, PathLimit) as e:
            und.append('%s on %s' % (e, _show(tree)))
            continue
        if len(prs) != 1:
            und.append('%d abstract paths on %s' % (len(prs), _show(tree)))
            continue
        if prs[0].raised is not None:
            bad.append('rendering %s raises %s' % (_show(tree), prs[0].raised.what))
            continue
        if not all(isinstance(x, Const) and isinstance(x.v, str) for x in w.writes):
            und.append('non-text write on %s: %s' % (_show(tree), [prov(x) for x in w.writes if not isinstance(x, Const)][:2]))
            continue
        got = ''.join(x.v for x in w.writes)
        want = plain_spec(tree)
        if got == want:
            ok += 1
        else:
            i_ = next((i for i, (x, y) in enumerate(zip(got, want)) if x != y), min(len(got), len(want)))
            bad.append('rendering %s writes %r, expected %r' % (_show(tree), got, want) if len(want) < 200 else
                       'rendering %s writes %d characters, expected %d; first difference at character %d: %r where %r is expected' % (
                           _show(tree), len(got), len(want), i_, got[max(0, i_ - 12):i_ + 8], want[max(0, i_ - 12):i_ + 8]))
    n = 1
    where = plain.where
    if bad:
        for i, d in enumerate(bad[:4]):
            rep.fail(rule, 'plain-renderer-writes-the-text' if i == 0 else 'plain-renderer-writes-the-text#%d' % (i + 1), where, d)
    else:
        rep.check(ok >= 150, rule, 'plain-renderer-writes-the-text', where, 'held on %d interpreted sdoc sequences' % ok,
                  'only %d sequences could be compared' % ok, nontrivial=True)
    for u in und[:4]:
        n += 1
        rep.undecided(rule, 'plain-renderer-interpretable', where, u)
    rep.count(len(scs))
    return n
