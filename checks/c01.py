"""C01 -- printed built-in values evaluate back to an equal value of the same types."""
import ast

from engine import docterm as D
from engine import facts
from engine.astutil import src, call_name, dotted, Guards, compare_parts, names_in, enclosing_map, inside_try_body, handler_catches
from engine.interp import (Const, Sym, SymStr, ListV, TupleV, ValueV, CtxV, DocV, TypeV, FuncV, NONE, Undecided, PathLimit, prov)
from engine.loader import AnalysisError
from . import shape as S
from .c08 import string_printer_paths, _short

META = {
    'text': 'Taken whole this is a round-trip equality over run-time values and is NOT decided. Decided are the syntax-carrying '
            'clauses, by abstract interpretation of the printers on native-type scenarios and by guard/def-use rules: (a) the '
            'bracket pair produced for list / tuple / set / dict scenarios is the Python literal delimiter pair, with ":" and "," '
            'as separators; (b) a one-element tuple without trailing comment asks the sequence builder for a dangling comma and '
            'the builder then puts a "," directly before the closing bracket in every layout; (c) an empty set / frozenset is a '
            'constructor call, never "{}", and an empty list/tuple is the two-bracket literal; native values are never wrapped in '
            'a call (exact type); (d) repr(value) of a float is used only on the false branches of the inf / -inf / nan tests and '
            'those print float(\'inf\' | \'-inf\' | \'nan\'); (e) dict keys are iterated in the dict\'s own order, or through sorted() '
            'with a key that compares values first, with no other reordering; (f) True/False/None/... atoms; (g) a printer is '
            'registered for each of the twelve built-in literal types, bool separately from int; (i) no function of the printing '
            'pipeline is memoised by an equality-keyed cache (0.0/-0.0, 1/True/1.0 would share one text); (k) the elements of a container are ordered only through the always-sortable key: no sorted / min / max / .sort over data drawn from the value without it (a TypeError there degrades the whole value to its plain repr, which is not evaluable for nested inf / nan).',
    'note': 'escaping is the subject of C02; equality after evaluation, signed zero and float precision are delegated to the '
            'built-in __repr__',
    'technique': 'static analysis: abstract interpretation over a doc-shape domain (type scenarios), guard facts, def-use on the '
                 'key iterable, registry exhaustiveness',
}
META['text'] += " Round 5: the sequence printer is also run on sequences one longer than every size constant it compares against (constants mined from the source) with elements of known kinds (exact int / float / int subclass): every element is handed to the recursive print entry, or is the repr of an exact int; the sequence builder separates T+1 elements by single commas; the sort key orders 'item9' / 'item10' like <; the pieces rule of the string model is imported (C01.h)."

DELIMS = {'list': ('[', ']'), 'tuple': ('(', ')'), 'set': ('{', '}')}
NEED = ['int', 'float', 'bool', 'type(None)', 'type(...)', 'str', 'bytes', 'list', 'tuple', 'set', 'frozenset', 'dict']


def _guarded_by_homogeneity_test(repo, f, call):
    """the call is dominated by a positive test that calls a module-level predicate P(x); P, interpreted on concrete dicts / lists whose
    elements cannot all be ordered with < (str and int, None and int, tuple and str, two complex numbers, bool and str), answers
    False for each of them and True for plain strs and for plain ints"""
    from engine.astutil import Guards
    from engine.interp import Interp, DictV, ListV, Raised, PathLimit
    g = Guards(f.node)
    preds = []
    for ff in g.of(call):
        if not ff.pol:
            continue
        for x in ast.walk(ff.test):
            if isinstance(x, ast.Call) and isinstance(x.func, ast.Name) and x.func.id in f.module.funcs and len(x.args) == 1:
                preds.append(f.module.funcs[x.func.id])
    for p_ in preds:
        bad_sets = [['a', 1], [None, 1], [(1,), 'x'], [1j, 2j], [True, 'a'], [b'a', 'a'], [1.5, 'a'], [None, ()]]
        good_sets = [['a', 'b'], [2, 1]]
        try:
            def answer(keys):
                it = Interp(repo, {}, max_paths=4)
                it.concrete_context = True
                it.eager_generators = {q.name for q in f.module.funcs.values()}
                d = DictV([(Const(k), Const(0)) for k in keys])
                prs = it.explore(p_, [d], {})
                if len(prs) != 1 or prs[0].raised is not None or not isinstance(prs[0].value, Const):
                    raise Undecided('predicate not decided')
                return bool(prs[0].value.v)
            if all(answer(k) is False for k in bad_sets) and all(answer(k) is True for k in good_sets):
                return True
        except (Undecided, Raised, PathLimit, AnalysisError):
            continue
    return False


def total_order_only(repo, rep, rule):
    """The elements of a user's container are ordered only through the always-sortable key: ``sorted`` / ``min`` / ``max`` / ``.sort``
    over data drawn from the value being printed raise TypeError as soon as two elements cannot be compared (str and int, None and a
    number, two classes); the printer fails, the value degrades to its plain repr - which for nested nan / inf / user values does
    not evaluate back.  Attribute names (``value.__dict__``) are strings and compare.  Returns the number of ordering sites."""
    from engine import facts as F, roles
    from .c19 import _derives
    from engine.astutil import names_in
    sortable = roles.name(repo, 'sortable_cls')
    n = 0
    fns = {}
    for r in F.registry(repo):
        if r.fn is not None and '.extras' not in r.module.name:
            fns[r.fn.key] = r.fn
    for f in sorted(fns.values(), key=lambda x: x.key):
        if not f.params:
            continue
        tainted = {f.params[0]}
        for _ in range(6):
            before = set(tainted)
            for s_ in ast.walk(f.node):
                if isinstance(s_, ast.Assign) and _derives(s_.value, tainted):
                    for t in s_.targets:
                        tainted |= names_in(t)
                elif isinstance(s_, (ast.For, ast.comprehension)) and _derives(s_.iter, tainted):
                    tainted |= names_in(s_.target)
            if tainted == before:
                break
        for c in ast.walk(f.node):
            if not isinstance(c, ast.Call):
                continue
            cn = call_name(c)
            target = None
            if cn in ('sorted', 'min', 'max') and len(c.args) == 1:
                target = c.args[0]
            elif isinstance(c.func, ast.Attribute) and c.func.attr == 'sort' and not c.args:
                target = c.func.value
            if target is None or not _derives(target, tainted):
                continue
            # names of attributes are strings: totally ordered
            if src(target).endswith('.__dict__') or src(target).endswith('.__dict__.keys()') or src(target).endswith('.__slots__'):
                continue
            n += 1
            key = next((k.value for k in c.keywords if k.arg == 'key'), None)
            ok = key is not None and src(key).split('.')[-1] == sortable
            if not ok and key is None and _guarded_by_homogeneity_test(repo, f, c):
                # dominated by a predicate of the module that - interpreted on dicts with keys of mixed and of unorderable types -
                # lets none of them through: what reaches this sorted() can be ordered with <
                rep.ok(rule, '%s:orders-user-elements:%s' % (f.qualname, src(target)[:30]), '%s:%d' % (f.module.relpath, c.lineno),
                       'reached only with keys of one orderable built-in type (guard interpreted on mixed key sets)')
                continue
            rep.check(ok, rule, '%s:orders-user-elements:%s' % (f.qualname, src(target)[:30]), '%s:%d' % (f.module.relpath, c.lineno),
                      'ordered through the always-sortable key',
                      '%s orders %s with %s(...)%s: elements that cannot be compared with < (str and int, None and a number) make it raise '
                      'TypeError, the whole value degrades to its plain repr (not evaluable for nested inf / nan / user values)'
                      % (f.key, src(target), cn.split('.')[-1], '' if key is None else ' and key=%s' % src(key)), nontrivial=True)
    # the sort key itself never raises: its fallback orders by type name / is total (C01.e above checks the natural order comes first)
    n += 1
    srt = repo.module('prettyprinter').classes.get(sortable)
    rep.check(srt is not None and '__lt__' in srt.methods, rule, 'sort-key-class-defines-order', srt.where if srt else 'prettyprinter/prettyprinter.py',
              'the always-sortable key defines <', 'the always-sortable key class %s does not define __lt__' % sortable)
    return n


def run(repo, rep):
    rep.explanation = ('C01.a delimiter table, C01.b one-tuple comma, C01.c empty containers and exact native types, C01.d special '
                       'floats, C01.e key order, C01.f constant atoms, C01.g registration completeness.')
    rep.not_decided = 'that evaluation yields an equal value; escaping (C02); numeric repr (delegated to float.__repr__/int.__repr__).'
    rep.assumptions = ['Python literal grammar for list/tuple/set/dict delimiters']
    m = repo.module('prettyprinter')
    # ---------------------------------------------------------------- C01.g registry
    n = 0
    regs = {}
    for r in facts.registry(repo):
        if '.extras' not in r.module.name and r.fn is not None:
            regs.setdefault(r.key, []).append(r.fn)
    for key in NEED:
        n += 1
        rep.check(key in regs, 'C01.g', 'registered:%s' % key, m.relpath, 'printer registered', 'no printer is registered for %s' % key, nontrivial=True)
    n += 1
    rep.check('bool' in regs and 'int' in regs and regs['bool'][0] is not regs['int'][0], 'C01.g', 'bool-separate-from-int', m.relpath,
              'bool has its own printer', 'bool and int share a printer (True would print as 1)')
    rep.floor('C01.g', n, 13)
    missing = [k for k in NEED if k not in regs]
    if missing:
        return      # the shape clauses need every printer; the missing registration is already reported

    it = S.interp(repo, 'printer', {'pretty_str': S.p_pretty_str_as_sub})
    fseq = S.printer_for(repo, 'list')

    # ---------------------------------------------------------------- C01.a/b/c on the sequence printer
    n = 0
    for base in ('list', 'tuple', 'set'):
        for nel in (0, 1, 2):
            v = ValueV('value', S.type_scenario(base, True), [Sym('x%d' % i) for i in range(nel)])
            for tc in (NONE, SymStr('tc', nonempty=True)):
                for pr, t, ph in S.run_printer(repo, it, fseq, v, trailing_comment=tc):
                    rep.count(1)
                    lab = '%s[%s,n=%d%s]{%s}' % (fseq.name, base, nel, ',tc' if tc is not NONE else '', _short(pr))
                    if pr.raised is not None:
                        n += 1
                        rep.fail('C01.c', lab, fseq.where, 'printer raises %s on a native %s' % (pr.raised.what, base))
                        continue
                    depth0 = pr.assumed('depth_left', True)
                    L, R = DELIMS[base]
                    if isinstance(t, D.Seq):
                        n += 1
                        rep.check(D.text_of(t.left) == L and D.text_of(t.right) == R, 'C01.a', lab + ':delimiters', fseq.where,
                                  'literal delimiters %s %s' % (L, R),
                                  'a %s is bracketed with %s ... %s' % (base, D.text_of(t.left), D.text_of(t.right)), nontrivial=True)
                        want_dangle = (base == 'tuple' and nel == 1 and tc is NONE and not pr.assumed('max_seq_len <', True))
                        n += 1
                        rep.check(t.dangle is want_dangle, 'C01.b', lab + ':dangle', fseq.where,
                                  'dangling comma requested exactly for a one-element tuple without trailing comment',
                                  'for a %s with %d element(s)%s the sequence builder is asked for dangle=%s: %s'
                                  % (base, nel, ' and a trailing comment' if tc is not NONE else '', t.dangle,
                                     'the one-tuple would evaluate to its element' if want_dangle else 'a stray comma'), nontrivial=True)
                        n += 1
                        els = [i for i in t.items if isinstance(i, D.Sub)]
                        exp_ = ['x%d' % i for i in range(nel)]
                        got_ = [e.prov for e in els]
                        # on a path that assumes the value is longer than max_seq_len a prefix is shown (how long, and the notice: C10)
                        rep.check(got_ == exp_ or (pr.assumed('max_seq_len <', True) and got_ == exp_[:len(got_)]), 'C01.a', lab + ':elements-in-order', fseq.where,
                                  'every element once, in iteration order', 'elements handed to the builder: %s' % [D.show(i) for i in t.items])
                    elif isinstance(t, D.Call):
                        n += 1
                        ok = base == 'set' and (nel == 0 or depth0) and t.fn == 'ident(set)'
                        rep.check(ok, 'C01.c', lab + ':call-only-for-set', fseq.where, 'only an empty / cut set is printed as a call',
                                  'a native %s with %d elements is printed as the call %s: the value changes type' % (base, nel, D.show(t)[:80]),
                                  nontrivial=True)
                    else:
                        txt = D.text_of(t)
                        n += 1
                        if nel == 0:
                            ok = base in ('list', 'tuple') and txt == L + R
                            rep.check(ok, 'C01.c', lab + ':empty-literal', fseq.where, 'empty %s printed as %s%s' % (base, L, R),
                                      'an empty native %s is printed as %r (an empty set must never be "{}": that is a dict)' % (base, txt),
                                      nontrivial=True)
                        else:
                            ok = depth0 and txt == L + '...' + R and base != 'set'
                            rep.check(ok, 'C01.c', lab + ':literal', fseq.where, 'depth placeholder keeps the brackets',
                                      'a native %s with %d elements is printed as %r' % (base, nel, txt))
    # the same printer on sequences longer than every size constant it compares against (and than a fixed small count), with elements
    # of known kinds: every element once, in order - handed to the recursive print entry, or written as the repr of an element that is
    # exactly an int (that text is the int literal; the repr of a float is not evaluable for inf / nan, and the repr of an instance
    # of a subclass is whatever the subclass says)
    counts, mined = S.scaled_counts(repo, fseq)
    rep.note('sequence printer: size constants %s; element counts %s' % ({k: v[:1] for k, v in mined.items()} or 'none', counts))
    for nel in counts:
        for kind in S.ELEMENT_KINDS:
            if kind is None and nel > S.ALWAYS_COUNT:
                continue        # elements of unknown type fork on every type test: only at the small count
            for base in ('list', 'set') if kind else ('list', 'tuple', 'set'):
                elems = S.typed_elements(nel, kind)
                v = ValueV('value', S.type_scenario(base, True), elems)
                try:
                    runs = S.run_printer(repo, it, fseq, v, trailing_comment=NONE)
                except (Undecided, PathLimit) as e:
                    n += 1
                    rep.undecided('C01.a', '%s[%s,n=%d,%s]' % (fseq.name, base, nel, kind or 'any'), fseq.where, str(e))
                    continue
                for pr, t, ph in runs:
                    rep.count(1)
                    lab = '%s[%s,n=%d,%s]{%s}' % (fseq.name, base, nel, kind or 'any', _short(pr))
                    if pr.raised is not None:
                        n += 1
                        rep.fail('C01.c', lab, fseq.where, 'printer raises %s on a native %s of %d elements' % (pr.raised.what, base, nel))
                        continue
                    if not isinstance(t, D.Seq):
                        continue
                    view = S.element_view(t.items)
                    names = [nm for nm, how, i_ in view]
                    shown = len(names)
                    n += 1
                    okorder = S.in_order(view, nel, pr)
                    badlit = [(nm, D.show(i_)) for nm, how, i_ in view if how == 'literal' and not S.exactly_int(nm, kind, pr)]
                    if not okorder:
                        detail = 'elements of a %s of %d: %s ... (%d shown)' % (base, nel, names[:4], shown)
                    elif badlit:
                        detail = ('in a %s of %d elements (%s) the element %s is written as %s instead of being handed to the recursive print entry: '
                                  '%s' % (base, nel, kind or 'of unknown type', badlit[0][0], badlit[0][1],
                                          'the repr of a float is inf / nan for non-finite values, which does not evaluate' if kind == 'float' else
                                          'its own printer is bypassed (the repr of an arbitrary element is not an expression for it)'))
                    else:
                        detail = ''
                    rep.check(okorder and not badlit, 'C01.a', lab + ':elements-in-order', fseq.where,
                              'every element once, in iteration order, printed by dispatch', detail, nontrivial=True)
    rep.floor('C01.a-c:sequences', n, 60)

    # builder: dangle => ',' right before the closing bracket in every layout
    n = 0
    itb = S.interp(repo, 'builder')
    sod = m.funcs.get('sequence_of_docs')
    for commented in (False, True):
        docs = [S.sub('e0', commented)]
        for pr in itb.explore(sod, [CtxV(), S.punct('('), ListV(docs), S.punct(')')], {'dangle': Const(True), 'force_break': Const(False)}):
            if pr.raised is not None:
                continue
            for seq in D.all_layouts(pr.value.t):
                sig = S.content_sig(seq)
                n += 1
                ok = len(sig) >= 3 and sig[-1] == ('Text', ')') and sig[-2] == ('Text', ',') and sig[-3] == ('Sub', 'e0')
                rep.check(ok, 'C01.b', 'sequence_of_docs[dangle,%s]:comma-last' % ('commented' if commented else 'plain'), sod.where,
                          'element , ) in every layout', 'with dangle=True a layout has content %s: no comma directly after the sole '
                          'element' % (sig,), nontrivial=True)
                # and the comma is not swallowed by a comment (shared with C09.c)
                for c, nxt in D.follow_of_comments(seq):
                    n += 1
                    rep.check(nxt is None or nxt is D.HL, 'C01.b', 'sequence_of_docs[dangle,commented]:comma-outside-comment', sod.where,
                              'nothing but a line break follows the comment', 'the text %s follows the comment on the same line' % D.show(nxt))
    n += S.sequence_builder_content(repo, rep, 'C01.a')
    rep.floor('C01.b:builder', n, 6)

    # ---------------------------------------------------------------- dict
    n = 0
    fd = S.printer_for(repo, 'dict')
    itd = S.interp(repo, 'builder', {'pretty_str': S.p_pretty_str_as_sub, 'build_fncall': S.p_build_fncall,
                                      'pretty_call_alt': S.p_pretty_call_alt})
    for nk in (0, 1, 2, 3):
        d = ValueV('d', TypeV('dict'), [Sym('k%d' % i) for i in range(nk)])
        for pr in itd.explore(fd, [d, CtxV()], {'trailing_comment': NONE}):
            rep.count(1)
            if pr.raised is not None or not isinstance(pr.value, DocV):
                n += 1
                rep.fail('C01.a', 'pretty_dict[n=%d]{%s}' % (nk, _short(pr)), fd.where, 'dict printer raises / returns no document')
                continue
            t = pr.value.t
            if pr.assumed('depth_left', True):
                continue
            n += 1
            if isinstance(t, D.Call):
                rep.fail('C01.c', 'pretty_dict[n=%d]:native-not-wrapped' % nk, fd.where, 'a native dict is printed as the call %s' % D.show(t)[:80])
                continue
            commented = any(k.startswith('commented(') and v for k, v in pr.facts)
            ok = True
            why = ''
            keys = ['k%d' % i for i in range(nk)]
            if nk > 1 and pr.assumed('sort_dict_keys', True):
                # the exact sort key / direction is the subject of C01.e; here only the pairing of keys and values matters
                srt_names = []
                for a_ in D.linearise(t, 'break', lambda g_: 'break'):
                    if isinstance(a_, D.Sub) and norm_k(a_.prov).startswith('sorted') and norm_k(a_.prov) not in srt_names:
                        srt_names.append(norm_k(a_.prov))
                if len(srt_names) == nk:
                    keys = srt_names
                elif srt_names and pr.assumed('max_seq_len <', True):
                    keys = srt_names + keys[len(srt_names):]      # a prefix of the sorted keys is shown
            # on a path that assumes the dict is longer than max_seq_len a prefix of the pairs is shown (how long, and the notice: C10)
            lengths = range(nk, -1, -1) if pr.assumed('max_seq_len <', True) else [nk]
            for seq in D.all_layouts(t):
                sig = list(S.content_sig(seq))
                wants = []
                for m_ in lengths:
                    want = [('Text', '{')]
                    for i in range(m_):
                        want += [('Sub', keys[i]), ('Text', ':'), ('Sub', 'd[%s]' % keys[i])]
                        if i < m_ - 1:
                            want.append(('Text', ','))
                    want.append(('Text', '}'))
                    wants.append(want)
                if sig not in wants:
                    ok = False
                    why = 'content %s, expected %s' % (sig, wants[0])
            rep.check(ok, 'C01.a', 'pretty_dict[n=%d]{%s}:content' % (nk, _short(pr)), fd.where,
                      '{ key: value, ... } with every pair once, in iteration order', 'a %d-pair dict: %s' % (nk, why), nontrivial=True)
    rep.floor('C01.a:dict', n, 10)

    # frozenset
    n = 0
    ff = S.printer_for(repo, 'frozenset')
    for nel in (0, 1):
        v = ValueV('value', TypeV('frozenset'), [Sym('x%d' % i) for i in range(nel)])
        for pr, t, ph in S.run_printer(repo, it, ff, v):
            n += 1
            ok = isinstance(t, D.Call) and t.fn == 'ident(frozenset)' and ((nel == 0 and not t.args) or (nel == 1 and len(t.args) == 1))
            rep.check(ok, 'C01.c', 'pretty_frozenset[n=%d]' % nel, ff.where, 'frozenset printed as frozenset(...) call',
                      'a frozenset with %d elements is printed as %s' % (nel, D.show(t)[:80] if t is not None else None), nontrivial=True)
    rep.floor('C01.c:frozenset', n, 2)

    # exact type of native leaves: no call wrapper
    n = 0
    itn = S.interp(repo, 'printer', {__import__('engine.roles', fromlist=['x']).name(repo, 'builtin_repr'): lambda it_, a, k, nd: SymStr('base_repr(%s)' % prov(a[-1]), nonempty=True)})
    for base in ('int', 'float', 'bool'):
        fn = S.printer_for(repo, base)
        v = ValueV('value', TypeV(base), None)
        for pr, t, ph in S.run_printer(repo, itn, fn, v):
            if pr.raised is not None:
                continue
            special = pr.assumed('depth_left', True) or pr.assumed('INF', True) or pr.assumed('inf', True) or pr.assumed('isnan', True)
            n += 1
            if isinstance(t, D.Call):
                rep.check(special and t.fn == 'ident(%s)' % base, 'C01.c', '%s[native]{%s}:call' % (fn.name, _short(pr)), fn.where,
                          'call form only for special values / depth cut',
                          'a native %s is printed as the call %s on the ordinary path (%s)' % (base, D.show(t)[:60], pr.fact_text()[:100]), nontrivial=True)
            else:
                rep.ok('C01.c', '%s[native]{%s}:literal' % (fn.name, _short(pr)), fn.where, 'bare literal', nontrivial=True)
            if base == 'bool' and not isinstance(t, D.Call):
                truthy = pr.assumed('truthy(value)', True)
                n += 1
                rep.check(D.text_of(t) == ('True' if truthy else 'False'), 'C01.f', 'pretty_bool:%s' % ('truthy' if truthy else 'falsy'), fn.where,
                          'bool atom matches the value', 'a %s bool is printed as %r' % ('true' if truthy else 'false', D.text_of(t)), nontrivial=True)
    for base in ('str', 'bytes'):
        for lab, pr, t, fn in string_printer_paths(repo, base, True, lines=(0, 1, 2)):
            if pr.raised is not None or t is None:
                continue
            n += 1
            rep.check(not isinstance(t, D.Call) or pr.assumed('depth_left', True), 'C01.c', lab + ':native-not-wrapped', fn.where, 'bare literal(s)',
                      'a native %s is printed as the call %s' % (base, D.show(t)[:60]), nontrivial=True)
    rep.floor('C01.c:leaves', n, 30)

    # ---------------------------------------------------------------- C01.d special floats (semantic: read off the interpreted paths)
    n = 0
    pf = S.printer_for(repo, 'float')

    def _special(key):
        if 'isnan(' in key:
            return 'nan'
        if "float('-inf')" in key and '==' in key:
            return '-inf'
        if "float('inf')" in key and '==' in key:
            return 'inf'
        return None

    def _has_repr_literal(t):
        return t is not None and 'repr' in D.show(t)
    itf = S.interp(repo, 'printer')
    seen_special = set()
    for native in (True, False):
        v = ValueV('value', S.type_scenario('float', native), None)
        try:
            res = S.run_printer(repo, itf, pf, v)
        except Undecided as e:
            rep.undecided('C01.d', 'pretty_float[%s]' % ('float' if native else 'subclass'), pf.where, str(e))
            n += 1
            continue
        for pr, t, ph in res:
            pfacts = dict(pr.facts)
            kinds = {}
            other = []
            for k_, v_ in pfacts.items():
                sp = _special(k_)
                if sp:
                    kinds[sp] = v_
                elif 'depth_left' not in k_:
                    other.append(k_)
            which = [k_ for k_, v_ in kinds.items() if v_]
            lab = '%s{%s}' % ('float' if native else 'subclass', pr.fact_text()[:80])
            if pr.raised is not None:
                n += 1
                rep.fail('C01.d', 'pretty_float:' + lab, pf.where, 'printer raises %s' % pr.raised.what)
                continue
            if which:
                seen_special.add(which[0])
                n += 1
                args = [a_.s if isinstance(a_, D.Text) else (a_.v if hasattr(a_, 'v') else D.show(a_) if isinstance(a_, D.T) else a_) for a_ in (t.args if isinstance(t, D.Call) else [])]
                ok = isinstance(t, D.Call) and t.fn.startswith('ident(') and [str(x).strip("'") for x in args] == [which[0]]
                rep.check(ok, 'C01.d', 'pretty_float:special:%s[%s]' % (which[0], 'float' if native else 'subclass'), pf.where,
                          "printed as float('%s')" % which[0],
                          "when the value is %s the float printer returns %s instead of the call float('%s')" % (which[0], D.show(t)[:80] if t is not None else None, which[0]),
                          nontrivial=True)
            elif _has_repr_literal(t):
                n += 1
                excluded = [k_ for k_ in ('inf', '-inf', 'nan') if kinds.get(k_) is False]
                if len(excluded) < 3 and other:
                    rep.undecided('C01.d', 'pretty_float:repr-only-for-finite:' + lab, pf.where,
                                  'cannot tell whether the tests %s exclude inf / -inf / nan' % other)
                else:
                    rep.check(len(excluded) == 3, 'C01.d', 'pretty_float:repr-only-for-finite[%s]' % ('float' if native else 'subclass'), pf.where,
                              'repr used only when the value is not inf, -inf, nan',
                              'the float literal is taken from repr on a path where only %s are excluded (path: %s): "inf" and "nan" '
                              'are not valid Python expressions' % (excluded or 'none of inf/-inf/nan', pr.fact_text()[:160]), nontrivial=True)
    n += 1
    rep.check(seen_special == {'inf', '-inf', 'nan'}, 'C01.d', 'pretty_float:all-three-special-cases', pf.where, 'inf, -inf and nan each have their own path',
              'the float printer distinguishes only %s' % sorted(seen_special), nontrivial=True)
    rep.floor('C01.d', n, 9)

    # ---------------------------------------------------------------- C01.i no equality-keyed memo between a value and its text
    from . import shared_state as SS
    nf = SS.memoised_in_cone(repo, rep, 'C01.i', 'arguments that are equal but not the same value (0.0 and -0.0, 1 and True and 1.0, 2 and an IntEnum '
                             'member) share one cached result, so a value can be printed as the text of a different value of a different type')
    nf += SS.caches_in_cone(repo, rep, 'C01.i', 'values that are equal but not the same (0.0 / -0.0, 1 / True / 1.0) would share one remembered text')
    rep.floor('C01.i', nf, 5)

    # ---------------------------------------------------------------- C01.e key order (semantic: read off the interpreted dict printer)
    n = 0
    d2 = ValueV('d', TypeV('dict'), [Sym('k0'), Sym('k1')])

    def p_plain(it_, a_, k_, n_):
        r_ = S.p_pretty_python_value(it_, a_, k_, n_)
        r_.t.commented = False
        return r_
    ite = S.interp(repo, 'builder', {'pretty_str': S.p_pretty_str_as_sub, 'build_fncall': S.p_build_fncall, 'pretty_call_alt': S.p_pretty_call_alt,
                                     'pretty_python_value': p_plain})
    for pr in ite.explore(fd, [d2, CtxV()], {'trailing_comment': NONE}):
        if pr.raised is not None or not isinstance(pr.value, DocV) or pr.assumed('depth_left', True):
            continue
        if pr.assumed('max_seq_len <', True):
            continue        # a path that shows only a prefix of the pairs: the order is read off the paths that show both
        sort_on = None
        for k_, v_ in pr.facts:
            if 'sort_dict_keys' in k_:
                sort_on = v_
        subs = [a.prov for a in D.linearise(pr.value.t, 'break', lambda g_: 'break') if isinstance(a, D.Sub)]
        keyprovs = subs[0::2]
        n += 1
        if sort_on is None:
            rep.fail('C01.e', 'pretty_dict:key-order{?}', fd.where, 'the path (%s) never consults sort_dict_keys' % pr.fact_text()[:100])
        elif sort_on:
            ok = len(keyprovs) == 2 and all(p_.startswith('sorted%d(k0,k1' % i) and 'key=_AlwaysSortable' in p_ and 'reverse' not in p_
                                            for i, p_ in enumerate(keyprovs))
            rep.check(ok, 'C01.e', 'pretty_dict:key-order{sorted}', fd.where, 'sorted(own keys, key=_AlwaysSortable), ascending',
                      'with sort_dict_keys the pairs are printed in the order %s: expected the keys sorted ascending with the always-sortable key '
                      'wrapper' % keyprovs, nontrivial=True)
        else:
            rep.check(keyprovs == ['k0', 'k1'], 'C01.e', 'pretty_dict:key-order{insertion}', fd.where, 'iteration order of the dict',
                      'without sort_dict_keys the pairs are printed in the order %s instead of the dict\'s own order' % keyprovs, nontrivial=True)
    # the sort key orders comparable keys by their own <, whatever else it does for the others (interpreted on pairs of constants)
    from .common import report_sortkey
    n += report_sortkey(repo, rep, 'C01.e', lambda label: label.startswith(('natural-order', 'defines-order')))
    rep.floor('C01.e', n, 2)
    rep.floor('C01.k', total_order_only(repo, rep, 'C01.k'), 2)

    # ---------------------------------------------------------------- C01.h string syntax (home: C02)
    from .common import import_instances
    nh = import_instances(repo, rep, 'C02', lambda i: i.rule in ('C02.e', 'C02.g', 'C02.a') or i.construct.startswith(('pattern:', 'pieces-concatenate')),
                          'C01.h', 'a str/bytes leaf would not evaluate back to the same value')
    rep.floor('C01.h', nh, 40)

    # ---------------------------------------------------------------- C01.f atoms
    n = 0
    for key, text in (('type(None)', 'None'), ('type(...)', '...')):
        fn = S.printer_for(repo, key)
        for pr, t, ph in S.run_printer(repo, it, fn, Sym('value')):
            n += 1
            rep.check(t is not None and D.text_of(t) == text, 'C01.f', '%s:atom' % fn.name, fn.where, 'prints %s' % text,
                      '%s prints %r' % (fn.name, D.text_of(t) if t is not None else None), nontrivial=True)
    pi = S.printer_for(repo, 'int')
    for pr, t, ph in S.run_printer(repo, itn, pi, ValueV('value', TypeV('int'), None)):
        if pr.assumed('depth_left', True) or t is None:
            continue
        n += 1
        inner = D.strip_ann(t)
        rep.check(isinstance(inner, D.Lit) and inner.prov in ('base_repr(value)', 'repr(value)', 'int.__repr__(value)', 'hex(value)', 'oct(value)', 'bin(value)'), 'C01.f', 'pretty_int:literal-is-repr', pi.where,
                  'int literal is the integer\'s repr (or its hex / oct / bin form: literals of the same value)', 'pretty_int prints %s' % D.show(t), nontrivial=True)
    rep.floor('C01.f', n, 3)



def norm_k(p):
    return p.replace('/uncommented', '')


def _eq(test, value, *consts):
    cp = compare_parts(test)
    if not cp or cp[1] not in ('==', 'is'):
        return False
    pair = {src(cp[0]), src(cp[2])}
    return value in pair and bool(pair & set(consts))
