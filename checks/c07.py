"""C07 -- bundled printers are total, and faithful for standard-library types."""
import ast

from engine import effects, facts, foreign
from engine.astutil import src, call_name, dotted, Guards, enclosing_map, names_in, inside_try_body, handler_catches
from engine.loader import AnalysisError

META = {
    'text': 'Static rules over the bundled printers (pretty_stdlib.py and the namedtuple / SimpleNamespace printers): (a) every '
            'attribute read on the value of a foreign class exists in that class\'s attribute universe - authoritative (dir) '
            'for C types without instance __dict__, so a miss is a violation; read from source for Python classes, where a miss '
            'is only noted; (b) each printer reads at least the state that determines equality of its type (table per type); '
            '(c) wherever a (keyword, value) pair is built the attribute read has the keyword\'s name; (d) the callable printed '
            'is the registered class or type(value); (e) every explicit raise / assert and every constant-index subscript on a '
            'possibly empty sequence inside the printing pipeline is dominated by a guard or is in a reasoned allow-table; '
            '(f) named-tuple / struct-sequence detection inspects class attributes only and the struct-sequence path falls back '
            'to the plain tuple path on any Exception. Totality against arbitrary foreign exceptions and equality after '
            'evaluation are run-time statements and are NOT decided.',
    'note': 'attribute universes are those of the interpreter in /venv (3.12) and the installed pytz; whole-value accessors '
            '(repr, str, isoformat) make a state-coverage instance undecided-as-note, never violated',
    'technique': 'static analysis: attribute-existence check against foreign class universes (dir / source ast), table-driven '
                 'state coverage, def-use pairing of keyword and attribute, guard facts for may-raise sites',
}
META['text'] += ' (b, refined) what a printer prints depends on the state that determines equality of its type - read in the printer or, through helpers and field tables, visible in the interpreted result and path conditions; optional state (tzinfo, fold) is omitted only on paths that established it is None / 0; a pytz zone is printed by name only on paths that established that this expression equals the value.'
META['text'] += ' Round 5: (h) the argument lists are built by the sequence builder: T+1 elements separated by single commas in every layout, T one past every size constant of the builder.'

STATE = {
    'datetime': {'year', 'month', 'day', 'hour', 'minute', 'second', 'microsecond', 'tzinfo', 'fold'},
    'time': {'hour', 'minute', 'second', 'microsecond', 'tzinfo', 'fold'},
    'date': {'year', 'month', 'day'},
    'timedelta': {'days', 'seconds', 'microseconds'},
    'timezone': {'utcoffset', 'tzname'},
    'deque': {'maxlen'},
    'defaultdict': {'default_factory'},
    "'functools.partial'": {'func', 'args', 'keywords'},
    'BaseException': {'args'},
    'ChainMap': {'maps'},
    "'enum.Enum'": {'name'},
    "'pathlib.PurePath'": {'as_posix'},
    'SimpleNamespace': {'__dict__'},
}
WHOLE_VALUE = {
    # printers that read the whole value through one accessor / copy
    'OrderedDict': {'items'}, 'Counter': {'most_common', 'items'}, "'builtins.mappingproxy'": {'dict('},
    "'uuid.UUID'": {'str('}, 'deque': {'list('}, 'defaultdict': {'dict('},
}
ALIAS_FUNCS = {'abs'}

# explicit raise / assert sites allowed inside the printing pipeline: (function, normalised text) -> reason
# explicit raise / assert sites allowed inside the printing pipeline, per function: number of (not implied) asserts and
# the exception classes raised, each with the reason it cannot make a bundled printer fail on an instance of its own
# type.  Keyed by function and *kind*, not by the text of the asserted expression, so rewriting an assert does not matter;
# an additional assert / a new exception class in the function does.
MAY_RAISE_BUDGET = {
    # (module, kind) -> (how many such sites the printing pipeline may contain, why none of them can make a bundled printer fail on an
    # instance of its own type).  Counted per module and kind, not per function: extracting a helper or merging duplicates moves or
    # removes sites; only an additional site (or a new exception class) is a change of behaviour.
    ('doc', 'raise ValueError'): (1, 'validate_doc rejects non-documents handed to a combinator'),
    ('doctypes', 'assert'): (4, 'constructor argument checks of Nest (2), Group, AlwaysBreak'),
    ('sdoctypes', 'assert'): (1, 'SLine indent is an int'),
    ('layout', 'raise ValueError'): (6, 'unknown document kind / unknown mode: default branches of closed dispatches'),
    ('prettyprinter', 'assert'): (7, 'max_len > 0 (C12.c floor), two bytes type checks, the closed set of multiline strategies, _replace field names, '
                                     'comment text is str, predicate is callable'),
    ('prettyprinter', 'raise ValueError'): (7, 'return-type validation demanded by C14, empty comment text (every call site tests truthiness first), '
                                               'flag / argument / signature validation at registration time'),
    ('prettyprinter', 'raise <variable>'): (1, 'cached resolution failure in the struct-sequence printer; the only caller catches Exception'),
}


def _norm_label(node, fn_node):
    """text of a raise/assert with the function's own locals and parameters replaced by '_' (robust to renames)"""
    import copy
    loc = set()
    for a in ast.walk(fn_node):
        if isinstance(a, ast.arg):
            loc.add(a.arg)
        if isinstance(a, ast.Name) and isinstance(a.ctx, ast.Store):
            loc.add(a.id)
    t = copy.deepcopy(node)
    for x in ast.walk(t):
        if isinstance(x, ast.Name) and x.id in loc:
            x.id = '_'
    return src(t)


def _implied(test, fs, fn_node=None):
    """every atomic conjunct of the asserted test is a dominating fact, or follows from one by a trivial step: ``x != 0`` / ``len(x) > 0``
    under a truthiness test of x, ``len(x) >= k`` from the length facts that dominate it, ``isinstance(x, C)`` for x = C(...)"""
    from engine.astutil import atomise
    have = {(f.text, f.pol) for f in fs}
    atoms = atomise(test, True)
    if not atoms:
        return False

    def one(a):
        if (a.text, a.pol) in have:
            return True
        t = a.text.replace(' ', '')
        import re as _re
        m_ = _re.fullmatch(r'(\w+)!=0', t) or _re.fullmatch(r'len\((\w+)\)>0', t) or _re.fullmatch(r'len\((\w+)\)>=1', t) or _re.fullmatch(r'len\((\w+)\)!=0', t)
        if a.pol and m_ and ((m_.group(1), True) in have or ('not ' + m_.group(1), False) in have):
            return True
        m_ = _re.fullmatch(r'len\((\w+)\)(>=|>)(\d+)', t)
        if a.pol and m_ and fn_node is not None:
            seq, need = m_.group(1), int(m_.group(3)) + (1 if m_.group(2) == '>' else 0)
            defs = {}
            for s_ in ast.walk(fn_node):
                if isinstance(s_, ast.Assign) and len(s_.targets) == 1 and isinstance(s_.targets[0], ast.Name):
                    defs.setdefault(s_.targets[0].id, []).append(s_.value)
            ok_, _ = _nonempty(seq, defs, fs, need - 1)
            return ok_
        m_ = _re.fullmatch(r'isinstance\((\w+),(\w+)\)', t)
        if a.pol and m_ and fn_node is not None:
            ds = [s_.value for s_ in ast.walk(fn_node) if isinstance(s_, ast.Assign) and len(s_.targets) == 1
                  and isinstance(s_.targets[0], ast.Name) and s_.targets[0].id == m_.group(1)]
            return bool(ds) and all(isinstance(d, ast.Call) and call_name(d) == m_.group(2) for d in ds)
        return False
    return all(one(a) for a in atoms)


def _unreachable(stmt, fn_node):
    """the statement follows, in its own block, a statement that never completes normally (return / raise / continue / break on every
    path, also through if / try ladders)"""
    def never_completes(st):
        if isinstance(st, (ast.Return, ast.Raise, ast.Continue, ast.Break)):
            return True
        if isinstance(st, ast.If):
            return bool(st.orelse) and never_completes_block(st.body) and never_completes_block(st.orelse)
        if isinstance(st, ast.Try):
            if st.finalbody and never_completes_block(st.finalbody):
                return True
            normal = never_completes_block(st.orelse) if st.orelse else never_completes_block(st.body)
            return normal and all(never_completes_block(h.body) for h in st.handlers)
        if isinstance(st, ast.With):
            return never_completes_block(st.body)
        return False

    def never_completes_block(block):
        return any(never_completes(x) for x in block)
    for parent in ast.walk(fn_node):
        for field in ('body', 'orelse', 'finalbody'):
            block = getattr(parent, field, None)
            if isinstance(block, list) and any(x is stmt for x in block):
                i = [j for j, y in enumerate(block) if y is stmt][0]
                return any(never_completes(x) for x in block[:i])
    return False


def _value_aliases(fn, value):
    al = {value}
    for _ in range(4):
        for s in ast.walk(fn):
            if isinstance(s, ast.Assign) and len(s.targets) == 1 and isinstance(s.targets[0], ast.Name):
                v = s.value
                if isinstance(v, ast.Name) and v.id in al:
                    al.add(s.targets[0].id)
                if isinstance(v, ast.Call) and call_name(v) in ALIAS_FUNCS and v.args and isinstance(v.args[0], ast.Name) \
                        and v.args[0].id in al:
                    al.add(s.targets[0].id)
    return al


def _attr_reads(fn, aliases):
    """attribute names read on the value: (name, node, has_default)"""
    out = []
    consts = {}
    # loop / comprehension variables over constant tuples: ``for k in ('a', 'b')``
    for n in ast.walk(fn):
        it = tgt = None
        if isinstance(n, (ast.For, ast.comprehension)):
            it, tgt = n.iter, n.target
        if it is not None and isinstance(tgt, ast.Name) and isinstance(it, (ast.Tuple, ast.List)) \
                and all(isinstance(e, ast.Constant) and isinstance(e.value, str) for e in it.elts):
            consts[tgt.id] = [e.value for e in it.elts]
        if isinstance(n, ast.Call) and call_name(n) == 'dropwhile' and len(n.args) == 2 and isinstance(n.args[1], (ast.Tuple, ast.List)) \
                and isinstance(n.args[0], ast.Lambda):
            lam = n.args[0]
            if all(isinstance(e, ast.Constant) for e in n.args[1].elts):
                consts[lam.args.args[0].arg] = [e.value for e in n.args[1].elts]
    # names bound (by single assignment) to such iterables keep the constants
    for n in ast.walk(fn):
        if isinstance(n, ast.Attribute) and isinstance(n.ctx, ast.Load) and isinstance(n.value, ast.Name) and n.value.id in aliases:
            out.append((n.attr, n, False))
        if isinstance(n, ast.Call) and call_name(n) == 'getattr' and len(n.args) >= 2 and isinstance(n.args[0], ast.Name) \
                and n.args[0].id in aliases:
            has_default = len(n.args) >= 3
            a = n.args[1]
            if isinstance(a, ast.Constant) and isinstance(a.value, str):
                out.append((a.value, n, has_default))
            elif isinstance(a, ast.Name):
                vals = consts.get(a.id)
                if vals is None:
                    # kw drawn from a name bound to a generator over constants (timekws_to_display)
                    vals = _trace_const_names(fn, a.id, consts)
                for v in vals or []:
                    out.append((v, n, has_default))
                if not vals:
                    out.append((None, n, has_default))
    return out


def _trace_const_names(fn, name, consts):
    """``for kw in X`` where X is a name assigned from reversed(list(dropwhile(lambda kw: ..., (consts))))"""
    for n in ast.walk(fn):
        if isinstance(n, (ast.For, ast.comprehension)) and isinstance(n.target, ast.Name) and n.target.id == name \
                and isinstance(n.iter, ast.Name):
            for s in ast.walk(fn):
                if isinstance(s, ast.Assign) and src(s.targets[0]) == n.iter.id:
                    for t in ast.walk(s.value):
                        if isinstance(t, (ast.Tuple, ast.List)) and t.elts and \
                                all(isinstance(e, ast.Constant) and isinstance(e.value, str) for e in t.elts):
                            return [e.value for e in t.elts]
    return None


def _foreign_class_name(repo, reg):
    e = reg.key_expr
    if isinstance(e, ast.Constant) and isinstance(e.value, str):
        return e.value
    d = dotted(e)
    if d is None:
        return None
    head = d.split('.')[0]
    if head in ('BaseException', 'Exception'):
        return 'builtins.' + d
    r = repo.resolve(reg.module, head)
    if r and r[0] == 'external':
        base = r[1]
        rest = d[len(head):]
        return base + rest
    return None


def run(repo, rep):
    rep.explanation = ('R-ATTR attribute existence against foreign class universes (C07.a), R-SHAPE semantic call shape of every stdlib printer over all paths (C07.h), table-driven state coverage (C07.b), '
                       'keyword<->attribute agreement (C07.c), constructor identity (C07.d), may-raise inventory (C07.e), '
                       'named-tuple detection and fallback (C07.f).')
    rep.not_decided = 'TypeErrors and other exceptions from foreign code; equality of the evaluated output; arithmetic on values.'
    rep.assumptions = ['dir(T) is complete for C types whose instances have no __dict__', 'interpreter /venv python 3.12, installed pytz']
    regs = [r for r in facts.registry(repo) if r.fn is not None and '.extras' not in r.module.name
            and (r.module.name.endswith('.pretty_stdlib') or r.fn.name in ('pretty_simplenamespace',))]
    by_fn = {}
    for r in regs:
        by_fn.setdefault(r.fn.key, (r.fn, []))[1].append(r)

    # ---------------------------------------------------------------- C07.a
    n = 0
    n_reads = 0
    for key, (f, rs) in sorted(by_fn.items()):
        value = f.params[0]
        aliases = _value_aliases(f.node, value)
        reads = _attr_reads(f.node, aliases)
        for r in rs:
            cname = _foreign_class_name(repo, r)
            if cname is None:
                continue
            cls = foreign.resolve_class(cname)
            if cls is None or not isinstance(cls, type):
                rep.note('registration key %s of %s cannot be resolved to a class in this interpreter' % (r.key, f.name))
                continue
            universe, authoritative = foreign.attribute_universe(cls)
            for attr, node, has_default in reads:
                if attr is None or has_default:
                    continue
                n_reads += 1
                n += 1
                where = '%s:%d' % (f.module.relpath, node.lineno)
                if attr in universe:
                    rep.ok('C07.a', '%s:%s.%s' % (f.name, r.key, attr), where,
                           'attribute exists on %s (%s)' % (cname, 'dir, authoritative' if authoritative else 'source/dir'), nontrivial=True)
                elif authoritative:
                    rep.fail('C07.a', '%s:%s.%s' % (f.name, r.key, attr), where,
                             '%s reads .%s on a value of %s, but instances of this C-implemented class have no such attribute '
                             '(no instance __dict__; dir() is complete): AttributeError inside the printer, the value degrades to '
                             'repr with a warning' % (f.name, attr, cname))
                else:
                    rep.ok('C07.a', '%s:%s.%s' % (f.name, r.key, attr), where, 'not found in the class source; instances of a '
                           'Python class can carry it (noted)')
                    rep.note('%s reads .%s on %s: not found in the class source (Python class, not authoritative)' % (f.name, attr, cname))
    rep.floor('C07.a', n, 30)

    # ---------------------------------------------------------------- C07.b
    n = 0
    for key, (f, rs) in sorted(by_fn.items()):
        value = f.params[0]
        aliases = _value_aliases(f.node, value)
        got = {a for a, _, _ in _attr_reads(f.node, aliases) if a}
        txt = src(f.node)
        for r in rs:
            need = STATE.get(r.key)
            if need:
                n += 1
                missing = sorted(need - got)
                if missing:
                    # not read in the printer's own body: does what it prints depend on it all the same (read in a helper, through a
                    # table of field names ...)?  decided on the interpreted paths of the printer
                    from .c07_shape import attribute_dependence
                    dep = attribute_dependence(repo, f)
                    if dep:
                        missing = sorted(set(missing) - dep)
                rep.check(not missing, 'C07.b', '%s:state:%s' % (f.name, r.key), f.where,
                          'reads the state that determines equality of %s' % r.key,
                          '%s never reads %s of a %s: two unequal values print the same expression' % (f.name, missing, r.key),
                          nontrivial=True)
            whole = WHOLE_VALUE.get(r.key)
            if whole:
                n += 1
                ok = any((w.endswith('(') and any('%s%s)' % (w, a) in txt for a in aliases)) or
                         any('%s.%s(' % (a, w) in txt for a in aliases) for w in whole)
                rep.check(ok, 'C07.b', '%s:contents:%s' % (f.name, r.key), f.where, 'whole contents are handed on',
                          '%s no longer passes the contents of the %s on (%s expected)' % (f.name, r.key, sorted(whole)), nontrivial=True)
    rep.floor('C07.b', n, 15)

    # ---------------------------------------------------------------- C07.c
    n = 0
    for key, (f, rs) in sorted(by_fn.items()):
        value = f.params[0]
        aliases = _value_aliases(f.node, value)
        defs = {}
        for s in ast.walk(f.node):
            if isinstance(s, ast.Assign) and len(s.targets) == 1 and isinstance(s.targets[0], ast.Name):
                defs.setdefault(s.targets[0].id, []).append(s.value)
        for t in ast.walk(f.node):
            if isinstance(t, ast.Tuple) and len(t.elts) == 2 and isinstance(t.ctx, ast.Load):
                k, v = t.elts
                attr = None
                if isinstance(v, ast.Attribute) and isinstance(v.value, ast.Name) and v.value.id in aliases:
                    attr = v.attr
                elif isinstance(v, ast.Call) and call_name(v) == 'getattr' and len(v.args) >= 2 and \
                        isinstance(v.args[0], ast.Name) and v.args[0].id in aliases:
                    a = v.args[1]
                    if isinstance(k, ast.Name) and isinstance(a, ast.Name):
                        n += 1
                        rep.check(k.id == a.id, 'C07.c', '%s:pair:(%s, %s)' % (f.name, src(k), src(v)), '%s:%d' % (f.module.relpath, t.lineno),
                                  'keyword and attribute drawn from the same name',
                                  '%s pairs keyword %s with %s' % (f.name, src(k), src(v)), nontrivial=True)
                    elif isinstance(a, ast.Constant):
                        attr = a.value
                elif isinstance(v, ast.Name) and isinstance(k, ast.Constant) and len(defs.get(v.id, [])) == 1:
                    d = defs[v.id][0]
                    if isinstance(d, ast.Attribute) and isinstance(d.value, ast.Name) and d.value.id in aliases:
                        attr = d.attr
                if attr is not None and isinstance(k, ast.Constant) and isinstance(k.value, str):
                    n += 1
                    rep.check(k.value == attr, 'C07.c', '%s:pair:(%r, .%s)' % (f.name, k.value, attr), '%s:%d' % (f.module.relpath, t.lineno),
                              'keyword name = attribute name',
                              "%s builds the argument pair ('%s', <value>.%s): the keyword is fed from a different attribute"
                              % (f.name, k.value, attr), nontrivial=True)
        # positional (year, month, day)-style tuples handed as args=: attribute order = constructor order
        for c in ast.walk(f.node):
            if isinstance(c, ast.Call) and call_name(c) == 'pretty_call_alt':
                for kw in c.keywords:
                    if kw.arg == 'args' and isinstance(kw.value, ast.Tuple):
                        attrs = [e.attr for e in kw.value.elts if isinstance(e, ast.Attribute) and isinstance(e.value, ast.Name)
                                 and e.value.id in aliases]
                        if len(attrs) == len(kw.value.elts) and len(attrs) >= 2:
                            n += 1
                            want = {('year', 'month', 'day'), ('func',)}
                            rep.check(tuple(attrs) in want, 'C07.c', '%s:positional:%s' % (f.name, ','.join(attrs)),
                                      '%s:%d' % (f.module.relpath, c.lineno), 'positional order matches the constructor',
                                      '%s passes %s positionally: not the constructor order' % (f.name, attrs), nontrivial=True)
    rep.floor('C07.c', n, 6)

    # ---------------------------------------------------------------- C07.d
    n = 0
    for key, (f, rs) in sorted(by_fn.items()):
        value = f.params[0]
        keys = {r.key for r in rs}
        tvars = {value}
        for s in ast.walk(f.node):
            if isinstance(s, ast.Assign) and isinstance(s.value, ast.Call) and call_name(s.value) == 'type' and \
                    s.value.args and src(s.value.args[0]) == value:
                tvars.add(src(s.targets[0]))
        for c in ast.walk(f.node):
            if isinstance(c, ast.Call) and call_name(c) in ('pretty_call_alt', 'pretty_call', 'build_fncall', 'classattr'):
                fnarg = c.args[1] if call_name(c) != 'classattr' and len(c.args) > 1 else (c.args[0] if c.args else None)
                if fnarg is None:
                    continue
                t = src(fnarg)
                n += 1
                defs_ = {}
                for s_ in ast.walk(f.node):
                    if isinstance(s_, ast.Assign) and len(s_.targets) == 1 and isinstance(s_.targets[0], ast.Name):
                        defs_.setdefault(s_.targets[0].id, []).append(s_.value)

                def derived(e, depth=0):
                    """built from type(value) (and constants) only"""
                    if depth > 6:
                        return False
                    if isinstance(e, ast.Constant):
                        return True
                    if isinstance(e, ast.Call) and call_name(e) == 'type' and len(e.args) == 1 and src(e.args[0]) == value:
                        return True
                    if isinstance(e, ast.Name):
                        if e.id in tvars and e.id != value:
                            return True
                        return e.id in defs_ and all(derived(d_, depth + 1) for d_ in defs_[e.id])
                    if isinstance(e, ast.Attribute):
                        return derived(e.value, depth)
                    if isinstance(e, ast.BinOp):
                        return derived(e.left, depth) and derived(e.right, depth)
                    if isinstance(e, ast.IfExp):
                        return derived(e.body, depth) and derived(e.orelse, depth)
                    if isinstance(e, ast.JoinedStr):
                        return all(derived(v_.value, depth) for v_ in e.values if isinstance(v_, ast.FormattedValue))
                    if isinstance(e, ast.Call) and isinstance(e.func, ast.Attribute) and e.func.attr == 'format':
                        return derived(e.func.value, depth) and all(derived(a_, depth) for a_ in e.args)
                    return False
                ok = derived(fnarg) or t in keys or t in ('pytz.timezone', 'pytz.tzinfo.DstTzInfo')
                rep.check(ok, 'C07.d', '%s:constructor:%s' % (f.name, t), '%s:%d' % (f.module.relpath, c.lineno),
                          'printed callable is the registered class or type(value)',
                          '%s (registered for %s) prints a call of %s' % (f.name, sorted(keys), t), nontrivial=True)
    rep.floor('C07.d', n, 20)

    # ---------------------------------------------------------------- C07.e
    n = 0
    cone, graph, fns = effects.print_cone(repo)
    sites = {}
    for k in sorted(cone):
        f = fns[k]
        if '.extras' in f.module.name or f.module.name.endswith('.color'):
            continue
        g = Guards(f.node)
        par = enclosing_map(f.node)
        for s in effects._own_nodes(f.node):
            kind = None
            if isinstance(s, ast.Raise):
                if s.exc is None:
                    continue
                e = s.exc.func if isinstance(s.exc, ast.Call) else s.exc
                name = dotted(e) or src(e)
                if _is_caught_variable(s, e, par):
                    continue        # ``raise e`` of the exception just caught: no new failure
                if _unreachable(s, f.node):
                    n += 1
                    rep.ok('C07.e', '%s:raise-unreachable' % f.qualname, '%s:%d' % (f.module.relpath, s.lineno), 'every path before this statement returns or raises')
                    continue
                builtin_exc = isinstance(getattr(__import__('builtins'), name, None), type)
                if not builtin_exc and isinstance(s.exc, ast.Call) and isinstance(e, ast.Name):
                    # ``raise helper(...)``: the class is the one every return of the helper constructs
                    r_ = repo.resolve(f.module, e.id)
                    if r_ and r_[0] == 'func':
                        built = {dotted(x.value.func) for x in ast.walk(r_[1].node)
                                 if isinstance(x, ast.Return) and isinstance(x.value, ast.Call) and dotted(x.value.func)}
                        rets_ = [x for x in ast.walk(r_[1].node) if isinstance(x, ast.Return) and x.value is not None]
                        if len(built) == 1 and len(rets_) == sum(1 for x in rets_ if isinstance(x.value, ast.Call)) \
                                and isinstance(getattr(__import__('builtins'), next(iter(built)), None), type):
                            name = next(iter(built))
                            builtin_exc = True
                kind = 'raise ' + (name if (builtin_exc or isinstance(s.exc, ast.Call)) else '<variable>')
                if name == 'StopIteration':
                    continue
            elif isinstance(s, ast.Assert):
                if _implied(s.test, g.of(s), f.node) or _unreachable(s, f.node):
                    n += 1
                    rep.ok('C07.e', '%s:assert-implied' % f.qualname, '%s:%d' % (f.module.relpath, s.lineno), 'asserted test is implied by the dominating tests')
                    continue
                kind = 'assert'
            if kind is None:
                continue
            sites.setdefault((f.module.name.split('.')[-1], kind), []).append((f, s))
    for key in sorted(set(sites) | set(MAY_RAISE_BUDGET)):
        budget, why = MAY_RAISE_BUDGET.get(key, (0, ''))
        found = sites.get(key, [])
        n += 1
        where = '%s:%d' % (found[-1][0].module.relpath, found[-1][1].lineno) if found else key[0]
        if key[1] in ('assert', 'raise AssertionError') and len(found) > budget:
            # more assertions than are accounted for, none of them implied by the tests that dominate it: whether an added assertion
            # can fail on a valid value is not something this rule can establish - undecided, not a violation
            rep.undecided('C07.e', 'may-raise:%s:%s' % key, where,
                          '%d %s in %s.py (%s) where %d are accounted for (%s): cannot establish that the additional ones always hold'
                          % (len(found), 'assert statements' if key[1] == 'assert' else 'raise AssertionError statements (the claim "cannot happen")', key[0], ', '.join('%s:%d' % (f_.qualname, s_.lineno) for f_, s_ in found), budget, why or 'none reasoned'))
            continue
        rep.check(len(found) <= budget, 'C07.e', 'may-raise:%s:%s' % key, where,
                  '%d of at most %d sites: %s' % (len(found), budget, why),
                  'the printing pipeline contains %d "%s" sites in %s.py (%s) where %d are accounted for (%s): a bundled printer can fail on an '
                  'instance of its own type' % (len(found), key[1], key[0], ', '.join('%s:%d' % (f_.qualname, s_.lineno) for f_, s_ in found), budget,
                                                why or 'none reasoned'), nontrivial=True)
    for k in sorted(cone):
        f = fns[k]
        if '.extras' in f.module.name or f.module.name.endswith('.color'):
            continue
        g = Guards(f.node)
        # constant-index subscripts on possibly empty local sequences
        defs = {}
        for s in ast.walk(f.node):
            if isinstance(s, ast.Assign) and len(s.targets) == 1 and isinstance(s.targets[0], ast.Name):
                defs.setdefault(s.targets[0].id, []).append(s.value)
        for s in effects._own_nodes(f.node):
            if isinstance(s, ast.Subscript) and isinstance(s.ctx, ast.Load) and isinstance(s.slice, ast.Constant) \
                    and isinstance(s.slice.value, int) and isinstance(s.value, ast.Name) and s.value.id in defs:
                seq = s.value.id
                n += 1
                ok, why = _nonempty(seq, defs, g.of(s), s.slice.value, lambda nm, _f=f: (repo.resolve(_f.module, nm) or (None, None)))
                rep.check(ok, 'C07.e', '%s:index:%s[%d]' % (f.qualname, seq, s.slice.value), '%s:%d' % (f.module.relpath, s.lineno),
                          why, '%s indexes %s[%d] but %s can be empty on this path (%s): IndexError inside the pipeline'
                          % (f.qualname, seq, s.slice.value, seq, why), nontrivial=True)
    for k in sorted(cone):
        f = fns[k]
        if '.extras' in f.module.name or f.module.name.endswith('.color'):
            continue
        g = None
        for s_ in effects._own_nodes(f.node):
            if isinstance(s_, ast.Subscript) and isinstance(s_.ctx, ast.Load) and isinstance(s_.slice, ast.Constant) \
                    and isinstance(s_.slice.value, int) and isinstance(s_.value, ast.Call):
                base = s_.value
                n += 1
                safe = isinstance(base.func, ast.Attribute) and base.func.attr in ('split', 'rsplit', 'partition', 'rpartition') and bool(base.args)
                g = g or Guards(f.node)
                arg0 = src(base.args[0]) if base.args else ''
                guarded = any(ff.pol and ('len(%s) == 1' % arg0 == ff.text or ff.text == arg0) for ff in g.of(s_)) and call_name(base) in ('list', 'tuple')
                # a package function whose every return is a tuple / list display long enough for the index
                r_ = repo.resolve(f.module, call_name(base)) if isinstance(base.func, ast.Name) else None
                if r_ and r_[0] == 'func':
                    rets_ = [x for x in effects._own_nodes(r_[1].node) if isinstance(x, ast.Return)]
                    idx_ = s_.slice.value
                    safe = safe or (bool(rets_) and all(
                        isinstance(x.value, (ast.Tuple, ast.List)) and not any(isinstance(e_, ast.Starred) for e_ in x.value.elts)
                        and (len(x.value.elts) > idx_ if idx_ >= 0 else len(x.value.elts) >= -idx_) for x in rets_))
                rep.check(safe or guarded, 'C07.e', '%s:index-on-call:%s' % (f.qualname, src(s_)[:40]), '%s:%d' % (f.module.relpath, s_.lineno),
                          'indexing a never-empty call result',
                          '%s evaluates %s: the indexed result can be empty (IndexError inside the pipeline)' % (f.qualname, src(s_)), nontrivial=True)
    # the sort key used for sort_dict_keys must be total: ordering of user keys is attempted inside
    # try/except TypeError and the fallback compares only types' names
    m0 = repo.module('prettyprinter')
    srt = m0.classes.get(__import__('engine.roles', fromlist=['x']).name(repo, 'sortable_cls'))
    n += 1
    if srt is None:
        keyed = [c for f in m0.funcs.values() for c in ast.walk(f.node) if isinstance(c, ast.Call) and call_name(c) == 'sorted'
                 and f.name == 'pretty_dict']
        rep.check(all(any(k.arg == 'key' for k in c.keywords) for c in keyed) and bool(keyed), 'C07.e', 'dict-sort:total-key', m0.relpath,
                  'dict keys sorted with a total key', 'dict keys are sorted without an always-sortable key: incomparable keys raise TypeError')
    else:
        # no pair of keys makes the comparison raise (interpreted on pairs of constants: comparable, incomparable, same-type unorderable)
        from .common import report_sortkey
        n += report_sortkey(repo, rep, 'C07.e', lambda label: label.startswith('total-fallback')) - 1
    rep.floor('C07.e', n, 15)

    # ---------------------------------------------------------------- C07.f
    n = 0
    m = repo.module('prettyprinter')
    # named tuples and struct sequences are recognised by the attributes of their *class* (never of the instance: an object with a
    # __getattr__ answers to every name): the two detectors interpreted on model classes / instances
    n += _detectors(repo, rep)
    seqp = None
    for r in facts.registry(repo):
        if r.key == 'tuple' and r.fn is not None:
            seqp = r.fn
    if seqp is None:
        raise AnalysisError('tuple printer not found')
    par = enclosing_map(seqp.node)
    calls = [c for c in ast.walk(seqp.node) if isinstance(c, ast.Call) and call_name(c) == 'pretty_cnamedtuple']
    for c in calls:
        n += 1
        tries = inside_try_body(c, par)
        ok = bool(tries) and any(handler_catches(h, 'Exception') and all(isinstance(b, ast.Pass) for b in h.body) for h in tries[0].handlers)
        rep.check(ok, 'C07.f', 'tuple-printer:struct-sequence-fallback', '%s:%d' % (seqp.module.relpath, c.lineno),
                  'any failure of the struct-sequence path falls back to the plain tuple path',
                  'the struct-sequence printer is called without the "except Exception: pass" fallback to the tuple path', nontrivial=True)
    # Class.member for enum members, qualified like every other name: the identifier functions interpreted on model callables
    from . import identmodel
    n += identmodel.run(repo, rep, 'C07.f')
    rep.floor('C07.f', n, 4)
    from .c07_shape import run_shape
    rep.floor('C07.h', run_shape(repo, rep), 20)
    # the argument lists of deque([...]), OrderedDict([...]), Counter({...}) are built by the sequence builder: separated by commas at every length
    from . import shape as _S
    rep.floor('C07.h:builder', _S.sequence_builder_content(repo, rep, 'C07.h'), 3)
    # a path literal that is too long for the line is broken at its separators: the split pattern must keep every character
    # (re.split drops whatever is matched outside the one capturing group) - the rule of C02.b on the stdlib printers' own patterns
    from .c02 import _patterns
    rep.floor('C07.j', _patterns(repo, rep, 'C07.j', lambda name: 'split_pattern' in name), 1)
    # C07.i: what a bundled printer prints below itself is printed under the caller's settings (imported from the context model)
    from . import ctxmodel
    ni = ctxmodel.report(repo, rep, 'C07.i', lambda k: ':keeps:' in k or k.startswith('ctor:stores:'),
                         'the contents of a standard-library container would be printed under different settings than asked for')
    ni += ctxmodel.construction_sites(repo, rep, 'C07.i', 'contents of standard-library containers are printed under the derived context')
    rep.floor('C07.i', ni, 10)
    rep.analysed['attribute_reads_checked'] = n_reads


def _is_caught_variable(raise_node, exc_expr, par):
    """``raise e`` inside ``except ... as e``"""
    if not isinstance(exc_expr, ast.Name):
        return False
    p = par.get(id(raise_node))
    while p is not None:
        if isinstance(p, ast.ExceptHandler) and p.name == exc_expr.id:
            return True
        p = par.get(id(p))
    return False


def _in_default_branch(node, par):
    p = par.get(id(node))
    return isinstance(p, ast.If) and node in p.orelse and 'isinstance' in src(p.test) or \
        (isinstance(p, ast.If) and node in p.orelse and ' is ' in src(p.test))


def _detectors(repo, rep):
    """_is_namedtuple / _is_cnamedtuple interpreted: True exactly for instances whose class carries the identifying attributes (for
    struct sequences: as integers); attributes present on the instance only do not count; returns the number of scenarios"""
    from engine.interp import Interp, Const, ObjV, FuncV, Undecided, Raised, PathLimit
    from engine.loader import ClassInfo
    m = repo.module('prettyprinter')
    nodes = ast.parse('class ModelClass:\n    pass\nclass ModelInstance:\n    pass\n').body
    cinfo, iinfo = ClassInfo(None, nodes[0]), ClassInfo(None, nodes[1])
    NT = ('__slots__', '_make', '_replace', '_asdict')
    CNT = ('n_fields', 'n_sequence_fields', 'n_unnamed_fields')

    def make(cls_attrs, inst_attrs):
        c = ObjV(cinfo)
        c.attrs.update({'__name__': Const('M'), '__qualname__': Const('M'), '__module__': Const('model')})
        c.attrs.update(cls_attrs)
        o = ObjV(iinfo)
        o.attrs['__class__'] = c
        o.attrs.update(inst_attrs)
        return o
    fn_ = lambda: Const('<function>')   # noqa: E731
    scenarios = [
        ('_is_namedtuple', 'class has every attribute', make({a: fn_() for a in NT}, {}), True),
        ('_is_namedtuple', 'class lacks _asdict', make({a: fn_() for a in NT[:-1]}, {}), False),
        ('_is_namedtuple', 'attributes on the instance only', make({}, {a: fn_() for a in NT}), False),
        ('_is_namedtuple', 'plain class', make({}, {}), False),
        ('_is_cnamedtuple', 'class has the three counters', make({a: Const(3) for a in CNT}, {}), True),
        ('_is_cnamedtuple', 'a counter is not an integer', make({'n_fields': Const(3), 'n_sequence_fields': Const('3'), 'n_unnamed_fields': Const(0)}, {}), False),
        ('_is_cnamedtuple', 'class lacks n_unnamed_fields', make({a: Const(3) for a in CNT[:-1]}, {}), False),
        ('_is_cnamedtuple', 'counters on the instance only', make({}, {a: Const(3) for a in CNT}), False),
    ]
    n = 0
    for fname, label, value, want in scenarios:
        f = m.funcs.get(fname)
        n += 1
        if f is None:
            rep.fail('C07.f', fname + ':exists', m.relpath, fname + ' vanished')
            continue
        it = Interp(repo, {}, max_paths=4, max_depth=40)
        it.concrete_context = True
        try:
            prs = it.explore(f, [value], {})
        except (Undecided, PathLimit) as e:
            rep.undecided('C07.f', '%s[%s]' % (fname, label), f.where, str(e))
            continue
        got = prs[0].value.v if len(prs) == 1 and prs[0].raised is None and isinstance(prs[0].value, Const) else \
            ('raises ' + prs[0].raised.what if len(prs) == 1 and prs[0].raised is not None else '%d paths' % len(prs))
        rep.check(got is want, 'C07.f', '%s[%s]' % (fname, label), f.where, 'answers %s' % want,
                  '%s answers %s for a value whose %s (expected %s): detection must look at the attributes of the class only - an object that '
                  'answers to every attribute name would be taken for a named tuple, or a real one missed' % (fname, got, label, want), nontrivial=True)
    return n


def _nonempty(seq, defs, fs, idx, resolve=None):
    need = idx + 1 if idx >= 0 else -idx
    # lower bound on len(seq) from the dominating facts
    lb = 0
    texts = {(f.text.replace(' ', ''), f.pol) for f in fs}
    # names that hold len(seq): ``n = len(seq); if n == 1: ...``
    for nm_, ds_ in defs.items():
        if len(ds_) == 1 and isinstance(ds_[0], ast.Call) and call_name(ds_[0]) == 'len' and ds_[0].args and src(ds_[0].args[0]) == seq:
            import re as _re
            texts |= {(_re.sub(r'(?<![\w.])%s(?![\w(])' % _re.escape(nm_), 'len(%s)' % seq, t_), p_) for t_, p_ in texts}
    for t, pol in texts:
        if (pol and t == seq) or ((not pol) and t == 'not' + seq):
            lb = max(lb, 1)
        for op, off in (('==', 0), ('>=', 0), ('>', 1)):
            pre = 'len(%s)%s' % (seq, op)
            if pol and t.startswith(pre) and not (op == '>' and t.startswith('len(%s)>=' % seq)):
                try:
                    lb = max(lb, int(t[len(pre):]) + off)
                except ValueError:
                    pass
    for _ in range(8):
        if ('len(%s)==%d' % (seq, lb), False) in texts:
            lb += 1
    if lb >= need:
        return True, 'len(%s) >= %d follows from the dominating tests' % (seq, lb)
    ds = defs.get(seq, [])
    if ds and need <= 1 and all(isinstance(d, ast.Call) and isinstance(d.func, ast.Attribute) and d.func.attr == 'split'
                                and not _filtered(d) for d in ds):
        return True, 'result of .split(): never empty'
    if ds and all(isinstance(d, (ast.Tuple, ast.List)) and len(d.elts) >= need and not any(isinstance(e, ast.Starred) for e in d.elts) for d in ds):
        return True, 'literal with enough elements'
    # the result of a package function every return of which is a literal with enough elements
    def long_enough(d):
        if isinstance(d, (ast.Tuple, ast.List)):
            return len(d.elts) >= need and not any(isinstance(e, ast.Starred) for e in d.elts)
        if resolve is not None and isinstance(d, ast.Call) and isinstance(d.func, ast.Name):
            kind, fn_ = resolve(d.func.id)
            if kind == 'func':
                rets = [r for r in effects._own_nodes(fn_.node) if isinstance(r, ast.Return)]
                return bool(rets) and all(r.value is not None and isinstance(r.value, (ast.Tuple, ast.List)) and len(r.value.elts) >= need
                                          and not any(isinstance(e, ast.Starred) for e in r.value.elts) for r in rets)
        return False
    if ds and all(long_enough(d) for d in ds):
        return True, 'built with enough elements on every path'
    return False, 'no length / truthiness guard; defined as %s' % [src(d)[:60] for d in ds]


def _filtered(d):
    return False
